//! Projection of a `ConfigState` used for equality in C05/C06/C07/C20 (DESIGN §3):
//! all maps except `request_counts` (bookkeeping that even rejected commands mutate),
//! canonical key order, tcp/udp frontend buckets as sets, optionally with empty
//! backend / tcp-front / udp-front / certificate buckets dropped.

use serde_json::Value;
use sozu_command_lib::state::ConfigState;

fn canon(v: &mut Value) {
    match v {
        Value::Object(m) => {
            let mut entries: Vec<(String, Value)> = std::mem::take(m).into_iter().collect();
            for (_, v) in entries.iter_mut() {
                canon(v);
            }
            entries.sort_by(|a, b| a.0.cmp(&b.0));
            for (k, v) in entries {
                m.insert(k, v);
            }
        }
        Value::Array(a) => {
            for v in a.iter_mut() {
                canon(v);
            }
        }
        _ => {}
    }
}

pub fn projection(state: &ConfigState, normalize_empty_buckets: bool) -> Value {
    let mut v = serde_json::to_value(state).expect("ConfigState serialises");
    let obj = v.as_object_mut().expect("object");
    obj.remove("request_counts");
    canon(&mut v);
    let obj = v.as_object_mut().expect("object");
    for key in ["tcp_fronts", "udp_fronts"] {
        if let Some(Value::Object(m)) = obj.get_mut(key) {
            for (_, bucket) in m.iter_mut() {
                if let Value::Array(a) = bucket {
                    a.sort_by_key(|x| x.to_string());
                }
            }
        }
    }
    if normalize_empty_buckets {
        for key in ["backends", "tcp_fronts", "udp_fronts", "certificates"] {
            if let Some(Value::Object(m)) = obj.get_mut(key) {
                let empties: Vec<String> = m
                    .iter()
                    .filter(|(_, b)| match b {
                        Value::Array(a) => a.is_empty(),
                        Value::Object(o) => o.is_empty(),
                        _ => false,
                    })
                    .map(|(k, _)| k.clone())
                    .collect();
                for k in empties {
                    m.remove(&k);
                }
            }
        }
    }
    v
}

/// First difference between two projections as a readable path, or None when equal.
pub fn first_diff(a: &Value, b: &Value) -> Option<String> {
    fn go(path: &str, a: &Value, b: &Value) -> Option<String> {
        match (a, b) {
            (Value::Object(x), Value::Object(y)) => {
                for (k, v) in x {
                    match y.get(k) {
                        None => return Some(format!("{path}/{k}: present on the left only: {}", crate::engine::truncate(&v.to_string(), 300))),
                        Some(w) => {
                            if let Some(d) = go(&format!("{path}/{k}"), v, w) {
                                return Some(d);
                            }
                        }
                    }
                }
                for (k, w) in y {
                    if !x.contains_key(k) {
                        return Some(format!("{path}/{k}: present on the right only: {}", crate::engine::truncate(&w.to_string(), 300)));
                    }
                }
                None
            }
            (Value::Array(x), Value::Array(y)) => {
                if x.len() != y.len() {
                    return Some(format!("{path}: array length {} vs {}", x.len(), y.len()));
                }
                for (i, (v, w)) in x.iter().zip(y).enumerate() {
                    if let Some(d) = go(&format!("{path}[{i}]"), v, w) {
                        return Some(d);
                    }
                }
                None
            }
            _ => {
                if a == b {
                    None
                } else {
                    Some(format!(
                        "{path}: {} vs {}",
                        crate::engine::truncate(&a.to_string(), 200),
                        crate::engine::truncate(&b.to_string(), 200)
                    ))
                }
            }
        }
    }
    go("", a, b)
}

/// Kinds of objects present (for non-triviality rules).
pub fn object_kinds(s: &ConfigState) -> usize {
    [
        !s.clusters.is_empty(),
        s.backends.values().any(|v| !v.is_empty()),
        !s.http_listeners.is_empty(),
        !s.https_listeners.is_empty(),
        !s.tcp_listeners.is_empty(),
        !s.udp_listeners.is_empty(),
        !s.http_fronts.is_empty(),
        !s.https_fronts.is_empty(),
        s.tcp_fronts.values().any(|v| !v.is_empty()),
        s.udp_fronts.values().any(|v| !v.is_empty()),
        s.certificates.values().any(|v| !v.is_empty()),
    ]
    .iter()
    .filter(|b| **b)
    .count()
}
