//! Reference readers for HTTP/1.1 request sequences on one connection (C03).
//!
//! `read_requests(bytes, &Opts)` reads a COMPLETE captured byte string (everything one connection
//! carried) as a sequence of requests. `Opts::strict()` is an RFC 9112 reading that refuses every
//! construct the RFC lets a recipient refuse (the most conservative conforming backend);
//! `variants()` are permissive readers, each relaxing one or two rules the way deployed servers do.
//! A byte string is *unambiguous* when the strict reader accepts it and every variant finds the
//! same message boundaries. No kawa, no httparse, no nom: plain byte scanning.

#[derive(Clone, Debug, PartialEq)]
pub enum Framing {
    None,
    ContentLength(u64),
    Chunked,
}

#[derive(Clone, Debug)]
pub struct Req {
    pub start: usize,
    /// offset just after the blank line ending the head
    pub head_end: usize,
    /// offset just after the message (== bytes.len() when the message is not complete)
    pub end: usize,
    pub complete: bool,
    pub method: String,
    pub target: String,
    pub version: String,
    /// (name as written, value with optional whitespace trimmed)
    pub headers: Vec<(String, Vec<u8>)>,
    /// effective host: authority of an absolute-form target, else the Host field (reader's choice when several)
    pub host: Option<String>,
    pub framing: Framing,
    /// decoded body (partial when the message is not complete)
    pub body: Vec<u8>,
    pub trailers: Vec<(String, Vec<u8>)>,
}

impl Req {
    pub fn header_values(&self, name: &str) -> Vec<&[u8]> {
        self.headers.iter().filter(|(n, _)| n.eq_ignore_ascii_case(name)).map(|(_, v)| v.as_slice()).collect()
    }
    pub fn header_str(&self, name: &str) -> Option<String> {
        self.header_values(name).first().map(|v| String::from_utf8_lossy(v).to_string())
    }
}

#[derive(Clone, Debug, PartialEq)]
pub enum Tail {
    /// every byte belongs to a complete message
    Clean,
    /// the bytes end inside a message (what: "head" | "body" | "chunk" | "trailers")
    Incomplete { at: usize, what: &'static str },
    /// not readable from `at` on; `class` is a short stable key
    Reject { at: usize, class: &'static str, detail: String },
}

#[derive(Clone, Debug)]
pub struct Reading {
    pub reqs: Vec<Req>,
    pub tail: Tail,
}

impl Reading {
    pub fn accepted(&self) -> bool {
        !matches!(self.tail, Tail::Reject { .. })
    }
    /// (start, head_end, end, complete) of every message found
    pub fn boundaries(&self) -> Vec<(usize, usize, usize, bool)> {
        self.reqs.iter().map(|r| (r.start, r.head_end, r.end, r.complete)).collect()
    }
    pub fn describe(&self) -> String {
        let mut s = String::new();
        for r in &self.reqs {
            s.push_str(&format!(
                "[{}..{}{} {} {} {:?} body={}] ",
                r.start,
                r.end,
                if r.complete { "" } else { " (incomplete)" },
                r.method,
                r.target,
                r.framing,
                r.body.len()
            ));
        }
        s.push_str(&format!("tail={:?}", self.tail));
        s
    }
}

#[derive(Clone, Copy, Debug, PartialEq)]
pub enum Both {
    Reject,
    TeWins,
    ClWins,
}
#[derive(Clone, Copy, Debug, PartialEq)]
pub enum DupCl {
    Reject,
    /// duplicates / lists accepted when every member is the same number (RFC 9110 §8.6 MAY)
    IdenticalOk,
    First,
    Last,
}
#[derive(Clone, Copy, Debug, PartialEq)]
pub enum ClForm {
    /// 1*DIGIT that fits a u64
    Strict,
    /// atoi style: optional sign '+', leading digits, the rest of the value ignored
    Lenient,
    /// a value that is not 1*DIGIT makes the field count as absent
    IgnoreInvalid,
}
#[derive(Clone, Copy, Debug, PartialEq)]
pub enum TeMatch {
    /// the last list member is `chunked` (ASCII case-insensitive, no parameters), `chunked` occurs once
    FinalExact,
    /// any list member is `chunked`
    AnyToken,
    /// any Transfer-Encoding value contains the letters `chunked`
    Substring,
}
#[derive(Clone, Copy, Debug, PartialEq)]
pub enum TeField {
    All,
    First,
    Last,
}
#[derive(Clone, Copy, Debug, PartialEq)]
pub enum TeUnknown {
    Reject,
    /// a Transfer-Encoding that does not select chunked is ignored (Content-Length or no body decides)
    Ignore,
}
#[derive(Clone, Copy, Debug, PartialEq)]
pub enum HostPick {
    /// exactly one Host field in HTTP/1.1
    Single,
    First,
    Last,
}

#[derive(Clone, Debug)]
pub struct Opts {
    pub name: &'static str,
    pub bare_lf: bool,
    pub obs_fold: bool,
    pub ws_before_colon: bool,
    pub both: Both,
    pub dup_cl: DupCl,
    pub cl_form: ClForm,
    pub te_match: TeMatch,
    pub te_field: TeField,
    pub te_unknown: TeUnknown,
    pub te_http10: bool,
    /// tolerate CTL / NUL / DEL / bare CR inside field values and the request line, trim them around framing tokens
    pub ctl: bool,
    /// skip empty lines before a request line
    pub lead_crlf: bool,
    /// any HTTP/<d>.<d> version
    pub any_version: bool,
    /// chunk-size lines: surrounding whitespace, anything after ';'
    pub chunk_lenient: bool,
    pub host: HostPick,
}

impl Opts {
    pub fn strict() -> Opts {
        Opts {
            name: "strict",
            bare_lf: false,
            obs_fold: false,
            ws_before_colon: false,
            both: Both::Reject,
            dup_cl: DupCl::Reject,
            cl_form: ClForm::Strict,
            te_match: TeMatch::FinalExact,
            te_field: TeField::All,
            te_unknown: TeUnknown::Reject,
            te_http10: false,
            ctl: false,
            lead_crlf: false,
            any_version: false,
            chunk_lenient: false,
            host: HostPick::Single,
        }
    }
    /// the normalisation RFC 9112 §6.1 / RFC 9110 §8.6 allow an intermediary: Transfer-Encoding overrides
    /// Content-Length, identical duplicate Content-Length values collapse, the first Host decides
    pub fn normalising() -> Opts {
        Opts { name: "te-wins-normalising", both: Both::TeWins, dup_cl: DupCl::IdenticalOk, host: HostPick::First, ..Opts::strict() }
    }
}

/// permissive backends: each relaxes the strict reading in one direction
pub fn variants() -> Vec<Opts> {
    let s = Opts::strict;
    vec![
        Opts { name: "te-wins", both: Both::TeWins, ..s() },
        Opts { name: "cl-wins", both: Both::ClWins, ..s() },
        Opts { name: "first-cl", dup_cl: DupCl::First, ..s() },
        Opts { name: "last-cl", dup_cl: DupCl::Last, ..s() },
        Opts { name: "bare-lf", bare_lf: true, ..s() },
        Opts { name: "obs-fold-joined", obs_fold: true, ..s() },
        Opts { name: "ws-before-colon", ws_before_colon: true, ..s() },
        Opts { name: "te-substring", te_match: TeMatch::Substring, ctl: true, ..s() },
        Opts { name: "te-any-token", te_match: TeMatch::AnyToken, ..s() },
        Opts { name: "te-unknown-ignored", te_unknown: TeUnknown::Ignore, both: Both::TeWins, ..s() },
        Opts { name: "te-in-http10", te_http10: true, ..s() },
        Opts { name: "cl-atoi", cl_form: ClForm::Lenient, dup_cl: DupCl::First, ..s() },
        Opts { name: "cl-invalid-ignored", cl_form: ClForm::IgnoreInvalid, dup_cl: DupCl::First, ..s() },
        Opts { name: "lenient-bytes", ctl: true, lead_crlf: true, any_version: true, chunk_lenient: true, host: HostPick::First, ..s() },
    ]
}

/// readers used only to describe how else a stream can be read (not part of "unambiguous": a backend that looks at
/// one Transfer-Encoding field only is not a reading RFC 9110 §5.3 permits, and sozu may forward `gzip` + `chunked`)
pub fn diagnostic_variants() -> Vec<Opts> {
    let s = Opts::strict;
    vec![
        Opts { name: "te-last-field", te_field: TeField::Last, te_unknown: TeUnknown::Ignore, ..s() },
        Opts { name: "te-first-field", te_field: TeField::First, te_unknown: TeUnknown::Ignore, ..s() },
    ]
}

pub fn is_tchar(b: u8) -> bool {
    b.is_ascii_alphanumeric() || b"!#$%&'*+-.^_`|~".contains(&b)
}

fn trim_ows(mut v: &[u8]) -> &[u8] {
    while let [b' ' | b'\t', rest @ ..] = v {
        v = rest;
    }
    while let [rest @ .., b' ' | b'\t'] = v {
        v = rest;
    }
    v
}

fn trim_ctl(mut v: &[u8]) -> &[u8] {
    while let [b, rest @ ..] = v {
        if *b <= b' ' || *b == 0x7f {
            v = rest;
        } else {
            break;
        }
    }
    while let [rest @ .., b] = v {
        if *b <= b' ' || *b == 0x7f {
            v = rest;
        } else {
            break;
        }
    }
    v
}

enum Line {
    /// (content range start, content range end, offset after the terminator)
    Full(usize, usize, usize),
    Incomplete,
    Reject(usize, &'static str, String),
}

/// one line starting at `pos`
fn read_line(b: &[u8], pos: usize, o: &Opts) -> Line {
    let Some(rel) = b[pos..].iter().position(|&c| c == b'\n') else {
        return Line::Incomplete;
    };
    let lf = pos + rel;
    let (end, crlf) = if lf > pos && b[lf - 1] == b'\r' { (lf - 1, true) } else { (lf, false) };
    if !crlf && !o.bare_lf {
        return Line::Reject(lf, "bare-lf", format!("line ended by a bare LF at offset {lf}"));
    }
    if !o.ctl {
        if let Some(p) = b[pos..end].iter().position(|&c| c == b'\r') {
            return Line::Reject(pos + p, "bare-cr", format!("bare CR at offset {}", pos + p));
        }
    }
    Line::Full(pos, end, lf + 1)
}

fn field_value_ok(v: &[u8], o: &Opts) -> Result<(), (&'static str, String)> {
    for &c in v {
        let ok = c == b'\t' || c == b' ' || (0x21..=0x7e).contains(&c) || c >= 0x80;
        if !ok && !o.ctl {
            return Err((if c == 0 { "nul-in-value" } else { "ctl-in-value" }, format!("byte 0x{c:02x} in a field value")));
        }
    }
    Ok(())
}

/// header section from `pos`: Ok(Some((fields, offset after the blank line))) | Ok(None) incomplete
#[allow(clippy::type_complexity)]
fn read_fields(b: &[u8], mut pos: usize, o: &Opts) -> Result<Option<(Vec<(String, Vec<u8>)>, usize)>, (usize, &'static str, String)> {
    let mut fields: Vec<(String, Vec<u8>)> = vec![];
    loop {
        let (s, e, next) = match read_line(b, pos, o) {
            Line::Incomplete => return Ok(None),
            Line::Reject(at, c, d) => return Err((at, c, d)),
            Line::Full(s, e, n) => (s, e, n),
        };
        let line = &b[s..e];
        if line.is_empty() {
            return Ok(Some((fields, next)));
        }
        if line[0] == b' ' || line[0] == b'\t' {
            if !o.obs_fold {
                return Err((s, "obs-fold", "line starting with whitespace inside a header section (obs-fold)".into()));
            }
            let Some(last) = fields.last_mut() else {
                return Err((s, "obs-fold", "continuation line before any field".into()));
            };
            let cont = trim_ows(line);
            field_value_ok(cont, o).map_err(|(c, d)| (s, c, d))?;
            if !last.1.is_empty() && !cont.is_empty() {
                last.1.push(b' ');
            }
            last.1.extend_from_slice(cont);
            pos = next;
            continue;
        }
        let Some(colon) = line.iter().position(|&c| c == b':') else {
            return Err((s, "no-colon", format!("header line without a colon: {:?}", String::from_utf8_lossy(line))));
        };
        let mut name = &line[..colon];
        if o.ws_before_colon {
            while let [rest @ .., b' ' | b'\t'] = name {
                name = rest;
            }
        }
        if name.is_empty() || !name.iter().all(|&c| is_tchar(c)) {
            let class = if name.iter().any(|&c| c == b' ' || c == b'\t') { "ws-before-colon" } else { "field-name" };
            return Err((s, class, format!("invalid field name {:?}", String::from_utf8_lossy(&line[..colon]))));
        }
        let value = trim_ows(&line[colon + 1..]);
        field_value_ok(value, o).map_err(|(c, d)| (s, c, d))?;
        fields.push((String::from_utf8_lossy(name).to_string(), value.to_vec()));
        pos = next;
    }
}

fn parse_cl_value(v: &[u8], o: &Opts) -> Result<Option<u64>, String> {
    // one list member
    let v = if o.ctl { trim_ctl(v) } else { trim_ows(v) };
    let strict = || -> Option<u64> {
        if v.is_empty() || !v.iter().all(|c| c.is_ascii_digit()) {
            return None;
        }
        std::str::from_utf8(v).ok()?.parse::<u64>().ok()
    };
    match o.cl_form {
        ClForm::Strict => strict().map(Some).ok_or_else(|| format!("Content-Length value {:?}", String::from_utf8_lossy(v))),
        ClForm::IgnoreInvalid => Ok(strict()),
        ClForm::Lenient => {
            let mut w = v;
            if let [b'+', rest @ ..] = w {
                w = rest;
            }
            let digits: Vec<u8> = w.iter().copied().take_while(|c| c.is_ascii_digit()).collect();
            if digits.is_empty() {
                return Err(format!("Content-Length value {:?}", String::from_utf8_lossy(v)));
            }
            std::str::from_utf8(&digits).unwrap().parse::<u64>().map(Some).map_err(|_| "Content-Length overflow".to_string())
        }
    }
}

/// Content-Length of a field list: Ok(None) = no usable field
fn content_length(fields: &[(String, Vec<u8>)], o: &Opts) -> Result<Option<u64>, (&'static str, String)> {
    let vals: Vec<&[u8]> = fields.iter().filter(|(n, _)| n.eq_ignore_ascii_case("content-length")).map(|(_, v)| v.as_slice()).collect();
    if vals.is_empty() {
        return Ok(None);
    }
    // members: every field, split at commas unless the lenient form reads a prefix
    let mut members: Vec<&[u8]> = vec![];
    for v in &vals {
        if o.cl_form == ClForm::Lenient {
            members.push(v);
        } else {
            members.extend(v.split(|&c| c == b','));
        }
    }
    if members.len() > 1 && o.dup_cl == DupCl::Reject {
        return Err(("dup-content-length", format!("{} Content-Length values", members.len())));
    }
    let mut nums = vec![];
    for m in &members {
        match parse_cl_value(m, o) {
            Ok(Some(n)) => nums.push(n),
            Ok(None) => {}
            Err(d) => return Err(("content-length-value", d)),
        }
    }
    if nums.is_empty() {
        return Ok(None);
    }
    match o.dup_cl {
        DupCl::Reject => Ok(Some(nums[0])),
        DupCl::IdenticalOk => {
            if nums.iter().all(|n| *n == nums[0]) {
                Ok(Some(nums[0]))
            } else {
                Err(("conflicting-content-length", format!("Content-Length values {nums:?}")))
            }
        }
        DupCl::First => Ok(Some(nums[0])),
        DupCl::Last => Ok(Some(*nums.last().unwrap())),
    }
}

/// Some(true) chunked, Some(false) a Transfer-Encoding is present but does not select chunked, None absent
fn transfer_encoding(fields: &[(String, Vec<u8>)], o: &Opts) -> Result<Option<bool>, (&'static str, String)> {
    let mut vals: Vec<&[u8]> = fields.iter().filter(|(n, _)| n.eq_ignore_ascii_case("transfer-encoding")).map(|(_, v)| v.as_slice()).collect();
    if vals.is_empty() {
        return Ok(None);
    }
    match o.te_field {
        TeField::All => {}
        TeField::First => vals.truncate(1),
        TeField::Last => vals = vec![*vals.last().unwrap()],
    }
    if o.te_match == TeMatch::Substring {
        let hit = vals.iter().any(|v| v.to_ascii_lowercase().windows(7).any(|w| w == b"chunked"));
        return Ok(Some(hit));
    }
    let mut tokens: Vec<Vec<u8>> = vec![];
    for v in &vals {
        for m in v.split(|&c| c == b',') {
            let m = if o.ctl { trim_ctl(m) } else { trim_ows(m) };
            if !m.is_empty() {
                tokens.push(m.to_ascii_lowercase());
            }
        }
    }
    if tokens.is_empty() {
        return Ok(Some(false));
    }
    match o.te_match {
        TeMatch::AnyToken => Ok(Some(tokens.iter().any(|t| t == b"chunked"))),
        _ => {
            // every member: token *( OWS ";" OWS parameter )
            for t in &tokens {
                let name = t.split(|&c| c == b';').next().unwrap_or(b"");
                let name = trim_ows(name);
                if name.is_empty() || !name.iter().all(|&c| is_tchar(c)) {
                    if o.te_unknown == TeUnknown::Ignore {
                        return Ok(Some(false));
                    }
                    return Err(("transfer-coding-syntax", format!("transfer coding {:?}", String::from_utf8_lossy(t))));
                }
            }
            let n_chunked = tokens.iter().filter(|t| t.as_slice() == b"chunked").count();
            let last_is = tokens.last().map(|t| t.as_slice() == b"chunked").unwrap_or(false);
            // the final coding frames the message; `chunked, chunked` is a sender error (RFC 9112 §6.1) that does not
            // make the boundaries ambiguous: the outermost coding is still chunked
            let _ = n_chunked;
            if last_is {
                Ok(Some(true))
            } else {
                Ok(Some(false))
            }
        }
    }
}

fn authority_of_absolute(target: &str) -> Option<String> {
    let (scheme, rest) = target.split_once("://")?;
    if scheme.is_empty() || !scheme.bytes().all(|c| c.is_ascii_alphanumeric() || b"+-.".contains(&c)) {
        return None;
    }
    let end = rest.find(['/', '?', '#']).unwrap_or(rest.len());
    let auth = &rest[..end];
    let auth = auth.rsplit_once('@').map(|(_, h)| h).unwrap_or(auth);
    Some(auth.to_string())
}

fn host_value_ok(v: &[u8]) -> bool {
    // uri-host [ ":" port ]: unreserved / sub-delims / pct-encoded / IP-literal brackets / ':'
    v.iter().all(|&c| c.is_ascii_alphanumeric() || b"-._~!$&'()*+,;=%[]:".contains(&c))
}

/// Read `bytes` as a sequence of requests.
pub fn read_requests(b: &[u8], o: &Opts) -> Reading {
    let mut reqs = vec![];
    let mut pos = 0usize;
    macro_rules! reject {
        ($at:expr, $class:expr, $detail:expr) => {
            return Reading { reqs, tail: Tail::Reject { at: $at, class: $class, detail: $detail } }
        };
    }
    loop {
        if pos >= b.len() {
            return Reading { reqs, tail: Tail::Clean };
        }
        let start = pos;
        // ---- request line
        let mut lp = pos;
        let (ls, le, after_line) = loop {
            match read_line(b, lp, o) {
                Line::Incomplete => return Reading { reqs, tail: Tail::Incomplete { at: start, what: "head" } },
                Line::Reject(at, c, d) => reject!(at, c, d),
                Line::Full(s, e, n) => {
                    if s == e && o.lead_crlf {
                        lp = n;
                        if lp >= b.len() {
                            return Reading { reqs, tail: Tail::Clean };
                        }
                        continue;
                    }
                    break (s, e, n);
                }
            }
        };
        let line = &b[ls..le];
        if line.is_empty() {
            reject!(ls, "empty-line-before-request", "empty line where a request line is expected".into());
        }
        let parts: Vec<&[u8]> = if o.ctl {
            line.split(|&c| c == b' ' || c == b'\t').filter(|p| !p.is_empty()).collect()
        } else {
            line.split(|&c| c == b' ').collect()
        };
        if parts.len() != 3 {
            reject!(ls, "request-line", format!("request line {:?} is not `method SP target SP version`", String::from_utf8_lossy(line)));
        }
        let (m, t, v) = (parts[0], parts[1], parts[2]);
        if m.is_empty() || !m.iter().all(|&c| is_tchar(c)) {
            reject!(ls, "method", format!("method {:?}", String::from_utf8_lossy(m)));
        }
        if t.is_empty() || !t.iter().all(|&c| (0x21..=0x7e).contains(&c) || (o.ctl && c != b' ')) {
            reject!(ls, "request-target", format!("request target {:?}", String::from_utf8_lossy(t)));
        }
        let version_ok = if o.any_version {
            v.len() == 8 && v.starts_with(b"HTTP/") && v[5].is_ascii_digit() && v[6] == b'.' && v[7].is_ascii_digit()
        } else {
            v.len() == 8 && v.starts_with(b"HTTP/1.") && v[7].is_ascii_digit()
        };
        if !version_ok {
            reject!(ls, "version", format!("version {:?}", String::from_utf8_lossy(v)));
        }
        let method = String::from_utf8_lossy(m).to_string();
        let target = String::from_utf8_lossy(t).to_string();
        let version = String::from_utf8_lossy(v).to_string();
        let http10 = version == "HTTP/1.0";
        // target form
        let abs_authority = if target.starts_with('/') {
            None
        } else if target == "*" {
            if !method.eq_ignore_ascii_case("OPTIONS") && !o.ctl {
                reject!(ls, "request-target", "asterisk-form with a method other than OPTIONS".into());
            }
            None
        } else if method.eq_ignore_ascii_case("CONNECT") {
            Some(target.clone())
        } else {
            match authority_of_absolute(&target) {
                Some(a) => Some(a),
                None => {
                    if !o.ctl {
                        reject!(ls, "request-target", format!("request target {target:?} is neither origin-form nor absolute-form"));
                    }
                    None
                }
            }
        };
        // ---- fields
        let (headers, head_end) = match read_fields(b, after_line, o) {
            Ok(Some(x)) => x,
            Ok(None) => return Reading { reqs, tail: Tail::Incomplete { at: start, what: "head" } },
            Err((at, c, d)) => reject!(at, c, d),
        };
        // ---- host
        let hosts: Vec<&[u8]> = headers.iter().filter(|(n, _)| n.eq_ignore_ascii_case("host")).map(|(_, v)| v.as_slice()).collect();
        let host_field = match o.host {
            HostPick::Single => {
                if hosts.len() > 1 {
                    reject!(after_line, "host-count", format!("{} Host fields", hosts.len()));
                }
                if hosts.is_empty() && !http10 {
                    reject!(after_line, "host-count", "no Host field in an HTTP/1.1 request".into());
                }
                hosts.first().copied()
            }
            HostPick::First => hosts.first().copied(),
            HostPick::Last => hosts.last().copied(),
        };
        if let Some(h) = host_field {
            if !host_value_ok(h) && !o.ctl {
                reject!(after_line, "host-value", format!("Host value {:?}", String::from_utf8_lossy(h)));
            }
        }
        let host = match (&abs_authority, host_field) {
            (Some(a), _) if !a.is_empty() => Some(a.clone()),
            (_, Some(h)) => Some(String::from_utf8_lossy(h).to_string()),
            _ => None,
        };
        // ---- framing
        let te = match transfer_encoding(&headers, o) {
            Ok(t) => t,
            Err((c, d)) => reject!(after_line, c, d),
        };
        let cl = match content_length(&headers, o) {
            Ok(c) => c,
            Err((c, d)) => {
                // a reader that lets Transfer-Encoding win never looks at Content-Length
                if te == Some(true) && o.both == Both::TeWins {
                    None
                } else {
                    reject!(after_line, c, d)
                }
            }
        };
        let has_cl_field = headers.iter().any(|(n, _)| n.eq_ignore_ascii_case("content-length"));
        let mut te = te;
        if te.is_some() && http10 && !o.te_http10 {
            if o.te_unknown == TeUnknown::Ignore {
                te = None;
            } else {
                reject!(after_line, "te-in-http10", "Transfer-Encoding in an HTTP/1.0 request".into());
            }
        }
        if te == Some(false) {
            if o.te_unknown == TeUnknown::Reject {
                reject!(after_line, "te-final-not-chunked", format!("Transfer-Encoding {:?} does not end in chunked", headers.iter().filter(|(n, _)| n.eq_ignore_ascii_case("transfer-encoding")).map(|(_, v)| String::from_utf8_lossy(v).to_string()).collect::<Vec<_>>()));
            }
            te = None;
        }
        let framing = match (te, cl) {
            (Some(true), c) if c.is_some() || has_cl_field => match o.both {
                Both::Reject => reject!(after_line, "both-cl-and-te", "both Content-Length and Transfer-Encoding".into()),
                Both::TeWins => Framing::Chunked,
                Both::ClWins => match c {
                    Some(n) => Framing::ContentLength(n),
                    None => Framing::Chunked,
                },
            },
            (Some(true), _) => Framing::Chunked,
            (_, Some(0)) => Framing::ContentLength(0),
            (_, Some(n)) => Framing::ContentLength(n),
            (_, None) => Framing::None,
        };
        let mut req = Req { start, head_end, end: b.len(), complete: false, method, target, version, headers, host, framing: framing.clone(), body: vec![], trailers: vec![] };
        // ---- body
        match framing {
            Framing::None => {
                req.end = head_end;
                req.complete = true;
            }
            Framing::ContentLength(n) => {
                let avail = (b.len() - head_end) as u64;
                if avail < n {
                    req.body = b[head_end..].to_vec();
                    reqs.push(req);
                    return Reading { reqs, tail: Tail::Incomplete { at: start, what: "body" } };
                }
                let n = n as usize;
                req.body = b[head_end..head_end + n].to_vec();
                req.end = head_end + n;
                req.complete = true;
            }
            Framing::Chunked => {
                let mut p = head_end;
                loop {
                    let (s, e, next) = match read_line(b, p, o) {
                        Line::Incomplete => {
                            reqs.push(req);
                            return Reading { reqs, tail: Tail::Incomplete { at: start, what: "chunk" } };
                        }
                        Line::Reject(at, c, d) => {
                            reqs.push(req);
                            reject!(at, c, d);
                        }
                        Line::Full(s, e, n) => (s, e, n),
                    };
                    let line = &b[s..e];
                    let (size_part, ext) = match line.iter().position(|&c| c == b';') {
                        Some(i) => (&line[..i], Some(&line[i..])),
                        None => (line, None),
                    };
                    let size_part = if o.chunk_lenient { trim_ctl(size_part) } else { size_part };
                    if size_part.is_empty() || !size_part.iter().all(|c| c.is_ascii_hexdigit()) {
                        reqs.push(req);
                        reject!(s, "chunk-size", format!("chunk-size line {:?}", String::from_utf8_lossy(line)));
                    }
                    let digits: &[u8] = {
                        let mut d = size_part;
                        while d.len() > 1 && d[0] == b'0' {
                            d = &d[1..];
                        }
                        d
                    };
                    if digits.len() > 16 {
                        reqs.push(req);
                        reject!(s, "chunk-size", format!("chunk size of {} significant hex digits", digits.len()));
                    }
                    let size = u64::from_str_radix(std::str::from_utf8(digits).unwrap(), 16).unwrap();
                    if let Some(ext) = ext {
                        if !o.chunk_lenient && !chunk_ext_ok(ext) {
                            reqs.push(req);
                            reject!(s, "chunk-ext", format!("chunk extension {:?}", String::from_utf8_lossy(ext)));
                        }
                    }
                    if size == 0 {
                        // trailer section
                        match read_fields(b, next, o) {
                            Ok(Some((tr, after))) => {
                                req.trailers = tr;
                                req.end = after;
                                req.complete = true;
                                break;
                            }
                            Ok(None) => {
                                reqs.push(req);
                                return Reading { reqs, tail: Tail::Incomplete { at: start, what: "trailers" } };
                            }
                            Err((at, c, d)) => {
                                reqs.push(req);
                                reject!(at, c, d);
                            }
                        }
                    }
                    let avail = (b.len() - next) as u64;
                    if avail < size {
                        req.body.extend_from_slice(&b[next..]);
                        reqs.push(req);
                        return Reading { reqs, tail: Tail::Incomplete { at: start, what: "chunk" } };
                    }
                    let size = size as usize;
                    req.body.extend_from_slice(&b[next..next + size]);
                    let after = next + size;
                    // CRLF after the data
                    if b.len() < after + 1 {
                        reqs.push(req);
                        return Reading { reqs, tail: Tail::Incomplete { at: start, what: "chunk" } };
                    }
                    if b[after] == b'\n' && o.bare_lf {
                        p = after + 1;
                        continue;
                    }
                    if b.len() < after + 2 {
                        if b[after] == b'\r' {
                            reqs.push(req);
                            return Reading { reqs, tail: Tail::Incomplete { at: start, what: "chunk" } };
                        }
                        reqs.push(req);
                        reject!(after, "chunk-data-end", "chunk data not followed by CRLF".into());
                    }
                    if &b[after..after + 2] != b"\r\n" {
                        reqs.push(req);
                        reject!(after, "chunk-data-end", "chunk data not followed by CRLF".into());
                    }
                    p = after + 2;
                }
            }
        }
        pos = req.end;
        reqs.push(req);
    }
}

/// chunk-ext = *( BWS ";" BWS name [ BWS "=" BWS ( token / quoted-string ) ] ); `ext` starts at the first ';'
fn chunk_ext_ok(ext: &[u8]) -> bool {
    let mut i = 0;
    let n = ext.len();
    let skip_ws = |i: &mut usize| {
        while *i < n && (ext[*i] == b' ' || ext[*i] == b'\t') {
            *i += 1;
        }
    };
    while i < n {
        skip_ws(&mut i);
        if i >= n || ext[i] != b';' {
            return false;
        }
        i += 1;
        skip_ws(&mut i);
        let s = i;
        while i < n && is_tchar(ext[i]) {
            i += 1;
        }
        if i == s {
            return false;
        }
        let save = i;
        skip_ws(&mut i);
        if i < n && ext[i] == b'=' {
            i += 1;
            skip_ws(&mut i);
            if i < n && ext[i] == b'"' {
                i += 1;
                loop {
                    if i >= n {
                        return false;
                    }
                    match ext[i] {
                        b'"' => {
                            i += 1;
                            break;
                        }
                        b'\\' => {
                            if i + 1 >= n {
                                return false;
                            }
                            i += 2;
                        }
                        c if c == b'\t' || c == b' ' || (0x21..=0x7e).contains(&c) || c >= 0x80 => i += 1,
                        _ => return false,
                    }
                }
            } else {
                let s = i;
                while i < n && is_tchar(ext[i]) {
                    i += 1;
                }
                if i == s {
                    return false;
                }
            }
        } else {
            i = save;
        }
    }
    true
}

// ------------------------------------------------------------------ responses (client side)

#[derive(Clone, Debug)]
pub struct Resp {
    pub status: u16,
    pub headers: Vec<(String, Vec<u8>)>,
    pub body_len: usize,
    pub complete: bool,
}

impl Resp {
    pub fn header_str(&self, name: &str) -> Option<String> {
        self.headers.iter().find(|(n, _)| n.eq_ignore_ascii_case(name)).map(|(_, v)| String::from_utf8_lossy(v).to_string())
    }
}

/// Strict reading of what a client received. `no_body(resp)` tells whether the response answers a HEAD request.
pub fn read_responses(b: &[u8], closed: bool, no_body: impl Fn(&Resp) -> bool) -> (Vec<Resp>, Tail) {
    let o = Opts::strict();
    let mut out = vec![];
    let mut pos = 0;
    loop {
        if pos >= b.len() {
            return (out, Tail::Clean);
        }
        let start = pos;
        let (s, e, next) = match read_line(b, pos, &o) {
            Line::Incomplete => return (out, Tail::Incomplete { at: start, what: "head" }),
            Line::Reject(at, c, d) => return (out, Tail::Reject { at, class: c, detail: d }),
            Line::Full(s, e, n) => (s, e, n),
        };
        let line = &b[s..e];
        let ok = line.len() >= 12 && line.starts_with(b"HTTP/1.") && line[7].is_ascii_digit() && line[8] == b' ' && line[9..12].iter().all(|c| c.is_ascii_digit()) && (line.len() == 12 || line[12] == b' ');
        if !ok {
            return (out, Tail::Reject { at: s, class: "status-line", detail: format!("status line {:?}", String::from_utf8_lossy(&line[..line.len().min(80)])) });
        }
        let status: u16 = std::str::from_utf8(&line[9..12]).unwrap().parse().unwrap();
        let (headers, head_end) = match read_fields(b, next, &o) {
            Ok(Some(x)) => x,
            Ok(None) => return (out, Tail::Incomplete { at: start, what: "head" }),
            Err((at, c, d)) => return (out, Tail::Reject { at, class: c, detail: d }),
        };
        let mut r = Resp { status, headers, body_len: 0, complete: false };
        let bodyless = (100..200).contains(&status) || status == 204 || status == 304 || no_body(&r);
        if bodyless {
            r.complete = true;
            out.push(r);
            pos = head_end;
            continue;
        }
        let te = transfer_encoding(&r.headers, &o);
        let cl = content_length(&r.headers, &Opts { dup_cl: DupCl::IdenticalOk, ..Opts::strict() });
        match (te, cl) {
            (Ok(Some(true)), _) => {
                // reuse the request body reader on a synthetic head
                let mut fake = b"POST / HTTP/1.1\r\nHost: x\r\nTransfer-Encoding: chunked\r\n\r\n".to_vec();
                let off = fake.len();
                fake.extend_from_slice(&b[head_end..]);
                let rd = read_requests(&fake, &o);
                match rd.reqs.first() {
                    Some(q) if q.complete => {
                        r.body_len = q.body.len();
                        r.complete = true;
                        out.push(r);
                        pos = head_end + (q.end - off);
                    }
                    Some(q) => {
                        r.body_len = q.body.len();
                        let tail = match rd.tail {
                            Tail::Reject { at, class, detail } => Tail::Reject { at: at + head_end - off, class, detail },
                            _ => Tail::Incomplete { at: start, what: "chunk" },
                        };
                        out.push(r);
                        return (out, tail);
                    }
                    None => return (out, Tail::Incomplete { at: start, what: "chunk" }),
                }
            }
            (Err((c, d)), _) | (_, Err((c, d))) => return (out, Tail::Reject { at: next, class: c, detail: d }),
            (_, Ok(Some(n))) => {
                let n = n as usize;
                if b.len() - head_end < n {
                    r.body_len = b.len() - head_end;
                    out.push(r);
                    return (out, Tail::Incomplete { at: start, what: "body" });
                }
                r.body_len = n;
                r.complete = true;
                out.push(r);
                pos = head_end + n;
            }
            (_, Ok(None)) => {
                // close-delimited
                r.body_len = b.len() - head_end;
                r.complete = closed;
                out.push(r);
                return (out, if closed { Tail::Clean } else { Tail::Incomplete { at: start, what: "body" } });
            }
        }
    }
}

#[cfg(test)]
mod tests {
    use super::*;
    #[test]
    fn strict_reads_pipelined() {
        let b = b"GET /a HTTP/1.1\r\nHost: x\r\n\r\nPOST /b HTTP/1.1\r\nHost: x\r\nContent-Length: 3\r\n\r\nabcPOST /c HTTP/1.1\r\nHost: x\r\nTransfer-Encoding: chunked\r\n\r\n3\r\nabc\r\n0\r\n\r\n";
        let r = read_requests(b, &Opts::strict());
        assert_eq!(r.tail, Tail::Clean, "{}", r.describe());
        assert_eq!(r.reqs.len(), 3);
        for v in variants() {
            assert_eq!(read_requests(b, &v).boundaries(), r.boundaries(), "{}", v.name);
        }
    }
}
