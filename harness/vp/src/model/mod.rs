//! reference models
pub mod state;
