//! reference models
pub mod http;
pub mod state;
