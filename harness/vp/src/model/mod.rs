//! reference models
