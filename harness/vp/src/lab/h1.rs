//! HTTP/1.1 peers for the wire lab: an independent strict message reader (no kawa, no httparse),
//! message builders, a keyed content generator and a small threaded acceptor for mock backends.

use std::{
    io::{Read, Write},
    net::{SocketAddr, TcpListener, TcpStream},
    sync::{
        Arc, Mutex,
        atomic::{AtomicBool, AtomicUsize, Ordering},
    },
    thread::JoinHandle,
    time::{Duration, Instant},
};

use serde::{Deserialize, Serialize};

// ------------------------------------------------------------------ content

/// Deterministic content stream keyed by (seed): any shift, duplication, truncation or cross-stream
/// mix-up shows up as a mismatch at a definite offset.
pub fn content(seed: u64, len: usize) -> Vec<u8> {
    let mut v = Vec::with_capacity(len);
    let mut s = seed ^ 0x9E37_79B9_7F4A_7C15;
    while v.len() < len {
        let x = crate::engine::splitmix64(&mut s);
        for b in x.to_le_bytes() {
            if v.len() < len {
                // keep it printable-ish but full of CR/LF-free bytes so framing tokens never appear by accident
                v.push(b'a' + (b % 26));
            }
        }
    }
    v
}

/// first offset where two byte strings differ (None = equal)
pub fn first_mismatch(a: &[u8], b: &[u8]) -> Option<usize> {
    let n = a.len().min(b.len());
    for i in 0..n {
        if a[i] != b[i] {
            return Some(i);
        }
    }
    if a.len() != b.len() { Some(n) } else { None }
}

// ------------------------------------------------------------------ messages

#[derive(Clone, Debug, PartialEq, Serialize, Deserialize)]
pub enum Framing {
    None,
    ContentLength(u64),
    Chunked,
    UntilClose,
}

#[derive(Clone, Debug, PartialEq)]
pub enum End {
    /// the message ended the way its framing says (length met / last chunk + trailers / EOF for close-delimited)
    Clean,
    /// the connection ended (or the deadline passed) before the framing was satisfied
    Truncated(String),
}

#[derive(Clone, Debug)]
pub struct H1Message {
    pub start_line: String,
    pub headers: Vec<(String, String)>,
    pub framing: Framing,
    pub body: Vec<u8>,
    pub trailers: Vec<(String, String)>,
    pub end: End,
    /// sizes of the chunks as received (chunked framing)
    pub chunk_sizes: Vec<usize>,
    /// bytes of the head (start line + headers + blank line)
    pub head_len: usize,
    /// strict-reader complaints that do not prevent reading (e.g. both CL and TE present)
    pub complaints: Vec<String>,
}

impl H1Message {
    pub fn header(&self, name: &str) -> Option<&str> {
        self.headers.iter().find(|(n, _)| n.eq_ignore_ascii_case(name)).map(|(_, v)| v.as_str())
    }
    pub fn headers_named(&self, name: &str) -> Vec<&str> {
        self.headers.iter().filter(|(n, _)| n.eq_ignore_ascii_case(name)).map(|(_, v)| v.as_str()).collect()
    }
    pub fn status(&self) -> Option<u16> {
        let mut it = self.start_line.split(' ');
        let v = it.next()?;
        if !v.starts_with("HTTP/") {
            return None;
        }
        it.next()?.parse().ok()
    }
    pub fn method(&self) -> Option<&str> {
        if self.start_line.starts_with("HTTP/") {
            return None;
        }
        self.start_line.split(' ').next()
    }
    pub fn target(&self) -> Option<&str> {
        if self.start_line.starts_with("HTTP/") {
            return None;
        }
        self.start_line.split(' ').nth(1)
    }
}

#[derive(Clone, Copy, Debug, PartialEq)]
pub enum Kind {
    Request,
    /// `head_request`: the response answers a HEAD request (no body whatever the headers say)
    Response { head_request: bool },
}

#[derive(Debug)]
pub enum ReadOutcome {
    Message(H1Message),
    /// the peer closed before sending a single byte of a new message
    Eof,
    /// nothing (more) arrived before the deadline and no message was in progress
    IdleTimeout,
    /// bytes that are not an HTTP/1.1 message by the strict reading (reason, bytes seen)
    Invalid(String, Vec<u8>),
    /// connection reset
    Reset(Vec<u8>),
}

fn is_tchar(b: u8) -> bool {
    b.is_ascii_alphanumeric() || b"!#$%&'*+-.^_`|~".contains(&b)
}

/// Parse a head (start line + header fields) strictly. Ok(None) = incomplete.
fn parse_head(buf: &[u8]) -> Result<Option<(String, Vec<(String, String)>, usize)>, String> {
    let Some(end) = buf.windows(4).position(|w| w == b"\r\n\r\n") else {
        // a bare LF LF is not an end of head for the strict reader
        if buf.len() > 256 * 1024 {
            return Err("head larger than 256 KiB".into());
        }
        return Ok(None);
    };
    let head = &buf[..end];
    // lines are separated by CRLF; a lone CR or LF inside a line is an error
    let mut lines: Vec<&[u8]> = vec![];
    let mut start = 0;
    let mut i = 0;
    while i + 1 < head.len() {
        if head[i] == b'\r' && head[i + 1] == b'\n' {
            lines.push(&head[start..i]);
            start = i + 2;
            i += 2;
        } else {
            i += 1;
        }
    }
    lines.push(&head[start..]);
    let mut lines = lines.into_iter();
    let first = lines.next().unwrap_or(b"");
    if first.iter().any(|&b| b == b'\r' || b == b'\n' || b == 0) {
        return Err("CR, LF or NUL inside the start line".into());
    }
    let start_line = String::from_utf8_lossy(first).to_string();
    if start_line.is_empty() {
        return Err("empty start line".into());
    }
    let mut headers = vec![];
    for line in lines {
        if line.is_empty() {
            return Err("empty line inside the head".into());
        }
        if line.iter().any(|&b| b == b'\n') {
            return Err("header line terminated by a bare LF".into());
        }
        if line.iter().any(|&b| b == b'\r') {
            return Err("bare CR inside a header line".into());
        }
        if line[0] == b' ' || line[0] == b'\t' {
            return Err("obs-fold (line starting with whitespace)".into());
        }
        let Some(colon) = line.iter().position(|&b| b == b':') else {
            return Err(format!("header line without colon: {:?}", String::from_utf8_lossy(line)));
        };
        let name = &line[..colon];
        if name.is_empty() || !name.iter().all(|&b| is_tchar(b)) {
            return Err(format!("invalid field name {:?}", String::from_utf8_lossy(name)));
        }
        let value = &line[colon + 1..];
        if value.iter().any(|&b| b == 0) {
            return Err("NUL inside a field value".into());
        }
        let value = String::from_utf8_lossy(value).trim_matches(|c| c == ' ' || c == '\t').to_string();
        headers.push((String::from_utf8_lossy(name).to_string(), value));
    }
    Ok(Some((start_line, headers, end + 4)))
}

fn strict_content_length(values: &[&str]) -> Result<Option<u64>, String> {
    if values.is_empty() {
        return Ok(None);
    }
    let mut found: Option<u64> = None;
    for v in values {
        if v.is_empty() || !v.bytes().all(|b| b.is_ascii_digit()) {
            return Err(format!("invalid Content-Length {v:?}"));
        }
        let n: u64 = v.parse().map_err(|_| format!("Content-Length overflow {v:?}"))?;
        if let Some(f) = found {
            if f != n {
                return Err("conflicting Content-Length values".into());
            }
        }
        found = Some(n);
    }
    Ok(found)
}

/// A connection being read message by message.
pub struct H1Conn<R: Read> {
    pub r: R,
    /// unread bytes are `buf[pos..]` (front-draining a Vec per chunk would be quadratic)
    pub buf: Vec<u8>,
    pos: usize,
    /// everything received on this connection so far
    pub raw: Vec<u8>,
    pub eof: bool,
}

enum Fill {
    Got,
    Eof,
    Timeout,
    Reset,
}

impl<R: Read> H1Conn<R> {
    pub fn new(r: R) -> Self {
        H1Conn { r, buf: vec![], pos: 0, raw: vec![], eof: false }
    }

    fn rest(&self) -> &[u8] {
        &self.buf[self.pos..]
    }

    fn take(&mut self, n: usize) -> Vec<u8> {
        let n = n.min(self.buf.len() - self.pos);
        let v = self.buf[self.pos..self.pos + n].to_vec();
        self.pos += n;
        if self.pos > 1 << 20 && self.pos * 2 > self.buf.len() {
            self.buf.drain(..self.pos);
            self.pos = 0;
        }
        v
    }

    fn take_all(&mut self) -> Vec<u8> {
        let v = self.buf[self.pos..].to_vec();
        self.buf.clear();
        self.pos = 0;
        v
    }

    /// bytes received and not yet consumed by a message
    pub fn pending(&self) -> &[u8] {
        self.rest()
    }

    fn fill(&mut self, deadline: Instant) -> Fill {
        if self.eof {
            return Fill::Eof;
        }
        let mut tmp = vec![0u8; 65536];
        loop {
            match self.r.read(&mut tmp) {
                Ok(0) => {
                    self.eof = true;
                    return Fill::Eof;
                }
                Ok(n) => {
                    self.buf.extend_from_slice(&tmp[..n]);
                    self.raw.extend_from_slice(&tmp[..n]);
                    return Fill::Got;
                }
                Err(e) => match e.kind() {
                    std::io::ErrorKind::WouldBlock | std::io::ErrorKind::TimedOut | std::io::ErrorKind::Interrupted => {
                        if Instant::now() >= deadline {
                            return Fill::Timeout;
                        }
                    }
                    _ => {
                        self.eof = true;
                        return Fill::Reset;
                    }
                },
            }
        }
    }

    /// Read the next message. The underlying stream must have a short read timeout set
    /// (`set_read_timeout`), the deadline bounds the whole call.
    pub fn next_message(&mut self, kind: Kind, deadline: Instant) -> ReadOutcome {
        // ---- head
        let (start_line, headers, head_len) = loop {
            match parse_head(self.rest()) {
                Err(why) => return ReadOutcome::Invalid(why, self.rest().to_vec()),
                Ok(Some(h)) => break h,
                Ok(None) => match self.fill(deadline) {
                    Fill::Got => {}
                    Fill::Eof => {
                        return if self.rest().is_empty() {
                            ReadOutcome::Eof
                        } else {
                            ReadOutcome::Invalid("connection closed inside a message head".into(), self.rest().to_vec())
                        };
                    }
                    Fill::Timeout => {
                        return if self.rest().is_empty() {
                            ReadOutcome::IdleTimeout
                        } else {
                            ReadOutcome::Invalid("deadline passed inside a message head".into(), self.rest().to_vec())
                        };
                    }
                    Fill::Reset => return ReadOutcome::Reset(self.rest().to_vec()),
                },
            }
        };
        self.pos += head_len;
        let mut msg = H1Message {
            start_line,
            headers,
            framing: Framing::None,
            body: vec![],
            trailers: vec![],
            end: End::Clean,
            chunk_sizes: vec![],
            head_len,
            complaints: vec![],
        };
        // ---- framing
        let te: Vec<&str> = msg.headers_named("transfer-encoding");
        let te_joined = te.join(",");
        let te_tokens: Vec<String> = te_joined.split(',').map(|t| t.trim().to_ascii_lowercase()).filter(|t| !t.is_empty()).collect();
        let chunked = te_tokens.last().map(|t| t == "chunked").unwrap_or(false);
        if !te_tokens.is_empty() && !chunked {
            msg.complaints.push(format!("Transfer-Encoding without final chunked: {te_joined:?}"));
        }
        if te_tokens.iter().filter(|t| *t == "chunked").count() > 1 {
            msg.complaints.push("chunked applied twice".into());
        }
        let cl = match strict_content_length(&msg.headers_named("content-length")) {
            Ok(v) => v,
            Err(why) => {
                msg.complaints.push(why);
                None
            }
        };
        if !te_tokens.is_empty() && cl.is_some() {
            msg.complaints.push("both Transfer-Encoding and Content-Length".into());
        }
        let no_body_response = match kind {
            Kind::Response { head_request } => {
                let st = msg.status().unwrap_or(0);
                head_request || (100..200).contains(&st) || st == 204 || st == 304
            }
            Kind::Request => false,
        };
        msg.framing = if no_body_response {
            Framing::None
        } else if chunked {
            Framing::Chunked
        } else if let Some(n) = cl {
            Framing::ContentLength(n)
        } else {
            match kind {
                Kind::Request => Framing::None,
                Kind::Response { .. } => Framing::UntilClose,
            }
        };
        // ---- body
        match msg.framing.clone() {
            Framing::None => {}
            Framing::ContentLength(n) => {
                let n = n as usize;
                while self.rest().len() < n {
                    match self.fill(deadline) {
                        Fill::Got => {}
                        Fill::Eof | Fill::Reset => {
                            msg.body = self.take_all();
                            msg.end = End::Truncated(format!("connection ended after {} of {n} body bytes", msg.body.len()));
                            return ReadOutcome::Message(msg);
                        }
                        Fill::Timeout => {
                            msg.body = self.take_all();
                            msg.end = End::Truncated(format!("deadline passed after {} of {n} body bytes", msg.body.len()));
                            return ReadOutcome::Message(msg);
                        }
                    }
                }
                msg.body = self.take(n);
            }
            Framing::UntilClose => loop {
                match self.fill(deadline) {
                    Fill::Got => {}
                    Fill::Eof => {
                        msg.body = self.take_all();
                        break;
                    }
                    Fill::Reset => {
                        msg.body = self.take_all();
                        msg.end = End::Truncated("connection reset".into());
                        break;
                    }
                    Fill::Timeout => {
                        msg.body = self.take_all();
                        msg.end = End::Truncated("deadline passed before the connection was closed".into());
                        break;
                    }
                }
            },
            Framing::Chunked => {
                // chunk = size-hex [;ext] CRLF data CRLF ; last = 0 [;ext] CRLF trailers CRLF
                loop {
                    // size line
                    let line_end = loop {
                        if let Some(p) = self.rest().windows(2).position(|w| w == b"\r\n") {
                            break p;
                        }
                        match self.fill(deadline) {
                            Fill::Got => {}
                            other => {
                                msg.end = End::Truncated(format!(
                                    "{} inside a chunk-size line after {} body bytes",
                                    match other {
                                        Fill::Timeout => "deadline passed",
                                        _ => "connection ended",
                                    },
                                    msg.body.len()
                                ));
                                return ReadOutcome::Message(msg);
                            }
                        }
                    };
                    let line: Vec<u8> = self.take(line_end + 2);
                    let line = &line[..line.len() - 2];
                    let size_part = line.split(|&b| b == b';').next().unwrap_or(b"");
                    let size_txt = String::from_utf8_lossy(size_part).to_string();
                    if size_txt.is_empty() || !size_txt.bytes().all(|b| b.is_ascii_hexdigit()) || size_txt.len() > 15 {
                        return ReadOutcome::Invalid(format!("invalid chunk size {size_txt:?}"), line.to_vec());
                    }
                    let size = usize::from_str_radix(&size_txt, 16).unwrap();
                    if size == 0 {
                        // trailers until an empty line
                        loop {
                            let Some(p) = self.rest().windows(2).position(|w| w == b"\r\n") else {
                                match self.fill(deadline) {
                                    Fill::Got => continue,
                                    _ => {
                                        msg.end = End::Truncated("connection ended inside the trailer section".into());
                                        return ReadOutcome::Message(msg);
                                    }
                                }
                            };
                            let l: Vec<u8> = self.take(p + 2);
                            let l = &l[..l.len() - 2];
                            if l.is_empty() {
                                break;
                            }
                            match l.iter().position(|&b| b == b':') {
                                Some(c) => msg.trailers.push((
                                    String::from_utf8_lossy(&l[..c]).to_string(),
                                    String::from_utf8_lossy(&l[c + 1..]).trim().to_string(),
                                )),
                                None => return ReadOutcome::Invalid("trailer line without colon".into(), l.to_vec()),
                            }
                        }
                        break;
                    }
                    while self.rest().len() < size + 2 {
                        match self.fill(deadline) {
                            Fill::Got => {}
                            _ => {
                                let have = self.rest().len().min(size);
                                let part = self.take(have);
                                msg.body.extend(part);
                                let _ = self.take_all();
                                msg.end = End::Truncated(format!("connection ended inside a chunk after {} body bytes", msg.body.len()));
                                return ReadOutcome::Message(msg);
                            }
                        }
                    }
                    let part = self.take(size);
                    msg.body.extend(part);
                    msg.chunk_sizes.push(size);
                    let crlf: Vec<u8> = self.take(2);
                    if crlf != b"\r\n" {
                        return ReadOutcome::Invalid("chunk data not followed by CRLF".into(), crlf);
                    }
                }
            }
        }
        ReadOutcome::Message(msg)
    }
}

// ------------------------------------------------------------------ builders

#[derive(Clone, Debug, Serialize, Deserialize, PartialEq)]
pub enum BodyFraming {
    ContentLength,
    /// chunk sizes (cycled); a zero is skipped
    Chunked(Vec<usize>),
    /// responses only: no length, end by closing
    CloseDelimited,
}

/// Encode a body with the given framing; returns (extra header lines, body wire bytes).
pub fn encode_body(body: &[u8], framing: &BodyFraming, trailers: &[(String, String)]) -> (Vec<(String, String)>, Vec<u8>) {
    match framing {
        BodyFraming::ContentLength => (vec![("Content-Length".into(), body.len().to_string())], body.to_vec()),
        BodyFraming::CloseDelimited => (vec![("Connection".into(), "close".into())], body.to_vec()),
        BodyFraming::Chunked(sizes) => {
            let mut out = vec![];
            let mut pos = 0;
            let mut i = 0;
            let sizes: Vec<usize> = sizes.iter().copied().filter(|s| *s > 0).collect();
            while pos < body.len() {
                let n = if sizes.is_empty() { body.len() - pos } else { sizes[i % sizes.len()] }.min(body.len() - pos);
                i += 1;
                out.extend_from_slice(format!("{n:x}\r\n").as_bytes());
                out.extend_from_slice(&body[pos..pos + n]);
                out.extend_from_slice(b"\r\n");
                pos += n;
            }
            out.extend_from_slice(b"0\r\n");
            for (n, v) in trailers {
                out.extend_from_slice(format!("{n}: {v}\r\n").as_bytes());
            }
            out.extend_from_slice(b"\r\n");
            (vec![("Transfer-Encoding".into(), "chunked".into())], out)
        }
    }
}

pub fn build_head(start_line: &str, headers: &[(String, String)]) -> Vec<u8> {
    let mut v = Vec::new();
    v.extend_from_slice(start_line.as_bytes());
    v.extend_from_slice(b"\r\n");
    for (n, val) in headers {
        v.extend_from_slice(n.as_bytes());
        v.extend_from_slice(b": ");
        v.extend_from_slice(val.as_bytes());
        v.extend_from_slice(b"\r\n");
    }
    v.extend_from_slice(b"\r\n");
    v
}

// ------------------------------------------------------------------ sockets

pub fn connect(addr: SocketAddr, timeout: Duration) -> std::io::Result<TcpStream> {
    let s = TcpStream::connect_timeout(&addr, timeout)?;
    s.set_nodelay(true)?;
    s.set_read_timeout(Some(Duration::from_millis(100)))?;
    s.set_write_timeout(Some(Duration::from_secs(20)))?;
    Ok(s)
}

/// A threaded acceptor for mock backends: every accepted connection is handed, with its index,
/// to `per_conn` in its own thread. `stop()` ends the accept loop and joins connection threads.
pub struct Acceptor {
    pub addr: SocketAddr,
    stop: Arc<AtomicBool>,
    pub accepted: Arc<AtomicUsize>,
    thread: Option<JoinHandle<()>>,
    conns: Arc<Mutex<Vec<JoinHandle<()>>>>,
}

impl Acceptor {
    pub fn spawn<F>(listener: TcpListener, per_conn: F) -> Acceptor
    where
        F: Fn(usize, TcpStream) + Send + Sync + 'static,
    {
        let addr = listener.local_addr().expect("local_addr");
        listener.set_nonblocking(true).expect("nonblocking");
        let stop = Arc::new(AtomicBool::new(false));
        let accepted = Arc::new(AtomicUsize::new(0));
        let conns: Arc<Mutex<Vec<JoinHandle<()>>>> = Arc::new(Mutex::new(vec![]));
        let per_conn = Arc::new(per_conn);
        let (stop2, accepted2, conns2) = (stop.clone(), accepted.clone(), conns.clone());
        let thread = std::thread::spawn(move || {
            while !stop2.load(Ordering::SeqCst) {
                match listener.accept() {
                    Ok((s, _)) => {
                        let _ = s.set_nonblocking(false);
                        let _ = s.set_nodelay(true);
                        let _ = s.set_read_timeout(Some(Duration::from_millis(100)));
                        let _ = s.set_write_timeout(Some(Duration::from_secs(20)));
                        let idx = accepted2.fetch_add(1, Ordering::SeqCst);
                        let f = per_conn.clone();
                        let h = std::thread::spawn(move || f(idx, s));
                        // a finished thread keeps its stack mapped until it is joined or detached: drop the handles of
                        // those that are done (a lab is reused for thousands of scenarios; 65530 mappings are the limit)
                        let mut g = conns2.lock().unwrap();
                        g.retain(|h| !h.is_finished());
                        g.push(h);
                    }
                    Err(_) => std::thread::sleep(Duration::from_millis(2)),
                }
            }
        });
        Acceptor { addr, stop, accepted, thread: Some(thread), conns }
    }

    pub fn stop(&mut self) {
        self.stop.store(true, Ordering::SeqCst);
        if let Some(t) = self.thread.take() {
            let _ = t.join();
        }
        let hs: Vec<JoinHandle<()>> = std::mem::take(&mut *self.conns.lock().unwrap());
        for h in hs {
            let _ = h.join();
        }
    }
}

impl Drop for Acceptor {
    fn drop(&mut self) {
        self.stop();
    }
}

/// half-close helper
pub fn shutdown_write(s: &TcpStream) {
    let _ = s.shutdown(std::net::Shutdown::Write);
}

/// close with RST (SO_LINGER 0)
pub fn reset(s: TcpStream) {
    use std::os::fd::AsRawFd;
    let l = libc::linger { l_onoff: 1, l_linger: 0 };
    unsafe {
        libc::setsockopt(s.as_raw_fd(), libc::SOL_SOCKET, libc::SO_LINGER, &l as *const _ as *const libc::c_void, std::mem::size_of::<libc::linger>() as u32);
    }
    drop(s);
}

pub fn write_all(s: &mut TcpStream, data: &[u8]) -> std::io::Result<()> {
    s.write_all(data)?;
    s.flush()
}

/// human-readable one-liner for a read outcome (bytes shown as lossy text)
pub fn describe(o: &ReadOutcome) -> String {
    match o {
        ReadOutcome::Message(m) => format!("message {:?} ({} body bytes, end {:?})", m.start_line, m.body.len(), m.end),
        ReadOutcome::Eof => "connection closed without a byte".into(),
        ReadOutcome::IdleTimeout => "nothing arrived before the deadline".into(),
        ReadOutcome::Invalid(why, bytes) => format!("not HTTP/1.1 ({why}): {:?}", crate::engine::truncate(&String::from_utf8_lossy(bytes), 700)),
        ReadOutcome::Reset(bytes) => format!("connection reset after {} bytes", bytes.len()),
    }
}
