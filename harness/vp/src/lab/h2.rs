//! HTTP/2 peer for the wire lab: own frame codec (RFC 9113 §4, §6) + HPACK (loona-hpack),
//! usable as a TLS client (rustls, ALPN h2) and as an h2c (prior knowledge) server, with a
//! flow-control / limits **ledger** that validates every frame sozu sends (DESIGN §3 `H2Peer`).

use std::{
    collections::BTreeMap,
    io::{Read, Write},
    net::{SocketAddr, TcpStream},
    sync::Arc,
    time::{Duration, Instant},
};

use rustls::{
    ClientConfig, ClientConnection, DigitallySignedStruct, SignatureScheme, StreamOwned,
    client::danger::{HandshakeSignatureValid, ServerCertVerified, ServerCertVerifier},
    pki_types::{CertificateDer, ServerName, UnixTime},
};

pub const PREFACE: &[u8] = b"PRI * HTTP/2.0\r\n\r\nSM\r\n\r\n";

pub const DATA: u8 = 0;
pub const HEADERS: u8 = 1;
pub const PRIORITY: u8 = 2;
pub const RST_STREAM: u8 = 3;
pub const SETTINGS: u8 = 4;
pub const PUSH_PROMISE: u8 = 5;
pub const PING: u8 = 6;
pub const GOAWAY: u8 = 7;
pub const WINDOW_UPDATE: u8 = 8;
pub const CONTINUATION: u8 = 9;

pub const F_END_STREAM: u8 = 0x1;
pub const F_ACK: u8 = 0x1;
pub const F_END_HEADERS: u8 = 0x4;
pub const F_PADDED: u8 = 0x8;
pub const F_PRIORITY: u8 = 0x20;

pub const S_HEADER_TABLE_SIZE: u16 = 1;
pub const S_ENABLE_PUSH: u16 = 2;
pub const S_MAX_CONCURRENT_STREAMS: u16 = 3;
pub const S_INITIAL_WINDOW_SIZE: u16 = 4;
pub const S_MAX_FRAME_SIZE: u16 = 5;
pub const S_MAX_HEADER_LIST_SIZE: u16 = 6;

pub const NO_ERROR: u32 = 0;
pub const PROTOCOL_ERROR: u32 = 1;
pub const INTERNAL_ERROR: u32 = 2;
pub const FLOW_CONTROL_ERROR: u32 = 3;
pub const STREAM_CLOSED: u32 = 5;
pub const FRAME_SIZE_ERROR: u32 = 6;
pub const REFUSED_STREAM: u32 = 7;
pub const CANCEL: u32 = 8;
pub const COMPRESSION_ERROR: u32 = 9;
pub const ENHANCE_YOUR_CALM: u32 = 11;

#[derive(Clone, Debug, PartialEq)]
pub struct Frame {
    pub typ: u8,
    pub flags: u8,
    pub stream: u32,
    pub payload: Vec<u8>,
}

impl Frame {
    pub fn new(typ: u8, flags: u8, stream: u32, payload: Vec<u8>) -> Frame {
        Frame { typ, flags, stream, payload }
    }
    pub fn encode(&self) -> Vec<u8> {
        let mut v = Vec::with_capacity(9 + self.payload.len());
        let l = self.payload.len() as u32;
        v.extend_from_slice(&[(l >> 16) as u8, (l >> 8) as u8, l as u8, self.typ, self.flags]);
        v.extend_from_slice(&(self.stream & 0x7fff_ffff).to_be_bytes());
        v.extend_from_slice(&self.payload);
        v
    }
    pub fn settings(pairs: &[(u16, u32)]) -> Frame {
        let mut p = vec![];
        for (k, v) in pairs {
            p.extend_from_slice(&k.to_be_bytes());
            p.extend_from_slice(&v.to_be_bytes());
        }
        Frame::new(SETTINGS, 0, 0, p)
    }
    pub fn settings_ack() -> Frame {
        Frame::new(SETTINGS, F_ACK, 0, vec![])
    }
    pub fn window_update(stream: u32, inc: u32) -> Frame {
        Frame::new(WINDOW_UPDATE, 0, stream, (inc & 0x7fff_ffff).to_be_bytes().to_vec())
    }
    pub fn rst(stream: u32, code: u32) -> Frame {
        Frame::new(RST_STREAM, 0, stream, code.to_be_bytes().to_vec())
    }
    pub fn ping(ack: bool, data: [u8; 8]) -> Frame {
        Frame::new(PING, if ack { F_ACK } else { 0 }, 0, data.to_vec())
    }
    pub fn goaway(last: u32, code: u32) -> Frame {
        let mut p = (last & 0x7fff_ffff).to_be_bytes().to_vec();
        p.extend_from_slice(&code.to_be_bytes());
        Frame::new(GOAWAY, 0, 0, p)
    }
    pub fn data(stream: u32, body: &[u8], end: bool, pad: Option<u8>) -> Frame {
        match pad {
            None => Frame::new(DATA, if end { F_END_STREAM } else { 0 }, stream, body.to_vec()),
            Some(n) => {
                let mut p = vec![n];
                p.extend_from_slice(body);
                p.extend(std::iter::repeat(0u8).take(n as usize));
                Frame::new(DATA, F_PADDED | if end { F_END_STREAM } else { 0 }, stream, p)
            }
        }
    }
    pub fn type_name(&self) -> &'static str {
        match self.typ {
            DATA => "DATA",
            HEADERS => "HEADERS",
            PRIORITY => "PRIORITY",
            RST_STREAM => "RST_STREAM",
            SETTINGS => "SETTINGS",
            PUSH_PROMISE => "PUSH_PROMISE",
            PING => "PING",
            GOAWAY => "GOAWAY",
            WINDOW_UPDATE => "WINDOW_UPDATE",
            CONTINUATION => "CONTINUATION",
            _ => "UNKNOWN",
        }
    }
    pub fn u32_at(&self, off: usize) -> Option<u32> {
        self.payload.get(off..off + 4).map(|b| u32::from_be_bytes([b[0], b[1], b[2], b[3]]))
    }
    /// DATA / HEADERS payload without padding and priority fields; None if malformed
    pub fn content(&self) -> Option<&[u8]> {
        let mut p = &self.payload[..];
        let mut pad = 0usize;
        if (self.typ == DATA || self.typ == HEADERS) && self.flags & F_PADDED != 0 {
            pad = *p.first()? as usize;
            p = &p[1..];
        }
        if self.typ == HEADERS && self.flags & F_PRIORITY != 0 {
            if p.len() < 5 {
                return None;
            }
            p = &p[5..];
        }
        if pad > p.len() {
            return None;
        }
        Some(&p[..p.len() - pad])
    }
}

/// Parse one frame from the front of `buf`: Some((frame, consumed)) or None if incomplete.
pub fn parse_frame(buf: &[u8]) -> Option<(Frame, usize)> {
    if buf.len() < 9 {
        return None;
    }
    let len = ((buf[0] as usize) << 16) | ((buf[1] as usize) << 8) | buf[2] as usize;
    if buf.len() < 9 + len {
        return None;
    }
    let stream = u32::from_be_bytes([buf[5], buf[6], buf[7], buf[8]]) & 0x7fff_ffff;
    Some((Frame { typ: buf[3], flags: buf[4], stream, payload: buf[9..9 + len].to_vec() }, 9 + len))
}

// ------------------------------------------------------------------ TLS

#[derive(Debug)]
struct AcceptAny(Arc<std::sync::Mutex<Vec<Vec<u8>>>>);

impl ServerCertVerifier for AcceptAny {
    fn verify_server_cert(&self, end_entity: &CertificateDer<'_>, _i: &[CertificateDer<'_>], _n: &ServerName<'_>, _o: &[u8], _t: UnixTime) -> Result<ServerCertVerified, rustls::Error> {
        self.0.lock().unwrap().push(end_entity.as_ref().to_vec());
        Ok(ServerCertVerified::assertion())
    }
    fn verify_tls12_signature(&self, _m: &[u8], _c: &CertificateDer<'_>, _d: &DigitallySignedStruct) -> Result<HandshakeSignatureValid, rustls::Error> {
        Ok(HandshakeSignatureValid::assertion())
    }
    fn verify_tls13_signature(&self, _m: &[u8], _c: &CertificateDer<'_>, _d: &DigitallySignedStruct) -> Result<HandshakeSignatureValid, rustls::Error> {
        Ok(HandshakeSignatureValid::assertion())
    }
    fn supported_verify_schemes(&self) -> Vec<SignatureScheme> {
        rustls::crypto::ring::default_provider().signature_verification_algorithms.supported_schemes()
    }
}

pub struct TlsInfo {
    /// DER of the leaf certificate the server presented
    pub leaf: Arc<std::sync::Mutex<Vec<Vec<u8>>>>,
}

/// TLS client connection (certificate accepted and recorded, never verified) with the given ALPN list.
pub fn tls_connect(addr: SocketAddr, sni: &str, alpn: &[&str]) -> std::io::Result<(StreamOwned<ClientConnection, TcpStream>, TlsInfo)> {
    let leaf = Arc::new(std::sync::Mutex::new(vec![]));
    let mut cfg = ClientConfig::builder_with_provider(Arc::new(rustls::crypto::ring::default_provider()))
        .with_safe_default_protocol_versions()
        .map_err(|e| std::io::Error::other(e.to_string()))?
        .dangerous()
        .with_custom_certificate_verifier(Arc::new(AcceptAny(leaf.clone())))
        .with_no_client_auth();
    cfg.alpn_protocols = alpn.iter().map(|a| a.as_bytes().to_vec()).collect();
    let name = ServerName::try_from(sni.to_string()).map_err(|e| std::io::Error::other(e.to_string()))?;
    let conn = ClientConnection::new(Arc::new(cfg), name).map_err(|e| std::io::Error::other(e.to_string()))?;
    let sock = TcpStream::connect_timeout(&addr, Duration::from_secs(2))?;
    sock.set_nodelay(true)?;
    sock.set_read_timeout(Some(Duration::from_millis(50)))?;
    sock.set_write_timeout(Some(Duration::from_secs(20)))?;
    let mut tls = StreamOwned::new(conn, sock);
    // drive the handshake to completion
    let deadline = Instant::now() + Duration::from_secs(5);
    while tls.conn.is_handshaking() {
        match tls.conn.complete_io(&mut tls.sock) {
            Ok(_) => {}
            Err(e) if matches!(e.kind(), std::io::ErrorKind::WouldBlock | std::io::ErrorKind::TimedOut) => {
                if Instant::now() > deadline {
                    return Err(std::io::Error::other("TLS handshake deadline"));
                }
            }
            Err(e) => return Err(e),
        }
    }
    Ok((tls, TlsInfo { leaf }))
}

/// TLS client state over an already connected socket (certificate accepted, never verified); the
/// handshake is NOT driven: the caller does (a client that may have to wait for the server's attention).
pub fn tls_client(sock: TcpStream, sni: &str, alpn: &[&str]) -> std::io::Result<StreamOwned<ClientConnection, TcpStream>> {
    let leaf = Arc::new(std::sync::Mutex::new(vec![]));
    let mut cfg = ClientConfig::builder_with_provider(Arc::new(rustls::crypto::ring::default_provider()))
        .with_safe_default_protocol_versions()
        .map_err(|e| std::io::Error::other(e.to_string()))?
        .dangerous()
        .with_custom_certificate_verifier(Arc::new(AcceptAny(leaf)))
        .with_no_client_auth();
    cfg.alpn_protocols = alpn.iter().map(|a| a.as_bytes().to_vec()).collect();
    let name = ServerName::try_from(sni.to_string()).map_err(|e| std::io::Error::other(e.to_string()))?;
    let conn = ClientConnection::new(Arc::new(cfg), name).map_err(|e| std::io::Error::other(e.to_string()))?;
    Ok(StreamOwned::new(conn, sock))
}

// ------------------------------------------------------------------ connection

#[derive(Clone, Debug)]
pub struct Settings {
    pub header_table_size: u32,
    pub enable_push: u32,
    pub max_concurrent_streams: Option<u32>,
    pub initial_window_size: u32,
    pub max_frame_size: u32,
    pub max_header_list_size: Option<u32>,
}

impl Default for Settings {
    fn default() -> Self {
        Settings { header_table_size: 4096, enable_push: 1, max_concurrent_streams: None, initial_window_size: 65535, max_frame_size: 16384, max_header_list_size: None }
    }
}

impl Settings {
    pub fn apply(&mut self, payload: &[u8]) {
        for c in payload.chunks_exact(6) {
            let k = u16::from_be_bytes([c[0], c[1]]);
            let v = u32::from_be_bytes([c[2], c[3], c[4], c[5]]);
            match k {
                S_HEADER_TABLE_SIZE => self.header_table_size = v,
                S_ENABLE_PUSH => self.enable_push = v,
                S_MAX_CONCURRENT_STREAMS => self.max_concurrent_streams = Some(v),
                S_INITIAL_WINDOW_SIZE => self.initial_window_size = v,
                S_MAX_FRAME_SIZE => self.max_frame_size = v,
                S_MAX_HEADER_LIST_SIZE => self.max_header_list_size = Some(v),
                _ => {}
            }
        }
    }
}

/// A violation of a limit this peer advertised, committed by sozu (the ledger's verdicts).
#[derive(Clone, Debug)]
pub struct LedgerViolation {
    pub what: String,
}

#[derive(Clone, Debug, Default)]
pub struct RecvStream {
    pub headers: Vec<(String, String)>,
    pub trailers: Vec<(String, String)>,
    /// the same two lists byte-exact, as the HPACK decoder produced them (the `String` lists are lossy for obs-text)
    pub raw_headers: Vec<(Vec<u8>, Vec<u8>)>,
    pub raw_trailers: Vec<(Vec<u8>, Vec<u8>)>,
    pub body: Vec<u8>,
    pub data_frames: Vec<usize>,
    pub end_stream: bool,
    pub reset: Option<u32>,
    pub headers_done: bool,
}

pub struct H2Conn<S: Read + Write> {
    pub s: S,
    rbuf: Vec<u8>,
    rpos: usize,
    pub eof: bool,
    /// the read error that ended the connection (when it was not an orderly end)
    pub last_io_error: Option<String>,
    enc: loona_hpack::Encoder<'static>,
    dec: loona_hpack::Decoder<'static>,
    /// what this peer advertised to sozu (limits sozu must respect)
    pub mine: Settings,
    /// what this peer advertised and sozu has acknowledged (old values stay usable until the ack)
    mine_acked: Settings,
    /// what sozu advertised
    pub theirs: Settings,
    /// flow-control credit this peer has granted to sozu (connection) and per stream
    pub conn_credit: i64,
    pub stream_credit: BTreeMap<u32, i64>,
    /// credit sozu granted us
    pub send_conn_window: i64,
    pub send_stream_window: BTreeMap<u32, i64>,
    pub streams: BTreeMap<u32, RecvStream>,
    pub violations: Vec<LedgerViolation>,
    pub goaway: Option<(u32, u32)>,
    /// every frame received, in order (type, flags, stream, length)
    pub log: Vec<(u8, u8, u32, usize)>,
    /// automatically replenish flow-control credit as DATA arrives (off: the scenario schedules WINDOW_UPDATEs)
    pub auto_window_update: bool,
    pending_headers: Option<(u32, u8, Vec<u8>)>,
    is_server: bool,
    pub settings_acks_received: usize,
    pub pings_received: usize,
    /// highest stream id opened by sozu on this connection (server role)
    pub max_stream_seen: u32,
    pub open_streams_now: usize,
    pub max_open_streams: usize,
}

#[derive(Debug)]
pub enum H2Event {
    Frame(Frame),
    Eof,
    Timeout,
    Reset,
}

impl<S: Read + Write> H2Conn<S> {
    pub fn new(s: S, is_server: bool, mine: Settings) -> Self {
        H2Conn {
            s,
            rbuf: vec![],
            rpos: 0,
            eof: false,
            last_io_error: None,
            enc: loona_hpack::Encoder::new(),
            dec: loona_hpack::Decoder::new(),
            mine_acked: Settings::default(),
            conn_credit: 65535,
            stream_credit: BTreeMap::new(),
            send_conn_window: 65535,
            send_stream_window: BTreeMap::new(),
            theirs: Settings::default(),
            mine,
            streams: BTreeMap::new(),
            violations: vec![],
            goaway: None,
            log: vec![],
            auto_window_update: true,
            pending_headers: None,
            is_server,
            settings_acks_received: 0,
            pings_received: 0,
            max_stream_seen: 0,
            open_streams_now: 0,
            max_open_streams: 0,
        }
    }

    pub fn settings_pairs(s: &Settings) -> Vec<(u16, u32)> {
        let mut v = vec![];
        if s.header_table_size != 4096 {
            v.push((S_HEADER_TABLE_SIZE, s.header_table_size));
        }
        if let Some(m) = s.max_concurrent_streams {
            v.push((S_MAX_CONCURRENT_STREAMS, m));
        }
        if s.initial_window_size != 65535 {
            v.push((S_INITIAL_WINDOW_SIZE, s.initial_window_size));
        }
        if s.max_frame_size != 16384 {
            v.push((S_MAX_FRAME_SIZE, s.max_frame_size));
        }
        if let Some(m) = s.max_header_list_size {
            v.push((S_MAX_HEADER_LIST_SIZE, m));
        }
        if !s_is_push_default(s) {
            v.push((S_ENABLE_PUSH, s.enable_push));
        }
        v
    }

    pub fn write_raw(&mut self, bytes: &[u8]) -> std::io::Result<()> {
        self.s.write_all(bytes)?;
        self.s.flush()
    }

    pub fn send(&mut self, f: &Frame) -> std::io::Result<()> {
        if trace_on() {
            eprintln!("[h2 {} send] {} flags={:#x} stream={} len={} {}", if self.is_server { "backend" } else { "client" }, f.type_name(), f.flags, f.stream, f.payload.len(), if f.typ == WINDOW_UPDATE || f.typ == RST_STREAM { format!("val={}", f.u32_at(0).unwrap_or(0)) } else if f.typ == SETTINGS { format!("{:02x?}", f.payload) } else { String::new() });
        }
        self.write_raw(&f.encode())
    }

    /// client: preface + SETTINGS; server: SETTINGS
    pub fn start(&mut self) -> std::io::Result<()> {
        let mut bytes = vec![];
        if !self.is_server {
            bytes.extend_from_slice(PREFACE);
        }
        let mut mine = self.mine.clone();
        if !self.is_server {
            mine.enable_push = 0;
            self.mine.enable_push = 0;
        }
        bytes.extend(Frame::settings(&Self::settings_pairs(&mine)).encode());
        self.write_raw(&bytes)
    }

    /// Change this peer's settings mid-connection (e.g. shrink INITIAL_WINDOW_SIZE): per RFC 9113 §6.9.2
    /// the delta applies to every open stream's credit at once.
    pub fn update_settings(&mut self, new: Settings) -> std::io::Result<()> {
        let delta = new.initial_window_size as i64 - self.mine.initial_window_size as i64;
        // a legal peer does not lift any stream window above 2^31-1 (RFC 9113 §6.9.2)
        if self.stream_credit.values().any(|c| *c + delta > 0x7fff_ffff) {
            return Ok(());
        }
        for c in self.stream_credit.values_mut() {
            *c += delta;
        }
        let mut pairs = vec![(S_INITIAL_WINDOW_SIZE, new.initial_window_size), (S_MAX_FRAME_SIZE, new.max_frame_size)];
        if let Some(m) = new.max_concurrent_streams {
            pairs.push((S_MAX_CONCURRENT_STREAMS, m));
        }
        self.mine = new;
        self.send(&Frame::settings(&pairs))
    }

    pub fn encode_headers(&mut self, headers: &[(String, String)]) -> Vec<u8> {
        self.enc.encode(headers.iter().map(|(n, v)| (n.as_bytes(), v.as_bytes())))
    }

    /// HEADERS (+ CONTINUATION when the block exceeds `split`) for a header list
    pub fn send_headers(&mut self, stream: u32, headers: &[(String, String)], end_stream: bool, split: Option<usize>) -> std::io::Result<()> {
        let block = self.encode_headers(headers);
        self.send_header_block(stream, &block, end_stream, split)
    }

    pub fn send_header_block(&mut self, stream: u32, block: &[u8], end_stream: bool, split: Option<usize>) -> std::io::Result<()> {
        let max = split.unwrap_or(self.theirs.max_frame_size as usize).max(1);
        let mut chunks: Vec<&[u8]> = block.chunks(max).collect();
        if chunks.is_empty() {
            chunks.push(&[]);
        }
        let n = chunks.len();
        let mut bytes = vec![];
        for (i, c) in chunks.into_iter().enumerate() {
            let last = i + 1 == n;
            let (typ, mut flags) = if i == 0 { (HEADERS, if end_stream { F_END_STREAM } else { 0 }) } else { (CONTINUATION, 0) };
            if last {
                flags |= F_END_HEADERS;
            }
            bytes.extend(Frame::new(typ, flags, stream, c.to_vec()).encode());
        }
        self.send_stream_window.entry(stream).or_insert(self.theirs.initial_window_size as i64);
        self.write_raw(&bytes)
    }

    fn fill(&mut self, deadline: Instant) -> H2Event {
        let mut tmp = vec![0u8; 65536];
        loop {
            match self.s.read(&mut tmp) {
                Ok(0) => {
                    self.eof = true;
                    return H2Event::Eof;
                }
                Ok(n) => {
                    self.rbuf.extend_from_slice(&tmp[..n]);
                    return H2Event::Timeout; // "got something": caller re-parses
                }
                Err(e) => match e.kind() {
                    std::io::ErrorKind::WouldBlock | std::io::ErrorKind::TimedOut | std::io::ErrorKind::Interrupted => {
                        if Instant::now() >= deadline {
                            return H2Event::Timeout;
                        }
                    }
                    std::io::ErrorKind::UnexpectedEof => {
                        self.eof = true;
                        self.last_io_error = Some(format!("{e}"));
                        return H2Event::Eof;
                    }
                    _ => {
                        self.eof = true;
                        self.last_io_error = Some(format!("{:?}: {e}", e.kind()));
                        return H2Event::Reset;
                    }
                },
            }
        }
    }

    /// server role: read and check the client preface
    pub fn expect_preface(&mut self, deadline: Instant) -> Result<(), String> {
        while self.rbuf.len() - self.rpos < PREFACE.len() {
            let before = self.rbuf.len();
            match self.fill(deadline) {
                H2Event::Eof | H2Event::Reset => return Err("connection closed before the client preface".into()),
                _ => {
                    if self.rbuf.len() == before && Instant::now() >= deadline {
                        return Err("no client preface before the deadline".into());
                    }
                }
            }
        }
        if &self.rbuf[self.rpos..self.rpos + PREFACE.len()] != PREFACE {
            return Err(format!("bad client preface: {:?}", String::from_utf8_lossy(&self.rbuf[self.rpos..self.rpos + PREFACE.len()])));
        }
        self.rpos += PREFACE.len();
        Ok(())
    }

    /// Read the next frame, run it through the ledger / stream bookkeeping, answer SETTINGS and PING.
    pub fn next_frame(&mut self, deadline: Instant) -> H2Event {
        loop {
            if let Some((f, used)) = parse_frame(&self.rbuf[self.rpos..]) {
                self.rpos += used;
                if self.rpos > 1 << 20 {
                    self.rbuf.drain(..self.rpos);
                    self.rpos = 0;
                }
                self.account(&f);
                return H2Event::Frame(f);
            }
            if self.eof {
                return H2Event::Eof;
            }
            let before = self.rbuf.len();
            match self.fill(deadline) {
                H2Event::Eof => {
                    if self.rbuf.len() - self.rpos >= 9 {
                        continue;
                    }
                    return H2Event::Eof;
                }
                H2Event::Reset => return H2Event::Reset,
                _ => {
                    if self.rbuf.len() == before && Instant::now() >= deadline {
                        return H2Event::Timeout;
                    }
                }
            }
        }
    }

    fn violation(&mut self, what: String) {
        self.violations.push(LedgerViolation { what });
    }

    fn account(&mut self, f: &Frame) {
        self.log.push((f.typ, f.flags, f.stream, f.payload.len()));
        if trace_on() {
            eprintln!("[h2 {} recv] {} flags={:#x} stream={} len={} {}", if self.is_server { "backend" } else { "client" }, f.type_name(), f.flags, f.stream, f.payload.len(), if f.typ == WINDOW_UPDATE || f.typ == RST_STREAM { format!("val={}", f.u32_at(0).unwrap_or(0)) } else if f.typ == SETTINGS { format!("{:02x?}", f.payload) } else { String::new() });
        }
        // frame size: the larger of the acknowledged and the newly advertised limit is admissible
        let limit = self.mine.max_frame_size.max(self.mine_acked.max_frame_size);
        if f.payload.len() as u32 > limit {
            self.violation(format!("{} frame of {} bytes on stream {} exceeds this peer's SETTINGS_MAX_FRAME_SIZE {}", f.type_name(), f.payload.len(), f.stream, limit));
        }
        match f.typ {
            SETTINGS => {
                if f.flags & F_ACK != 0 {
                    self.settings_acks_received += 1;
                    self.mine_acked = self.mine.clone();
                } else {
                    let before = self.theirs.initial_window_size as i64;
                    self.theirs.apply(&f.payload);
                    let delta = self.theirs.initial_window_size as i64 - before;
                    for w in self.send_stream_window.values_mut() {
                        *w += delta;
                    }
                    let _ = self.send(&Frame::settings_ack());
                }
            }
            PING => {
                if f.flags & F_ACK == 0 {
                    self.pings_received += 1;
                    let mut d = [0u8; 8];
                    if f.payload.len() == 8 {
                        d.copy_from_slice(&f.payload);
                    }
                    let _ = self.send(&Frame::ping(true, d));
                }
            }
            WINDOW_UPDATE => {
                let inc = f.u32_at(0).unwrap_or(0) as i64 & 0x7fff_ffff;
                if f.stream == 0 {
                    self.send_conn_window += inc;
                } else {
                    *self.send_stream_window.entry(f.stream).or_insert(self.theirs.initial_window_size as i64) += inc;
                }
            }
            GOAWAY => {
                self.goaway = Some((f.u32_at(0).unwrap_or(0) & 0x7fff_ffff, f.u32_at(4).unwrap_or(0)));
            }
            RST_STREAM => {
                let code = f.u32_at(0).unwrap_or(0);
                let st = self.streams.entry(f.stream).or_default();
                if st.reset.is_none() && !st.end_stream && st.headers_done {
                    self.open_streams_now = self.open_streams_now.saturating_sub(1);
                }
                st.reset = Some(code);
            }
            HEADERS | CONTINUATION => {
                if f.typ == HEADERS {
                    if self.is_server {
                        // stream ids opened by the client side (sozu): odd, increasing, below 2^31
                        if !self.streams.contains_key(&f.stream) {
                            if f.stream % 2 == 0 || f.stream == 0 {
                                self.violation(format!("sozu opened stream {} (client-initiated ids must be odd and non-zero)", f.stream));
                            }
                            if f.stream <= self.max_stream_seen {
                                self.violation(format!("sozu opened stream {} after stream {} (ids must strictly increase)", f.stream, self.max_stream_seen));
                            }
                            self.max_stream_seen = self.max_stream_seen.max(f.stream);
                        }
                    }
                    match f.content() {
                        Some(c) => self.pending_headers = Some((f.stream, f.flags, c.to_vec())),
                        None => {
                            self.violation(format!("malformed HEADERS padding/priority on stream {}", f.stream));
                            return;
                        }
                    }
                } else if let Some((sid, _, block)) = self.pending_headers.as_mut() {
                    let sid = *sid;
                    block.extend_from_slice(&f.payload);
                    if sid != f.stream {
                        self.violation(format!("CONTINUATION on stream {} interleaved in the header block of stream {}", f.stream, sid));
                    }
                } else {
                    self.violation(format!("CONTINUATION on stream {} without a preceding HEADERS", f.stream));
                    return;
                }
                if f.flags & F_END_HEADERS != 0 {
                    if let Some((sid, hflags, block)) = self.pending_headers.take() {
                        match self.dec.decode(&block) {
                            Ok(list) => {
                                let raw: Vec<(Vec<u8>, Vec<u8>)> = list.iter().map(|(n, v)| (n.to_vec(), v.to_vec())).collect();
                                let list: Vec<(String, String)> = list.into_iter().map(|(n, v)| (String::from_utf8_lossy(&n).to_string(), String::from_utf8_lossy(&v).to_string())).collect();
                                let is_new = !self.streams.get(&sid).map(|s| s.headers_done).unwrap_or(false);
                                let st = self.streams.entry(sid).or_default();
                                if !st.headers_done {
                                    st.headers = list;
                                    st.raw_headers = raw;
                                    st.headers_done = true;
                                } else {
                                    st.trailers = list;
                                    st.raw_trailers = raw;
                                }
                                if hflags & F_END_STREAM != 0 {
                                    st.end_stream = true;
                                }
                                self.stream_credit.entry(sid).or_insert(self.mine.initial_window_size as i64);
                                if is_new && hflags & F_END_STREAM == 0 {
                                    self.open_streams_now += 1;
                                    self.max_open_streams = self.max_open_streams.max(self.open_streams_now);
                                    if self.is_server {
                                        if let Some(maxc) = self.mine_acked.max_concurrent_streams.or(self.mine.max_concurrent_streams) {
                                            let lim = maxc.max(self.mine.max_concurrent_streams.unwrap_or(maxc));
                                            if self.open_streams_now as u32 > lim {
                                                self.violation(format!("{} concurrently open streams, this peer advertised SETTINGS_MAX_CONCURRENT_STREAMS {}", self.open_streams_now, lim));
                                            }
                                        }
                                    }
                                } else if !is_new && hflags & F_END_STREAM != 0 {
                                    self.open_streams_now = self.open_streams_now.saturating_sub(1);
                                }
                            }
                            Err(e) => self.violation(format!("header block on stream {sid} does not decode with HPACK: {e:?}")),
                        }
                    }
                }
            }
            DATA => {
                let flow = f.payload.len() as i64; // padding counts (RFC 9113 §6.9.1)
                self.conn_credit -= flow;
                let initial = self.mine.initial_window_size as i64;
                let c = self.stream_credit.entry(f.stream).or_insert(initial);
                *c -= flow;
                let c = *c;
                if self.conn_credit < 0 {
                    let over = -self.conn_credit;
                    self.violation(format!("DATA of {flow} flow-controlled bytes on stream {} overdraws the connection window by {over}", f.stream));
                }
                if c < 0 {
                    // a shrink of INITIAL_WINDOW_SIZE not yet acknowledged: the old (larger) window is still admissible
                    let slack = (self.mine_acked.initial_window_size as i64 - self.mine.initial_window_size as i64).max(0);
                    if c + slack < 0 {
                        self.violation(format!("DATA of {flow} flow-controlled bytes overdraws stream {}'s window by {}", f.stream, -c));
                    }
                }
                let content = f.content().map(|c| c.to_vec());
                let st = self.streams.entry(f.stream).or_default();
                match content {
                    Some(c) => {
                        st.data_frames.push(c.len());
                        st.body.extend_from_slice(&c);
                    }
                    None => {}
                }
                if f.flags & F_END_STREAM != 0 && !st.end_stream {
                    st.end_stream = true;
                    self.open_streams_now = self.open_streams_now.saturating_sub(1);
                }
                if self.auto_window_update && flow > 0 {
                    self.replenish(f.stream);
                }
            }
            PUSH_PROMISE => {
                if !self.is_server && self.mine.enable_push == 0 {
                    self.violation("PUSH_PROMISE although this client disabled push".into());
                }
            }
            _ => {}
        }
    }

    /// Automatic replenishment, the way real clients do it: when the credit of the connection (or of
    /// a still open stream) has fallen to half of its target, top it up to the target. The target is
    /// at least 65535 even when a tiny INITIAL_WINDOW_SIZE was advertised, so a transfer costs a
    /// handful of WINDOW_UPDATE frames, far below sozu's documented flood thresholds (a peer that
    /// acknowledges every DATA frame, or drips one byte of credit at a time for a whole body, is
    /// what those thresholds are meant to stop and is answered with ENHANCE_YOUR_CALM by policy).
    pub fn replenish(&mut self, stream: u32) {
        // connection window a replenishing peer keeps open (64 MiB: above the sum of all bodies of a scenario)
        let mut bytes = vec![];
        let conn_target = CONN_TARGET;
        if self.conn_credit <= conn_target / 2 {
            let inc = conn_target - self.conn_credit;
            self.conn_credit += inc;
            bytes.extend(Frame::window_update(0, inc as u32).encode());
        }
        if stream != 0 {
            let heard = self.streams.contains_key(&stream);
            let open = self.streams.get(&stream).map(|s| !s.end_stream && s.reset.is_none()).unwrap_or(true);
            let target = (self.mine.initial_window_size as i64).clamp(65535, 1 << 20);
            let cur = *self.stream_credit.get(&stream).unwrap_or(&(self.mine.initial_window_size as i64));
            // a stream that has not sent anything back yet is topped up only while its window could not take one
            // default-sized frame: granting more to every freshly opened stream means one WINDOW_UPDATE per
            // request, which on a busy machine arrives after short responses have closed their streams - sozu
            // counts WINDOW_UPDATE on closed streams toward its documented glitch budget (ENHANCE_YOUR_CALM)
            let needed = if heard { cur <= target / 2 } else { cur < 16384 };
            if open && needed {
                let inc = target - cur;
                *self.stream_credit.entry(stream).or_insert(self.mine.initial_window_size as i64) += inc;
                bytes.extend(Frame::window_update(stream, inc as u32).encode());
            }
        }
        if !bytes.is_empty() {
            if trace_on() {
                eprintln!("[h2 {} send] replenish for stream {stream}: {} bytes of WINDOW_UPDATE frames (conn credit now {}, stream credit {:?})", if self.is_server { "backend" } else { "client" }, bytes.len(), self.conn_credit, self.stream_credit.get(&stream));
            }
            let _ = self.write_raw(&bytes);
        }
    }

    /// automatic replenishment also covers streams that have not received a byte yet (a peer whose
    /// initial window is 0 has to grant credit before any DATA can arrive)
    pub fn replenish_open(&mut self) {
        if !self.auto_window_update {
            return;
        }
        let mut open: Vec<u32> = self.streams.iter().filter(|(_, s)| !s.end_stream && s.reset.is_none()).map(|(id, _)| *id).collect();
        // streams this side opened and has not heard back on yet
        open.extend(self.send_stream_window.keys().filter(|id| !self.streams.contains_key(id)).copied());
        self.replenish(0);
        for id in open {
            self.replenish(id);
        }
    }

    /// switch to automatic replenishment now and top up everything that is open
    pub fn go_auto(&mut self) {
        self.auto_window_update = true;
        let open: Vec<u32> = self.streams.iter().filter(|(_, s)| !s.end_stream && s.reset.is_none()).map(|(id, _)| *id).collect();
        self.replenish(0);
        for id in open {
            self.replenish(id);
        }
    }

    /// grant flow-control credit explicitly (scheduled WINDOW_UPDATE)
    pub fn grant(&mut self, stream: u32, inc: u32) -> std::io::Result<()> {
        // a legal schedule never lifts a window above 2^31-1 (RFC 9113 §6.9.1)
        let cur = if stream == 0 { self.conn_credit } else { *self.stream_credit.get(&stream).unwrap_or(&(self.mine.initial_window_size as i64)) };
        if cur + inc as i64 > 0x7fff_ffff {
            return Ok(());
        }
        if stream == 0 {
            self.conn_credit += inc as i64;
        } else {
            *self.stream_credit.entry(stream).or_insert(self.mine.initial_window_size as i64) += inc as i64;
        }
        self.send(&Frame::window_update(stream, inc))
    }

    /// Send a body as DATA frames of the given sizes (cycled), respecting sozu's windows: waits for
    /// WINDOW_UPDATEs (processing incoming frames) when out of credit. Err(reason) on deadline / close.
    pub fn send_body(&mut self, stream: u32, body: &[u8], frame_sizes: &[usize], pad: Option<u8>, end_stream: bool, deadline: Instant) -> Result<(), String> {
        let mut pos = 0;
        let mut i = 0;
        if body.is_empty() {
            if end_stream {
                self.send(&Frame::data(stream, &[], true, None)).map_err(|e| e.to_string())?;
            }
            return Ok(());
        }
        // a size of 0 in `frame_sizes` is an empty DATA frame in the middle of the body (padding only when `pad` is
        // set): legal, carries no flow-controlled content byte; at most 6 per body so that the peer's
        // empty-frame flood detection is not what is being exercised
        let mut empties = 0;
        while pos < body.len() {
            let mut want = if frame_sizes.is_empty() { 16384 } else { frame_sizes[i % frame_sizes.len()] };
            i += 1;
            if want == 0 {
                if empties < 6 && pos > 0 {
                    empties += 1;
                    let f = Frame::data(stream, &[], false, pad);
                    let sw = *self.send_stream_window.entry(stream).or_insert(self.theirs.initial_window_size as i64);
                    if (f.payload.len() as i64) <= sw.min(self.send_conn_window) {
                        self.send_conn_window -= f.payload.len() as i64;
                        *self.send_stream_window.get_mut(&stream).unwrap() -= f.payload.len() as i64;
                        self.send(&f).map_err(|e| e.to_string())?;
                    }
                    continue;
                }
                want = 1;
            }
            let padlen = pad.map(|p| p as usize + 1).unwrap_or(0);
            let maxf = (self.theirs.max_frame_size as usize).saturating_sub(padlen).max(1);
            let sw = *self.send_stream_window.entry(stream).or_insert(self.theirs.initial_window_size as i64);
            let avail = sw.min(self.send_conn_window) - padlen as i64;
            if avail <= 0 {
                // wait for credit
                match self.next_frame(deadline) {
                    H2Event::Frame(f) => {
                        if f.typ == RST_STREAM && f.stream == stream {
                            return Err(format!("stream {stream} reset by sozu with code {} while sending the body", f.u32_at(0).unwrap_or(0)));
                        }
                        if f.typ == GOAWAY {
                            return Err(format!("GOAWAY {:?} while sending the body", self.goaway));
                        }
                    }
                    H2Event::Timeout => {
                        if Instant::now() >= deadline {
                            return Err(format!("no flow-control credit from sozu for stream {stream} before the deadline ({} of {} body bytes sent)", pos, body.len()));
                        }
                    }
                    H2Event::Eof | H2Event::Reset => return Err("connection closed while sending the body".into()),
                }
                continue;
            }
            let n = want.min(maxf).min(avail as usize).min(body.len() - pos);
            let last = pos + n == body.len();
            let f = Frame::data(stream, &body[pos..pos + n], last && end_stream, pad);
            self.send_conn_window -= f.payload.len() as i64;
            *self.send_stream_window.get_mut(&stream).unwrap() -= f.payload.len() as i64;
            self.send(&f).map_err(|e| e.to_string())?;
            pos += n;
        }
        Ok(())
    }
}

pub const CONN_TARGET: i64 = 64 * 1024 * 1024;

pub fn trace_on() -> bool {
    static ON: std::sync::OnceLock<bool> = std::sync::OnceLock::new();
    *ON.get_or_init(|| std::env::var("VP_H2_TRACE").is_ok())
}

fn s_is_push_default(s: &Settings) -> bool {
    s.enable_push == 1
}

/// header list helpers
pub fn hdr(list: &[(String, String)], name: &str) -> Option<String> {
    list.iter().find(|(n, _)| n.eq_ignore_ascii_case(name)).map(|(_, v)| v.clone())
}
