//! HTTP/2 lab: a live worker with an HTTPS listener (ALPN h2 + http/1.1) and an HTTP listener,
//! cluster `c0` served by an HTTP/1.1 mock backend and cluster `c1` by an h2c (prior knowledge)
//! mock backend whose every received frame goes through the ledger of `lab::h2`.

use std::{
    collections::BTreeMap,
    net::{SocketAddr, TcpStream},
    sync::{Arc, Mutex},
    time::{Duration, Instant},
};

use sozu_command_lib::{
    config::ListenerBuilder,
    proto::command::{ActivateListener, AddCertificate, CertificateAndKey, ListenerType, PathRule, RequestHttpFrontend, RulePosition, request::RequestType},
    scm_socket::Listeners,
    state::ConfigState,
};

use super::{
    LabConfig, LabWorker,
    h1::{Acceptor, BodyFraming},
    h2::{self, Frame, H2Conn, H2Event, RecvStream, Settings},
    httplab::{self, BackendAction},
    script::ReadScript,
};
use crate::gens::certs;

/// What the h2c mock backend does with the request carrying `x-lab-req: <n>`.
#[derive(Clone, Debug)]
pub struct H2Action {
    pub status: u16,
    pub headers: Vec<(String, String)>,
    pub body: Vec<u8>,
    pub frame_sizes: Vec<usize>,
    pub pad: Option<u8>,
    pub trailers: Vec<(String, String)>,
    /// reset the stream with this code instead of (after `after_bytes` of) answering
    pub reset: Option<(u32, usize)>,
}

impl Default for H2Action {
    fn default() -> Self {
        H2Action { status: 200, headers: vec![], body: vec![], frame_sizes: vec![], pad: None, trailers: vec![], reset: None }
    }
}

#[derive(Clone, Debug)]
pub struct H2Recorded {
    pub conn: usize,
    pub stream: u32,
    pub req: RecvStream,
    pub lab_req: Option<usize>,
}

pub struct H2Shared {
    pub actions: BTreeMap<usize, H2Action>,
    /// settings the h2c backend advertises to sozu (per scenario)
    pub settings: Settings,
    /// let the backend replenish windows automatically (false: `grants` schedule applies)
    pub auto_window_update: bool,
    /// x-lab-req numbers whose HEADERS have reached an h2c backend connection
    pub seen_reqs: std::collections::BTreeSet<usize>,
    /// the backend waits this long before sending its SETTINGS (a slow h2c server)
    pub settings_delay_ms: u64,
    /// graceful shutdown: right before answering the request with this x-lab-req number the backend sends
    /// GOAWAY(NO_ERROR, last_stream_id = that stream) and then answers it (RFC 9113 6.8)
    pub goaway_before_req: Option<usize>,
    /// scheduled WINDOW_UPDATEs of the backend: (delay ms since connection start, stream (0 = connection, u32::MAX = the first stream), increment)
    pub grants: Vec<(u64, u32, u32)>,
    pub recorded: Vec<H2Recorded>,
    pub violations: Vec<String>,
    pub conn_errors: Vec<String>,
    pub max_open_streams: usize,
    pub connections: usize,
}

impl Default for H2Shared {
    fn default() -> Self {
        H2Shared { actions: BTreeMap::new(), settings: Settings::default(), auto_window_update: true, grants: vec![], recorded: vec![], violations: vec![], conn_errors: vec![], max_open_streams: 0, connections: 0, seen_reqs: Default::default(), settings_delay_ms: 0, goaway_before_req: None }
    }
}

pub struct H2Lab {
    pub worker: LabWorker,
    pub https_addr: SocketAddr,
    pub http_addr: SocketAddr,
    pub h1_shared: Arc<Mutex<httplab::Shared>>,
    pub h2_shared: Arc<Mutex<H2Shared>>,
    _backends: Vec<Acceptor>,
}

fn serve_h2c(conn_idx: usize, stream: TcpStream, shared: Arc<Mutex<H2Shared>>) {
    let (settings, auto, grants, settings_delay) = {
        let mut g = shared.lock().unwrap();
        g.connections += 1;
        (g.settings.clone(), g.auto_window_update, g.grants.clone(), g.settings_delay_ms)
    };
    if settings_delay > 0 {
        std::thread::sleep(Duration::from_millis(settings_delay));
    }
    let _ = stream.set_read_timeout(Some(Duration::from_millis(20)));
    let mut c = H2Conn::new(stream, true, settings);
    c.auto_window_update = auto;
    let started = Instant::now();
    if let Err(e) = c.start() {
        shared.lock().unwrap().conn_errors.push(format!("backend conn {conn_idx}: cannot send SETTINGS: {e}"));
        return;
    }
    if let Err(e) = c.expect_preface(Instant::now() + Duration::from_secs(5)) {
        shared.lock().unwrap().conn_errors.push(format!("backend conn {conn_idx}: {e}"));
        return;
    }
    if c.auto_window_update {
        // a generous peer raises its connection window before any DATA flows
        c.replenish(0);
    }
    let mut answered: Vec<u32> = vec![];
    let mut seen: Vec<u32> = vec![];
    let mut grants: Vec<(u64, u32, u32)> = grants;
    grants.sort();
    let mut first_stream: Option<u32> = None;
    let idle_limit = Duration::from_secs(8);
    let mut last_activity = Instant::now();
    loop {
        // scheduled window updates
        let elapsed = started.elapsed().as_millis() as u64;
        while let Some(&(at, sid, inc)) = grants.first() {
            if at > elapsed {
                break;
            }
            let sid = if sid == u32::MAX {
                match first_stream {
                    Some(s) => s,
                    None => break,
                }
            } else {
                sid
            };
            grants.remove(0);
            if sid == 0 || c.streams.get(&sid).map(|s| !s.end_stream && s.reset.is_none()).unwrap_or(false) {
                let _ = c.grant(sid, inc);
            }
        }
        // the schedule is over (or cannot apply yet and its time has passed): credit follows consumption
        if !c.auto_window_update && (grants.is_empty() || elapsed > 600) {
            grants.clear();
            c.go_auto();
        }
        c.replenish_open();
        match c.next_frame(Instant::now() + Duration::from_millis(20)) {
            H2Event::Frame(f) => {
                last_activity = Instant::now();
                if f.typ == h2::HEADERS && first_stream.is_none() {
                    first_stream = Some(f.stream);
                }
                if f.typ == h2::GOAWAY {
                    break;
                }
            }
            H2Event::Timeout => {
                if last_activity.elapsed() > idle_limit {
                    break;
                }
            }
            H2Event::Eof | H2Event::Reset => break,
        }
        // tell the scenario which requests have reached this backend (their HEADERS are in)
        for (sid, st) in c.streams.iter() {
            if st.headers_done && !seen.contains(sid) {
                seen.push(*sid);
                if let Some(n) = h2::hdr(&st.headers, "x-lab-req").and_then(|v| v.trim().parse::<usize>().ok()) {
                    shared.lock().unwrap().seen_reqs.insert(n);
                }
            }
        }
        // answer every stream whose request is complete
        let done: Vec<u32> = c.streams.iter().filter(|(id, s)| s.end_stream && s.headers_done && !answered.contains(id) && s.reset.is_none()).map(|(id, _)| *id).collect();
        for sid in done {
            answered.push(sid);
            let req = c.streams[&sid].clone();
            let lab_req = h2::hdr(&req.headers, "x-lab-req").and_then(|v| v.trim().parse::<usize>().ok());
            let action = {
                let mut g = shared.lock().unwrap();
                g.recorded.push(H2Recorded { conn: conn_idx, stream: sid, req, lab_req });
                lab_req.and_then(|n| g.actions.get(&n).cloned()).unwrap_or_default()
            };
            if lab_req.is_some() && lab_req == shared.lock().unwrap().goaway_before_req {
                let _ = c.send(&Frame::goaway(sid, h2::NO_ERROR));
            }
            let mut headers = vec![(":status".to_string(), action.status.to_string())];
            headers.extend(action.headers.iter().cloned());
            if let Some((code, after)) = action.reset {
                if after == 0 {
                    let _ = c.send(&Frame::rst(sid, code));
                    continue;
                }
                let _ = c.send_headers(sid, &headers, false, None);
                let part = &action.body[..after.min(action.body.len())];
                let _ = c.send_body(sid, part, &action.frame_sizes, action.pad, false, Instant::now() + Duration::from_secs(10));
                let _ = c.send(&Frame::rst(sid, code));
                continue;
            }
            let has_trailers = !action.trailers.is_empty();
            let end_on_headers = action.body.is_empty() && !has_trailers;
            if c.send_headers(sid, &headers, end_on_headers, None).is_err() {
                break;
            }
            if !end_on_headers {
                if let Err(e) = c.send_body(sid, &action.body, &action.frame_sizes, action.pad, !has_trailers, Instant::now() + Duration::from_secs(20)) {
                    shared.lock().unwrap().conn_errors.push(format!("backend conn {conn_idx} stream {sid}: {e}"));
                    continue;
                }
                if has_trailers {
                    let _ = c.send_headers(sid, &action.trailers, true, None);
                }
            }
            last_activity = Instant::now();
        }
    }
    let mut g = shared.lock().unwrap();
    g.violations.extend(c.violations.iter().map(|v| format!("backend conn {conn_idx}: {}", v.what)));
    g.max_open_streams = g.max_open_streams.max(c.max_open_streams);
    // requests that never completed are recorded too (for truncation oracles)
    for (sid, s) in &c.streams {
        if !answered.contains(sid) && s.headers_done {
            let lab_req = h2::hdr(&s.headers, "x-lab-req").and_then(|v| v.trim().parse::<usize>().ok());
            g.recorded.push(H2Recorded { conn: conn_idx, stream: *sid, req: s.clone(), lab_req });
        }
    }
}

impl H2Lab {
    pub fn new(name: &str, lab: LabConfig, tweak_https: impl FnOnce(&mut sozu_command_lib::proto::command::HttpsListenerConfig)) -> H2Lab {
        let mut worker = LabWorker::start(name, lab, Listeners::default(), &ConfigState::new());
        let h1_shared = Arc::new(Mutex::new(httplab::Shared::default()));
        let h2_shared = Arc::new(Mutex::new(H2Shared::default()));
        let http_addr = super::free_addr();
        worker.add_http_listener(http_addr, |_| {});
        let https_addr = super::free_addr();
        {
            let mut b = ListenerBuilder::new_https(https_addr.into());
            b.with_front_timeout(Some(worker.lab.front_timeout))
                .with_back_timeout(Some(worker.lab.back_timeout))
                .with_connect_timeout(Some(worker.lab.connect_timeout))
                .with_request_timeout(Some(worker.lab.request_timeout));
            let mut l = b.to_tls(None).expect("https listener config");
            l.certificate = Some(certs::LAB_CERT.to_string());
            l.key = Some(certs::LAB_KEY.to_string());
            l.alpn_protocols = vec!["h2".into(), "http/1.1".into()];
            tweak_https(&mut l);
            worker.must(RequestType::AddHttpsListener(l));
            worker.must(RequestType::AddCertificate(AddCertificate {
                address: https_addr.into(),
                certificate: CertificateAndKey { certificate: certs::LAB_CERT.to_string(), certificate_chain: vec![], key: certs::LAB_KEY.to_string(), versions: vec![], names: vec![] },
                expired_at: None,
            }));
            worker.must(RequestType::ActivateListener(ActivateListener { address: https_addr.into(), proxy: ListenerType::Https.into(), from_scm: false }));
        }
        let mut backends = vec![];
        // c0: HTTP/1.1 backend
        worker.add_cluster("c0", |_| {});
        let (a0, l0) = super::bound_listener();
        worker.add_backend("c0", "c0-0", a0);
        let sh = h1_shared.clone();
        backends.push(Acceptor::spawn(l0, move |conn, stream| httplab::serve_conn(0, conn, stream, sh.clone())));
        // c1: h2c backend
        worker.add_cluster("c1", |c| c.http2 = Some(true));
        let (a1, l1) = super::bound_listener();
        worker.add_backend("c1", "c1-0", a1);
        let sh2 = h2_shared.clone();
        backends.push(Acceptor::spawn(l1, move |conn, stream| serve_h2c(conn, stream, sh2.clone())));
        for (cluster, host) in [("c0", "c0.lab"), ("c1", "c1.lab")] {
            worker.add_http_frontend(cluster, http_addr, host, "/");
            worker.must(RequestType::AddHttpsFrontend(RequestHttpFrontend {
                cluster_id: Some(cluster.to_string()),
                address: https_addr.into(),
                hostname: host.to_string(),
                path: PathRule::prefix("/".to_string()),
                position: RulePosition::Tree.into(),
                ..Default::default()
            }));
        }
        H2Lab { worker, https_addr, http_addr, h1_shared, h2_shared, _backends: backends }
    }

    pub fn reset_plan(&self, h1_actions: BTreeMap<usize, BackendAction>, h1_read: ReadScript, h2: H2Shared) {
        {
            let mut g = self.h1_shared.lock().unwrap();
            g.actions = h1_actions;
            g.read_script = h1_read;
            g.recorded.clear();
            g.raw.clear();
            g.stop_stalls = false;
        }
        *self.h2_shared.lock().unwrap() = h2;
    }

    /// TLS + ALPN h2 client connection with the given settings, handshake done (SETTINGS exchanged)
    pub fn h2_client(&self, sni: &str, mine: Settings) -> Result<H2Conn<rustls::StreamOwned<rustls::ClientConnection, TcpStream>>, String> {
        let (tls, _info) = h2::tls_connect(self.https_addr, sni, &["h2"]).map_err(|e| format!("TLS connect: {e}"))?;
        if tls.conn.alpn_protocol() != Some(b"h2") {
            return Err(format!("ALPN negotiated {:?}, wanted h2", tls.conn.alpn_protocol().map(String::from_utf8_lossy)));
        }
        let mut c = H2Conn::new(tls, false, mine);
        c.start().map_err(|e| format!("send preface: {e}"))?;
        // wait for sozu's SETTINGS
        let deadline = Instant::now() + Duration::from_secs(5);
        let mut got_settings = false;
        while !got_settings {
            match c.next_frame(deadline) {
                H2Event::Frame(f) => {
                    if f.typ == h2::SETTINGS && f.flags & h2::F_ACK == 0 {
                        got_settings = true;
                    }
                }
                H2Event::Timeout => {
                    if Instant::now() >= deadline {
                        return Err("sozu sent no SETTINGS".into());
                    }
                }
                other => return Err(format!("connection ended during the SETTINGS exchange: {other:?}")),
            }
        }
        Ok(c)
    }
}

#[allow(dead_code)]
fn _unused(_: BodyFraming) {}
