//! Generated I/O scripts: how a peer paces its writes and reads (DESIGN §3 `ScriptedStream`).

use std::{
    io::{Read, Write},
    net::TcpStream,
    time::Duration,
};

use proptest::prelude::*;
use serde::{Deserialize, Serialize};

#[derive(Clone, Debug, Serialize, Deserialize, PartialEq)]
pub enum WStep {
    /// write the next n bytes as one write() call
    Write(usize),
    /// sleep
    PauseMs(u16),
}

#[derive(Clone, Debug, Default, Serialize, Deserialize, PartialEq)]
pub struct WriteScript {
    pub steps: Vec<WStep>,
    /// SO_SNDBUF to request (None = default)
    pub sndbuf: Option<u32>,
}

#[derive(Clone, Debug, Serialize, Deserialize, PartialEq)]
pub enum RStep {
    /// next read() is given at most n bytes of buffer
    Read(usize),
    /// do not read for this long (the kernel buffer fills, sozu sees back-pressure)
    StallMs(u16),
}

#[derive(Clone, Debug, Default, Serialize, Deserialize, PartialEq)]
pub struct ReadScript {
    pub steps: Vec<RStep>,
    /// SO_RCVBUF to request (None = default): a bounded buffer plus a read stall forces sozu into
    /// partial writes and WRITABLE re-arming
    pub rcvbuf: Option<u32>,
}

impl WriteScript {
    pub fn total_pause_ms(&self) -> u64 {
        self.steps.iter().map(|s| if let WStep::PauseMs(m) = s { *m as u64 } else { 0 }).sum()
    }
    pub fn plain() -> Self {
        WriteScript::default()
    }
}

impl ReadScript {
    pub fn total_stall_ms(&self) -> u64 {
        self.steps.iter().map(|s| if let RStep::StallMs(m) = s { *m as u64 } else { 0 }).sum()
    }
    pub fn has_stall(&self) -> bool {
        self.total_stall_ms() > 0
    }
}

/// write scripts: single writes, dribbles, pauses; total pause stays below `max_pause_ms`
pub fn write_script(max_pause_ms: u16) -> impl Strategy<Value = WriteScript> {
    let step = prop_oneof![
        4 => prop_oneof![Just(1usize), Just(2), Just(7), Just(9), 1usize..64, 64usize..2048, Just(16384), Just(16393), 2048usize..70000].prop_map(WStep::Write),
        1 => (1u16..=max_pause_ms.max(1)).prop_map(WStep::PauseMs),
    ];
    (
        prop_oneof![2 => Just(vec![]), 3 => prop::collection::vec(step, 1..24)],
        // not below the loopback MSS (65483): smaller buffers make the *kernel* stall for seconds
        // (zero-window probing, silly-window avoidance), which is not the proxy's doing
        prop_oneof![4 => Just(None), 1 => Just(Some(65536u32)), 1 => Just(Some(131072u32))],
    )
        .prop_map(move |(mut steps, sndbuf)| {
            // cap the total pause
            let mut budget = max_pause_ms as u64;
            for s in steps.iter_mut() {
                if let WStep::PauseMs(m) = s {
                    let take = (*m as u64).min(budget);
                    budget -= take;
                    *m = take as u16;
                }
            }
            steps.retain(|s| !matches!(s, WStep::PauseMs(0)));
            WriteScript { steps, sndbuf }
        })
}

/// read scripts: small reads, stalls with small receive buffers; total stall stays below `max_stall_ms`
pub fn read_script(max_stall_ms: u16) -> impl Strategy<Value = ReadScript> {
    let step = prop_oneof![
        4 => prop_oneof![Just(1usize), Just(9), 1usize..256, 256usize..9000, Just(16384), 9000usize..66000].prop_map(RStep::Read),
        1 => (1u16..=max_stall_ms.max(1)).prop_map(RStep::StallMs),
    ];
    (
        prop_oneof![2 => Just(vec![]), 3 => prop::collection::vec(step, 1..24)],
        prop_oneof![3 => Just(None), 1 => Just(Some(65536u32)), 1 => Just(Some(131072u32))],
    )
        .prop_map(move |(mut steps, rcvbuf)| {
            let mut budget = max_stall_ms as u64;
            for s in steps.iter_mut() {
                if let RStep::StallMs(m) = s {
                    let take = (*m as u64).min(budget);
                    budget -= take;
                    *m = take as u16;
                }
            }
            steps.retain(|s| !matches!(s, RStep::StallMs(0)));
            ReadScript { steps, rcvbuf }
        })
}

pub fn set_bufs(stream: &TcpStream, sndbuf: Option<u32>, rcvbuf: Option<u32>) {
    use std::os::fd::AsRawFd;
    let fd = stream.as_raw_fd();
    unsafe {
        if let Some(v) = sndbuf {
            let v = v as libc::c_int;
            libc::setsockopt(fd, libc::SOL_SOCKET, libc::SO_SNDBUF, &v as *const _ as *const libc::c_void, 4);
        }
        if let Some(v) = rcvbuf {
            let v = v as libc::c_int;
            libc::setsockopt(fd, libc::SOL_SOCKET, libc::SO_RCVBUF, &v as *const _ as *const libc::c_void, 4);
        }
    }
}

/// Write `data` to the stream following the script; the rest after the script ends goes in one write.
pub fn write_scripted<W: Write>(w: &mut W, data: &[u8], script: &WriteScript) -> std::io::Result<()> {
    let mut pos = 0;
    for s in &script.steps {
        if pos >= data.len() {
            break;
        }
        match s {
            WStep::Write(n) => {
                let end = (pos + n).min(data.len());
                w.write_all(&data[pos..end])?;
                w.flush()?;
                pos = end;
            }
            WStep::PauseMs(m) => std::thread::sleep(Duration::from_millis(*m as u64)),
        }
    }
    if pos < data.len() {
        w.write_all(&data[pos..])?;
        w.flush()?;
    }
    Ok(())
}

/// A reader that follows a read script, then reads freely.
pub struct ScriptedReader<R: Read> {
    pub inner: R,
    steps: std::collections::VecDeque<RStep>,
}

impl<R: Read> ScriptedReader<R> {
    pub fn new(inner: R, script: &ReadScript) -> Self {
        ScriptedReader { inner, steps: script.steps.iter().cloned().collect() }
    }
}

impl<R: Read> Read for ScriptedReader<R> {
    fn read(&mut self, buf: &mut [u8]) -> std::io::Result<usize> {
        loop {
            match self.steps.pop_front() {
                Some(RStep::StallMs(m)) => std::thread::sleep(Duration::from_millis(m as u64)),
                Some(RStep::Read(n)) => {
                    let n = n.min(buf.len()).max(1);
                    return self.inner.read(&mut buf[..n]);
                }
                None => return self.inner.read(buf),
            }
        }
    }
}
