//! Header lab (C13): a live worker with several plain-HTTP listeners that differ in their header
//! settings, three clusters (plain / sticky / per-frontend header edits) routed by hostname on every
//! listener, and byte-exact HTTP/1.1 peers: header names and values are kept as raw bytes (the
//! reader in `h1.rs` converts them lossily to `String`, which is not injective for obs-text).

use std::{
    io::{Read, Write},
    net::{Ipv4Addr, SocketAddr, TcpStream},
    sync::{Arc, Mutex},
    time::{Duration, Instant},
};

use sozu_command_lib::{
    proto::command::{Header, HeaderPosition, PathRule, RequestHttpFrontend, RulePosition, request::RequestType},
    scm_socket::Listeners,
    state::ConfigState,
};

use super::{LabConfig, LabWorker, h1::Acceptor};

// ------------------------------------------------------------------ configuration

#[derive(Clone, Copy, Debug)]
pub struct ListenerCfg {
    pub elide: bool,
    pub send: bool,
    pub corr: &'static str,
    pub sticky: &'static str,
    pub expect_proxy: bool,
}

pub const CORR_DEFAULT: &str = "Sozu-Id";
pub const CORR_CUSTOM: &str = "X-Edge-Trace";
pub const STICKY_DEFAULT: &str = "SOZUBALANCEID";
pub const STICKY_CUSTOM: &str = "LABSTICK";

pub const LISTENERS: [ListenerCfg; 5] = [
    ListenerCfg { elide: false, send: false, corr: CORR_DEFAULT, sticky: STICKY_DEFAULT, expect_proxy: false },
    ListenerCfg { elide: true, send: true, corr: CORR_DEFAULT, sticky: STICKY_DEFAULT, expect_proxy: false },
    ListenerCfg { elide: false, send: true, corr: CORR_DEFAULT, sticky: STICKY_DEFAULT, expect_proxy: false },
    ListenerCfg { elide: true, send: false, corr: CORR_CUSTOM, sticky: STICKY_CUSTOM, expect_proxy: false },
    ListenerCfg { elide: true, send: true, corr: CORR_DEFAULT, sticky: STICKY_DEFAULT, expect_proxy: true },
];

/// cluster index -> (cluster id, hostname, backend id, sticky)
pub const CLUSTERS: [(&str, &str, &str, bool); 3] =
    [("plain", "plain.lab", "plain-0", false), ("sticky", "sticky.lab", "sticky-0", true), ("edit", "edit.lab", "edit-0", false)];
pub const EDIT_CLUSTER: usize = 2;

/// per-frontend header edits of the `edit` cluster's frontends: (position, key, value); empty value deletes
pub const EDITS: [(HeaderPosition, &str, &str); 6] = [
    (HeaderPosition::Request, "X-Edit-Req", "req-v"),
    (HeaderPosition::Request, "X-Del-Req", ""),
    (HeaderPosition::Response, "X-Edit-Resp", "resp-v"),
    (HeaderPosition::Response, "X-Del-Resp", ""),
    (HeaderPosition::Both, "X-Edit-Both", "both-v"),
    (HeaderPosition::Both, "X-Del-Both", ""),
];

// ------------------------------------------------------------------ raw messages

pub type Fields = Vec<(Vec<u8>, Vec<u8>)>;

#[derive(Clone, Debug, Default)]
pub struct RawMsg {
    pub start: Vec<u8>,
    pub headers: Fields,
    pub body: Vec<u8>,
    pub trailers: Fields,
    /// false: the connection ended before the framing was satisfied
    pub clean: bool,
    pub chunked: bool,
}

impl RawMsg {
    pub fn start_parts(&self) -> Vec<&[u8]> {
        self.start.splitn(3, |b| *b == b' ').collect()
    }
    pub fn status(&self) -> Option<u16> {
        let p = self.start_parts();
        if p.len() < 2 || !p[0].starts_with(b"HTTP/") {
            return None;
        }
        std::str::from_utf8(p[1]).ok()?.parse().ok()
    }
    pub fn values(&self, name: &str) -> Vec<&[u8]> {
        self.headers.iter().filter(|(n, _)| n.eq_ignore_ascii_case(name.as_bytes())).map(|(_, v)| v.as_slice()).collect()
    }
}

#[derive(Debug)]
pub enum RawOut {
    Msg(RawMsg),
    Eof,
    Timeout,
    /// not an HTTP/1.1 message by a strict reading (reason, bytes seen)
    Bad(String, Vec<u8>),
}

pub fn describe(o: &RawOut) -> String {
    match o {
        RawOut::Msg(m) => format!("message {:?} ({} headers, {} body bytes)", lossy(&m.start), m.headers.len(), m.body.len()),
        RawOut::Eof => "connection closed without a byte".into(),
        RawOut::Timeout => "nothing arrived before the deadline".into(),
        RawOut::Bad(why, b) => format!("not HTTP/1.1 ({why}): {:?}", crate::engine::truncate(&lossy(b), 600)),
    }
}

pub fn lossy(b: &[u8]) -> String {
    b.iter().map(|&c| if (0x20..0x7f).contains(&c) { (c as char).to_string() } else { format!("\\x{c:02x}") }).collect()
}

pub fn show_fields(f: &Fields) -> String {
    let v: Vec<String> = f.iter().map(|(n, v)| format!("{}: {}", lossy(n), crate::engine::truncate(&lossy(v), 120))).collect();
    format!("[{}]", v.join(" | "))
}

fn is_tchar(b: u8) -> bool {
    b.is_ascii_alphanumeric() || b"!#$%&'*+-.^_`|~".contains(&b)
}

fn trim_ows(v: &[u8]) -> &[u8] {
    let mut a = 0;
    let mut b = v.len();
    while a < b && (v[a] == b' ' || v[a] == b'\t') {
        a += 1;
    }
    while b > a && (v[b - 1] == b' ' || v[b - 1] == b'\t') {
        b -= 1;
    }
    &v[a..b]
}

fn parse_field_line(line: &[u8]) -> Result<(Vec<u8>, Vec<u8>), String> {
    if line.iter().any(|&b| b == b'\r' || b == b'\n' || b == 0) {
        return Err(format!("CR, LF or NUL inside a field line {:?}", lossy(line)));
    }
    if line[0] == b' ' || line[0] == b'\t' {
        return Err("obs-fold".into());
    }
    let Some(colon) = line.iter().position(|&b| b == b':') else {
        return Err(format!("field line without colon {:?}", lossy(line)));
    };
    let name = &line[..colon];
    if name.is_empty() || !name.iter().all(|&b| is_tchar(b)) {
        return Err(format!("invalid field name {:?}", lossy(name)));
    }
    Ok((name.to_vec(), trim_ows(&line[colon + 1..]).to_vec()))
}

/// A connection read message by message, byte-exact. The stream must have a short read timeout.
pub struct RawConn {
    pub s: TcpStream,
    buf: Vec<u8>,
    pos: usize,
    pub eof: bool,
    pub stop: Option<Arc<Mutex<Shared>>>,
}

enum Fill {
    Got,
    Eof,
    Timeout,
}

impl RawConn {
    pub fn new(s: TcpStream) -> Self {
        RawConn { s, buf: vec![], pos: 0, eof: false, stop: None }
    }

    fn rest(&self) -> &[u8] {
        &self.buf[self.pos..]
    }

    fn fill(&mut self, deadline: Instant) -> Fill {
        if self.eof {
            return Fill::Eof;
        }
        let mut tmp = [0u8; 16384];
        loop {
            match self.s.read(&mut tmp) {
                Ok(0) => {
                    self.eof = true;
                    return Fill::Eof;
                }
                Ok(n) => {
                    self.buf.extend_from_slice(&tmp[..n]);
                    return Fill::Got;
                }
                Err(e) => match e.kind() {
                    std::io::ErrorKind::WouldBlock | std::io::ErrorKind::TimedOut | std::io::ErrorKind::Interrupted => {
                        if Instant::now() >= deadline {
                            return Fill::Timeout;
                        }
                        if let Some(sh) = &self.stop {
                            if sh.lock().unwrap().stop {
                                return Fill::Timeout;
                            }
                        }
                    }
                    _ => {
                        self.eof = true;
                        return Fill::Eof;
                    }
                },
            }
        }
    }

    /// next CRLF-terminated line (without the CRLF); None = connection ended / deadline
    fn line(&mut self, deadline: Instant) -> Option<Vec<u8>> {
        loop {
            if let Some(p) = self.rest().windows(2).position(|w| w == b"\r\n") {
                let l = self.rest()[..p].to_vec();
                self.pos += p + 2;
                return Some(l);
            }
            match self.fill(deadline) {
                Fill::Got => {}
                _ => return None,
            }
        }
    }

    fn take(&mut self, n: usize, deadline: Instant) -> Option<Vec<u8>> {
        while self.rest().len() < n {
            match self.fill(deadline) {
                Fill::Got => {}
                _ => return None,
            }
        }
        let v = self.rest()[..n].to_vec();
        self.pos += n;
        Some(v)
    }

    /// `response`: Some(head_request) when reading a response
    pub fn read_msg(&mut self, response: bool, deadline: Instant) -> RawOut {
        if self.pos > 0 {
            self.buf.drain(..self.pos);
            self.pos = 0;
        }
        // head
        let head_end = loop {
            if let Some(p) = self.rest().windows(4).position(|w| w == b"\r\n\r\n") {
                break p;
            }
            if self.rest().len() > 256 * 1024 {
                return RawOut::Bad("head larger than 256 KiB".into(), self.rest()[..512].to_vec());
            }
            match self.fill(deadline) {
                Fill::Got => {}
                Fill::Eof => return if self.rest().is_empty() { RawOut::Eof } else { RawOut::Bad("connection closed inside a head".into(), self.rest().to_vec()) },
                Fill::Timeout => return if self.rest().is_empty() { RawOut::Timeout } else { RawOut::Bad("deadline inside a head".into(), self.rest().to_vec()) },
            }
        };
        let head = self.rest()[..head_end].to_vec();
        self.pos += head_end + 4;
        let mut lines = split_crlf(&head).into_iter();
        let start = lines.next().unwrap_or_default();
        if start.is_empty() || start.iter().any(|&b| b == b'\r' || b == b'\n' || b == 0) {
            return RawOut::Bad("bad start line".into(), head);
        }
        let mut msg = RawMsg { start, clean: true, ..Default::default() };
        for l in lines {
            if l.is_empty() {
                return RawOut::Bad("empty line inside the head".into(), head);
            }
            match parse_field_line(&l) {
                Ok(f) => msg.headers.push(f),
                Err(why) => return RawOut::Bad(why, head),
            }
        }
        // framing
        let te: Vec<u8> = msg.values("transfer-encoding").join(&b","[..]);
        let chunked = te.split(|b| *b == b',').map(trim_ows).filter(|t| !t.is_empty()).last().map(|t| t.eq_ignore_ascii_case(b"chunked")).unwrap_or(false);
        let cls = msg.values("content-length");
        let mut cl: Option<usize> = None;
        for v in &cls {
            let Some(n) = std::str::from_utf8(v).ok().filter(|s| !s.is_empty() && s.bytes().all(|b| b.is_ascii_digit())).and_then(|s| s.parse::<usize>().ok()) else {
                return RawOut::Bad(format!("invalid Content-Length {:?}", lossy(v)), head);
            };
            if cl.is_some() && cl != Some(n) {
                return RawOut::Bad("conflicting Content-Length".into(), head);
            }
            cl = Some(n);
        }
        if chunked && cl.is_some() {
            return RawOut::Bad("both Transfer-Encoding: chunked and Content-Length".into(), head);
        }
        let bodiless = response && matches!(msg.status(), Some(100..=199 | 204 | 304));
        if bodiless {
            return RawOut::Msg(msg);
        }
        if chunked {
            msg.chunked = true;
            loop {
                let Some(l) = self.line(deadline) else {
                    msg.clean = false;
                    return RawOut::Msg(msg);
                };
                let size_txt = l.split(|b| *b == b';').next().unwrap_or(b"");
                let Some(size) = std::str::from_utf8(size_txt).ok().filter(|s| !s.is_empty() && s.len() < 9).and_then(|s| usize::from_str_radix(s, 16).ok()) else {
                    return RawOut::Bad(format!("invalid chunk size line {:?}", lossy(&l)), l);
                };
                if size == 0 {
                    loop {
                        let Some(t) = self.line(deadline) else {
                            msg.clean = false;
                            return RawOut::Msg(msg);
                        };
                        if t.is_empty() {
                            return RawOut::Msg(msg);
                        }
                        match parse_field_line(&t) {
                            Ok(f) => msg.trailers.push(f),
                            Err(why) => return RawOut::Bad(format!("trailer section: {why}"), t),
                        }
                    }
                }
                let Some(data) = self.take(size + 2, deadline) else {
                    msg.clean = false;
                    return RawOut::Msg(msg);
                };
                if &data[size..] != b"\r\n" {
                    return RawOut::Bad("chunk data not followed by CRLF".into(), data);
                }
                msg.body.extend_from_slice(&data[..size]);
            }
        } else if let Some(n) = cl {
            match self.take(n, deadline) {
                Some(b) => msg.body = b,
                None => msg.clean = false,
            }
            RawOut::Msg(msg)
        } else if response {
            // close-delimited
            loop {
                match self.fill(deadline) {
                    Fill::Got => {}
                    Fill::Eof => break,
                    Fill::Timeout => {
                        msg.clean = false;
                        break;
                    }
                }
            }
            msg.body = self.rest().to_vec();
            self.pos = self.buf.len();
            RawOut::Msg(msg)
        } else {
            RawOut::Msg(msg)
        }
    }
}

fn split_crlf(head: &[u8]) -> Vec<Vec<u8>> {
    let mut out = vec![];
    let mut start = 0;
    let mut i = 0;
    while i + 1 < head.len() {
        if head[i] == b'\r' && head[i + 1] == b'\n' {
            out.push(head[start..i].to_vec());
            start = i + 2;
            i += 2;
        } else {
            i += 1;
        }
    }
    out.push(head[start..].to_vec());
    out
}

/// serialise a message: start line, fields, body framed by Content-Length or as chunks (+ trailers)
pub fn build_msg(start: &str, fields: &Fields, body: Option<&[u8]>, chunked: bool, trailers: &Fields) -> Vec<u8> {
    let mut v = Vec::new();
    v.extend_from_slice(start.as_bytes());
    v.extend_from_slice(b"\r\n");
    let put = |v: &mut Vec<u8>, n: &[u8], val: &[u8]| {
        v.extend_from_slice(n);
        v.extend_from_slice(b": ");
        v.extend_from_slice(val);
        v.extend_from_slice(b"\r\n");
    };
    for (n, val) in fields {
        put(&mut v, n, val);
    }
    v.extend_from_slice(b"\r\n");
    if let Some(body) = body {
        if chunked {
            let mut pos = 0;
            let mut step = 7usize;
            while pos < body.len() {
                let n = step.min(body.len() - pos);
                v.extend_from_slice(format!("{n:x}\r\n").as_bytes());
                v.extend_from_slice(&body[pos..pos + n]);
                v.extend_from_slice(b"\r\n");
                pos += n;
                step = step * 3 + 1;
            }
            v.extend_from_slice(b"0\r\n");
            for (n, val) in trailers {
                put(&mut v, n, val);
            }
            v.extend_from_slice(b"\r\n");
        } else {
            v.extend_from_slice(body);
        }
    }
    v
}

// ------------------------------------------------------------------ mock backends

#[derive(Clone, Debug)]
pub struct RespPlan {
    pub status: u16,
    /// complete field list except framing (the backend adds Content-Length / Transfer-Encoding)
    pub headers: Fields,
    pub body: Vec<u8>,
    pub chunked: bool,
}

#[derive(Clone, Debug)]
pub struct Recorded {
    pub backend: usize,
    pub conn: usize,
    pub msg: RawMsg,
}

#[derive(Default)]
pub struct Shared {
    pub next: Option<RespPlan>,
    pub recorded: Vec<Recorded>,
    pub garbage: Vec<String>,
    pub stop: bool,
}

pub fn reason(status: u16) -> &'static str {
    match status {
        200 => "OK",
        201 => "Created",
        204 => "No Content",
        302 => "Found",
        304 => "Not Modified",
        404 => "Not Found",
        500 => "Internal Server Error",
        _ => "Status",
    }
}

pub fn response_bytes(plan: &RespPlan) -> Vec<u8> {
    let mut fields = plan.headers.clone();
    let bodiless = matches!(plan.status, 204 | 304);
    if !bodiless {
        if plan.chunked {
            fields.push((b"Transfer-Encoding".to_vec(), b"chunked".to_vec()));
        } else {
            fields.push((b"Content-Length".to_vec(), plan.body.len().to_string().into_bytes()));
        }
    }
    build_msg(&format!("HTTP/1.1 {} {}", plan.status, reason(plan.status)), &fields, if bodiless { None } else { Some(&plan.body) }, plan.chunked, &vec![])
}

fn serve(backend: usize, conn: usize, stream: TcpStream, shared: Arc<Mutex<Shared>>) {
    let mut w = stream.try_clone().expect("clone");
    let mut c = RawConn::new(stream);
    c.stop = Some(shared.clone());
    loop {
        match c.read_msg(false, Instant::now() + Duration::from_secs(30)) {
            RawOut::Msg(m) => {
                let clean = m.clean;
                let plan = {
                    let mut g = shared.lock().unwrap();
                    g.recorded.push(Recorded { backend, conn, msg: m });
                    g.next.take()
                };
                if !clean {
                    return;
                }
                let plan = plan.unwrap_or(RespPlan { status: 200, headers: vec![(b"x-lab-unplanned".to_vec(), b"1".to_vec())], body: vec![], chunked: false });
                if w.write_all(&response_bytes(&plan)).is_err() {
                    return;
                }
                let _ = w.flush();
            }
            RawOut::Eof | RawOut::Timeout => return,
            RawOut::Bad(why, bytes) => {
                shared.lock().unwrap().garbage.push(format!("backend {backend}: {why}: {:?}", crate::engine::truncate(&lossy(&bytes), 400)));
                return;
            }
        }
    }
}

// ------------------------------------------------------------------ the lab

pub struct HdrLab {
    pub worker: LabWorker,
    pub addrs: Vec<SocketAddr>,
    pub backends: Vec<Acceptor>,
    pub shared: Arc<Mutex<Shared>>,
}

impl HdrLab {
    pub fn new(name: &str, lab: LabConfig) -> HdrLab {
        let mut worker = LabWorker::start(name, lab, Listeners::default(), &ConfigState::new());
        let shared = Arc::new(Mutex::new(Shared::default()));
        let mut backends = vec![];
        for (i, (cluster, _, backend_id, sticky)) in CLUSTERS.iter().enumerate() {
            worker.add_cluster(cluster, |c| c.sticky_session = *sticky);
            let (addr, listener) = super::bound_listener();
            worker.add_backend(cluster, backend_id, addr);
            let sh = shared.clone();
            backends.push(Acceptor::spawn(listener, move |conn, stream| serve(i, conn, stream, sh.clone())));
        }
        let mut addrs = vec![];
        for cfg in LISTENERS.iter() {
            let addr = super::free_addr();
            worker.add_http_listener(addr, |l| {
                l.expect_proxy = cfg.expect_proxy;
                l.sticky_name = cfg.sticky.to_string();
                l.elide_x_real_ip = Some(cfg.elide);
                l.send_x_real_ip = Some(cfg.send);
                if cfg.corr != CORR_DEFAULT {
                    l.sozu_id_header = Some(cfg.corr.to_string());
                }
            });
            for (i, (cluster, host, _, _)) in CLUSTERS.iter().enumerate() {
                let headers = if i == EDIT_CLUSTER {
                    EDITS.iter().map(|(p, k, v)| Header { position: (*p).into(), key: k.to_string(), val: v.to_string() }).collect()
                } else {
                    vec![]
                };
                worker.must(RequestType::AddHttpFrontend(RequestHttpFrontend {
                    cluster_id: Some(cluster.to_string()),
                    address: addr.into(),
                    hostname: host.to_string(),
                    path: PathRule::prefix("/".to_string()),
                    position: RulePosition::Tree.into(),
                    headers,
                    ..Default::default()
                }));
            }
            addrs.push(addr);
        }
        HdrLab { worker, addrs, backends, shared }
    }

    pub fn reset(&self) {
        let mut g = self.shared.lock().unwrap();
        g.next = None;
        g.recorded.clear();
        g.garbage.clear();
    }
}

impl Drop for HdrLab {
    fn drop(&mut self) {
        self.shared.lock().unwrap().stop = true;
    }
}

/// connect to `dst` from the loopback source address `src` (any 127/8 address is local on Linux)
pub fn connect_from(src: Ipv4Addr, dst: SocketAddr) -> std::io::Result<TcpStream> {
    use std::os::fd::FromRawFd;
    let SocketAddr::V4(dst4) = dst else {
        return Err(std::io::Error::other("IPv4 destination expected"));
    };
    unsafe {
        let fd = libc::socket(libc::AF_INET, libc::SOCK_STREAM | libc::SOCK_CLOEXEC, 0);
        if fd < 0 {
            return Err(std::io::Error::last_os_error());
        }
        let stream = TcpStream::from_raw_fd(fd);
        let mk = |ip: Ipv4Addr, port: u16| libc::sockaddr_in { sin_family: libc::AF_INET as u16, sin_port: port.to_be(), sin_addr: libc::in_addr { s_addr: u32::from(ip).to_be() }, sin_zero: [0; 8] };
        // choose the source port at connect() time (unique per 4-tuple), not at bind() time (unique per source
        // address over all destinations): thousands of short connections would exhaust the ephemeral range
        let one: libc::c_int = 1;
        libc::setsockopt(fd, libc::IPPROTO_IP, libc::IP_BIND_ADDRESS_NO_PORT, &one as *const _ as *const libc::c_void, 4);
        let sa = mk(src, 0);
        if libc::bind(fd, &sa as *const _ as *const libc::sockaddr, std::mem::size_of::<libc::sockaddr_in>() as u32) != 0 {
            return Err(std::io::Error::last_os_error());
        }
        let da = mk(*dst4.ip(), dst4.port());
        if libc::connect(fd, &da as *const _ as *const libc::sockaddr, std::mem::size_of::<libc::sockaddr_in>() as u32) != 0 {
            return Err(std::io::Error::last_os_error());
        }
        stream.set_nodelay(true)?;
        stream.set_read_timeout(Some(Duration::from_millis(100)))?;
        stream.set_write_timeout(Some(Duration::from_secs(10)))?;
        Ok(stream)
    }
}

/// PROXY protocol v2 header, command PROXY, TCP over IPv4 or IPv6 (both addresses of one family)
pub fn proxy_v2(src: SocketAddr, dst: SocketAddr) -> Vec<u8> {
    let mut v = vec![0x0D, 0x0A, 0x0D, 0x0A, 0x00, 0x0D, 0x0A, 0x51, 0x55, 0x49, 0x54, 0x0A, 0x21];
    match (src, dst) {
        (SocketAddr::V4(s), SocketAddr::V4(d)) => {
            v.push(0x11);
            v.extend_from_slice(&12u16.to_be_bytes());
            v.extend_from_slice(&s.ip().octets());
            v.extend_from_slice(&d.ip().octets());
            v.extend_from_slice(&s.port().to_be_bytes());
            v.extend_from_slice(&d.port().to_be_bytes());
        }
        (SocketAddr::V6(s), SocketAddr::V6(d)) => {
            v.push(0x21);
            v.extend_from_slice(&36u16.to_be_bytes());
            v.extend_from_slice(&s.ip().octets());
            v.extend_from_slice(&d.ip().octets());
            v.extend_from_slice(&s.port().to_be_bytes());
            v.extend_from_slice(&d.port().to_be_bytes());
        }
        _ => panic!("harness: mixed address families in a PROXY header"),
    }
    v
}
