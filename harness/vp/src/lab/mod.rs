//! wire lab
