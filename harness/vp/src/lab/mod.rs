//! Wire lab (DESIGN §3): a real sozu worker running in a thread of this process — exactly as the
//! repository's e2e crate runs it — between scripted peers the harness owns. One lab per OS
//! process (see engine::shard): sozu-lib keeps process-global state.

pub mod h1;
pub mod h2;
pub mod h2lab;
pub mod hdrlab;
pub mod httplab;
pub mod script;

use std::{
    net::{SocketAddr, TcpListener},
    os::fd::IntoRawFd,
    sync::atomic::{AtomicU16, Ordering},
    thread::JoinHandle,
    time::{Duration, Instant},
};

use mio::net::UnixStream;
use sozu_command_lib::{
    channel::Channel,
    config::{ConfigBuilder, FileConfig, ListenerBuilder},
    proto::command::{
        ActivateListener, AddBackend, Cluster, ListenerType, LoadBalancingParams, PathRule, Request,
        RequestHttpFrontend, RequestTcpFrontend, ResponseStatus, RulePosition, ServerConfig, WorkerRequest,
        WorkerResponse, request::RequestType,
    },
    scm_socket::{Listeners, ScmSocket},
    state::ConfigState,
};
use sozu_lib::server::Server;

// ------------------------------------------------------------------ ports

static PORT_CURSOR: AtomicU16 = AtomicU16::new(0);
static PORT_BASE: AtomicU16 = AtomicU16::new(11000);
// 16 disjoint ranges between 11000 and 31800, below the ephemeral range (32768..)
const PORTS_PER_SHARD: u16 = 1300;

/// Give this process (shard `i` of a sharded run) its own port range below the ephemeral range.
pub fn init_ports(shard: usize) {
    PORT_BASE.store(11000 + (shard as u16 % 16) * PORTS_PER_SHARD, Ordering::SeqCst);
    // start at a pid-dependent offset so two consecutive runs do not fight over TIME_WAIT ports
    PORT_CURSOR.store((std::process::id() % 700) as u16, Ordering::SeqCst);
}

/// A loopback address whose port is free right now (probed by binding), from this shard's range.
pub fn free_addr() -> SocketAddr {
    for _ in 0..PORTS_PER_SHARD as usize * 2 {
        let off = PORT_CURSOR.fetch_add(1, Ordering::SeqCst) % PORTS_PER_SHARD;
        let addr = SocketAddr::from(([127, 0, 0, 1], PORT_BASE.load(Ordering::SeqCst) + off));
        if let Ok(l) = TcpListener::bind(addr) {
            drop(l);
            return addr;
        }
    }
    panic!("harness: no free port in this shard's range");
}

/// Reserve a loopback address by binding it (returned listener keeps it).
pub fn bound_listener() -> (SocketAddr, TcpListener) {
    for _ in 0..PORTS_PER_SHARD as usize * 2 {
        let off = PORT_CURSOR.fetch_add(1, Ordering::SeqCst) % PORTS_PER_SHARD;
        let addr = SocketAddr::from(([127, 0, 0, 1], PORT_BASE.load(Ordering::SeqCst) + off));
        if let Ok(l) = TcpListener::bind(addr) {
            return (addr, l);
        }
    }
    panic!("harness: no free port in this shard's range");
}

// ------------------------------------------------------------------ worker

#[derive(Clone, Debug)]
pub struct LabConfig {
    pub max_connections: u64,
    pub buffer_size: u64,
    pub min_buffers: u64,
    pub max_buffers: u64,
    pub front_timeout: u32,
    pub back_timeout: u32,
    pub connect_timeout: u32,
    pub request_timeout: u32,
    pub zombie_check_interval: u32,
    pub accept_queue_timeout: u32,
    pub max_connections_per_ip: u64,
    pub evict_on_queue_full: bool,
}

impl Default for LabConfig {
    fn default() -> Self {
        LabConfig {
            max_connections: 500,
            buffer_size: 16393,
            min_buffers: 1,
            max_buffers: 1000,
            front_timeout: 4,
            back_timeout: 3,
            connect_timeout: 1,
            request_timeout: 3,
            zombie_check_interval: 5,
            accept_queue_timeout: 5,
            max_connections_per_ip: 0,
            evict_on_queue_full: false,
        }
    }
}

pub fn server_config(lc: &LabConfig) -> ServerConfig {
    let config = ConfigBuilder::new(FileConfig::default(), "").into_config().expect("default config");
    let mut sc = ServerConfig::from(&config);
    sc.max_connections = lc.max_connections;
    sc.buffer_size = lc.buffer_size;
    sc.min_buffers = lc.min_buffers;
    sc.max_buffers = lc.max_buffers;
    sc.front_timeout = lc.front_timeout;
    sc.back_timeout = lc.back_timeout;
    sc.connect_timeout = lc.connect_timeout;
    sc.zombie_check_interval = lc.zombie_check_interval;
    sc.accept_queue_timeout = lc.accept_queue_timeout;
    sc.max_connections_per_ip = Some(lc.max_connections_per_ip);
    sc.evict_on_queue_full = Some(lc.evict_on_queue_full);
    sc.log_level = "error".into();
    sc
}

pub struct LabWorker {
    pub lab: LabConfig,
    pub channel: Channel<WorkerRequest, WorkerResponse>,
    pub scm_main: ScmSocket,
    pub thread: Option<JoinHandle<()>>,
    /// mirror of what was sent and accepted (the main process's view)
    pub state: ConfigState,
    next_id: u64,
    pub name: String,
    /// every response seen, in order of arrival
    pub responses: Vec<WorkerResponse>,
}

#[derive(Debug)]
pub enum LabError {
    /// the worker did not answer within the deadline
    Timeout(String),
    /// the command channel failed
    Channel(String),
    /// the worker thread is gone (panicked or returned)
    WorkerDied(String),
}

impl LabWorker {
    pub fn start(name: &str, lab: LabConfig, listeners: Listeners, initial: &ConfigState) -> LabWorker {
        let config = server_config(&lab);
        let (scm_main, scm_worker) = UnixStream::pair().expect("scm pair");
        let (cmd_main, cmd_worker) =
            Channel::generate(config.command_buffer_size, config.max_command_buffer_size).expect("channel pair");
        let scm_main = ScmSocket::new(scm_main.into_raw_fd()).expect("scm main");
        let scm_worker = ScmSocket::new(scm_worker.into_raw_fd()).expect("scm worker");
        scm_main.send_listeners(&listeners).expect("send listeners");
        listeners.close();
        let initial_state = initial.produce_initial_state();
        let thread_config = config.clone();
        let tname = name.to_string();
        let thread = std::thread::Builder::new()
            .name(format!("sozu-{name}"))
            .spawn(move || {
                if let Ok(level) = std::env::var("VP_LAB_LOG") {
                    let _ = sozu_command_lib::logging::setup_default_logging(false, &level, &tname);
                }
                let mut server = Server::try_new_from_config(cmd_worker, scm_worker, thread_config, initial_state, false)
                    .expect("could not create the sozu worker");
                server.run();
                let _ = tname;
            })
            .expect("spawn worker");
        let mut channel = cmd_main;
        channel.blocking().expect("blocking channel");
        LabWorker {
            lab,
            channel,
            scm_main,
            thread: Some(thread),
            state: initial.clone(),
            next_id: 0,
            name: name.to_string(),
            responses: vec![],
        }
    }

    /// value of one of the worker's counters (QueryMetrics over the command channel), None when it was never bumped
    pub fn counter(&mut self, name: &str) -> Option<i64> {
        use sozu_command_lib::proto::command::{filtered_metrics::Inner, response_content::ContentType, QueryMetricsOptions};
        let opts = QueryMetricsOptions { list: false, cluster_ids: vec![], backend_ids: vec![], metric_names: vec![name.to_string()], no_clusters: true, workers: false };
        let r = self.request(RequestType::QueryMetrics(opts)).ok()?;
        let Some(ContentType::WorkerMetrics(wm)) = r.content.and_then(|c| c.content_type) else { return None };
        match wm.proxy.get(name).and_then(|m| m.inner.clone()) {
            Some(Inner::Count(v)) => Some(v),
            Some(Inner::Gauge(v)) => Some(v as i64),
            _ => None,
        }
    }

    pub fn alive(&self) -> bool {
        self.thread.as_ref().map(|t| !t.is_finished()).unwrap_or(false)
    }

    pub fn fresh_id(&mut self) -> String {
        self.next_id += 1;
        format!("LAB-{}-{}", self.name, self.next_id)
    }

    /// send without waiting
    pub fn send_with_id(&mut self, id: &str, request: Request) -> Result<(), LabError> {
        self.channel
            .write_message(&WorkerRequest { id: id.to_string(), content: request })
            .map_err(|e| LabError::Channel(e.to_string()))
    }

    /// read the next response (any id)
    pub fn read_response(&mut self, timeout: Duration) -> Result<WorkerResponse, LabError> {
        match self.channel.read_message_blocking_timeout(Some(timeout)) {
            Ok(r) => {
                self.responses.push(r.clone());
                Ok(r)
            }
            Err(e) => {
                if !self.alive() {
                    Err(LabError::WorkerDied(e.to_string()))
                } else {
                    Err(LabError::Timeout(e.to_string()))
                }
            }
        }
    }

    /// send one request and wait for its final (Ok / Failure) answer
    pub fn request(&mut self, request: RequestType) -> Result<WorkerResponse, LabError> {
        let id = self.fresh_id();
        let req: Request = request.into();
        self.send_with_id(&id, req.clone())?;
        let deadline = Instant::now() + Duration::from_secs(8);
        loop {
            let left = deadline.saturating_duration_since(Instant::now());
            if left.is_zero() {
                return Err(LabError::Timeout(format!("no final answer for {id}")));
            }
            let r = self.read_response(left)?;
            if r.id == id && r.status != ResponseStatus::Processing as i32 {
                if r.status == ResponseStatus::Ok as i32 {
                    let _ = self.state.dispatch(&req);
                }
                return Ok(r);
            }
        }
    }

    /// request that must succeed (harness set-up): panics (→ inconclusive) otherwise
    pub fn must(&mut self, request: RequestType) -> WorkerResponse {
        let dbg = format!("{request:?}");
        match self.request(request) {
            Ok(r) if r.status == ResponseStatus::Ok as i32 => r,
            Ok(r) => panic!("harness: set-up request failed: {} — {}", r.message, crate::engine::truncate(&dbg, 300)),
            Err(e) => panic!("harness: set-up request got no answer: {e:?} — {}", crate::engine::truncate(&dbg, 300)),
        }
    }

    /// Hard-stop the worker and join its thread. Ok(true) = exited cleanly, Ok(false) = still running
    /// after the deadline, Err = the worker thread panicked (message).
    pub fn stop(&mut self, deadline: Duration) -> Result<bool, String> {
        let id = self.fresh_id();
        let _ = self.send_with_id(&id, RequestType::HardStop(Default::default()).into());
        let end = Instant::now() + deadline;
        while Instant::now() < end {
            if !self.alive() {
                break;
            }
            let _ = self.channel.read_message_blocking_timeout(Some(Duration::from_millis(50)));
        }
        self.join()
    }

    pub fn join(&mut self) -> Result<bool, String> {
        if self.alive() {
            return Ok(false);
        }
        match self.thread.take() {
            None => Ok(true),
            Some(t) => match t.join() {
                Ok(()) => Ok(true),
                Err(_) => {
                    let (loc, msg) = crate::engine::take_last_panic().or_else(crate::engine::take_last_panic_any_thread).unwrap_or(("?".into(), "?".into()));
                    Err(format!("worker thread panicked at {loc}: {msg}"))
                }
            },
        }
    }

    // ---------------------------------------------------------------- set-up helpers

    pub fn add_http_listener(&mut self, addr: SocketAddr, tweak: impl FnOnce(&mut sozu_command_lib::proto::command::HttpListenerConfig)) {
        let mut b = ListenerBuilder::new_http(addr.into());
        b.with_front_timeout(Some(self.lab.front_timeout))
            .with_back_timeout(Some(self.lab.back_timeout))
            .with_connect_timeout(Some(self.lab.connect_timeout))
            .with_request_timeout(Some(self.lab.request_timeout));
        let mut l = b.to_http(None).expect("http listener config");
        tweak(&mut l);
        self.must(RequestType::AddHttpListener(l));
        self.must(RequestType::ActivateListener(ActivateListener { address: addr.into(), proxy: ListenerType::Http.into(), from_scm: false }));
    }

    pub fn add_tcp_listener(&mut self, addr: SocketAddr, tweak: impl FnOnce(&mut sozu_command_lib::proto::command::TcpListenerConfig)) {
        let mut b = ListenerBuilder::new_tcp(addr.into());
        b.with_front_timeout(Some(self.lab.front_timeout))
            .with_back_timeout(Some(self.lab.back_timeout))
            .with_connect_timeout(Some(self.lab.connect_timeout));
        let mut l = b.to_tcp(None).expect("tcp listener config");
        tweak(&mut l);
        self.must(RequestType::AddTcpListener(l));
        self.must(RequestType::ActivateListener(ActivateListener { address: addr.into(), proxy: ListenerType::Tcp.into(), from_scm: false }));
    }

    pub fn add_cluster(&mut self, id: &str, tweak: impl FnOnce(&mut Cluster)) {
        let mut c = Cluster { cluster_id: id.to_string(), sticky_session: false, https_redirect: false, ..Default::default() };
        tweak(&mut c);
        self.must(RequestType::AddCluster(c));
    }

    pub fn add_http_frontend(&mut self, cluster: &str, addr: SocketAddr, host: &str, path: &str) {
        self.must(RequestType::AddHttpFrontend(RequestHttpFrontend {
            cluster_id: Some(cluster.to_string()),
            address: addr.into(),
            hostname: host.to_string(),
            path: PathRule::prefix(path.to_string()),
            position: RulePosition::Tree.into(),
            ..Default::default()
        }));
    }

    pub fn add_tcp_frontend(&mut self, cluster: &str, addr: SocketAddr) {
        self.must(RequestType::AddTcpFrontend(RequestTcpFrontend { cluster_id: cluster.to_string(), address: addr.into(), ..Default::default() }));
    }

    pub fn add_backend(&mut self, cluster: &str, id: &str, addr: SocketAddr) {
        self.must(RequestType::AddBackend(AddBackend {
            cluster_id: cluster.to_string(),
            backend_id: id.to_string(),
            address: addr.into(),
            load_balancing_parameters: Some(LoadBalancingParams::default()),
            sticky_id: None,
            backup: None,
        }));
    }

    pub fn remove_backend(&mut self, cluster: &str, id: &str, addr: SocketAddr) {
        self.must(RequestType::RemoveBackend(sozu_command_lib::proto::command::RemoveBackend {
            cluster_id: cluster.to_string(),
            backend_id: id.to_string(),
            address: addr.into(),
        }));
    }
}

impl Drop for LabWorker {
    fn drop(&mut self) {
        if self.alive() {
            let _ = self.stop(Duration::from_secs(3));
        }
    }
}
