//! HTTP lab: a live worker with one HTTP listener, clusters routed by hostname, and programmable
//! HTTP/1.1 mock backends that record what they receive (used by C01, C02, C03, C13).

use std::{
    collections::BTreeMap,
    io::Write,
    net::{SocketAddr, TcpStream},
    sync::{Arc, Mutex},
    time::{Duration, Instant},
};

use serde::{Deserialize, Serialize};
use sozu_command_lib::{scm_socket::Listeners, state::ConfigState};

use super::{
    LabConfig, LabWorker,
    h1::{self, Acceptor, BodyFraming, H1Conn, H1Message, Kind, ReadOutcome},
    script::{self, ReadScript, ScriptedReader, WriteScript},
};

/// What a mock backend does with the request carrying `x-lab-req: <n>`.
#[derive(Clone, Debug, Serialize, Deserialize)]
pub enum BackendAction {
    Respond {
        status: u16,
        headers: Vec<(String, String)>,
        body_seed: u64,
        body_len: usize,
        framing: BodyFraming,
        write: WriteScript,
        /// close the connection after this response
        close_after: bool,
        /// send only this many bytes of the serialised response, then close (None = all)
        cut_at: Option<usize>,
        /// reset instead of closing when cutting
        reset: bool,
    },
    /// close the connection without a byte once the request has been read
    CloseWithoutAnswer,
    /// read the request, never answer (until the harness stops the backend)
    Stall,
    /// answer with bytes that are not HTTP
    Garbage(Vec<u8>),
}

impl BackendAction {
    pub fn ok(body_seed: u64, body_len: usize, framing: BodyFraming) -> Self {
        BackendAction::Respond { status: 200, headers: vec![], body_seed, body_len, framing, write: WriteScript::default(), close_after: false, cut_at: None, reset: false }
    }
}

#[derive(Clone, Debug)]
pub struct Recorded {
    pub backend: usize,
    pub conn: usize,
    /// the request as the mock backend's strict reader saw it (None: unreadable, see `invalid`)
    pub msg: Option<H1Message>,
    pub invalid: Option<String>,
    pub lab_req: Option<usize>,
}

#[derive(Default)]
pub struct Shared {
    pub actions: BTreeMap<usize, BackendAction>,
    pub read_script: ReadScript,
    pub recorded: Vec<Recorded>,
    /// raw bytes per (backend, conn)
    pub raw: BTreeMap<(usize, usize), Vec<u8>>,
    pub stop_stalls: bool,
}

pub struct HttpLab {
    pub worker: LabWorker,
    pub http_addr: SocketAddr,
    pub backends: Vec<Acceptor>,
    pub backend_addrs: Vec<SocketAddr>,
    pub shared: Arc<Mutex<Shared>>,
}

pub fn response_bytes(action: &BackendAction) -> (Vec<u8>, Vec<u8>) {
    match action {
        BackendAction::Respond { status, headers, body_seed, body_len, framing, .. } => {
            let body = h1::content(*body_seed, *body_len);
            let (extra, wire) = h1::encode_body(&body, framing, &[]);
            let reason = match status {
                200 => "OK",
                204 => "No Content",
                404 => "Not Found",
                500 => "Internal Server Error",
                _ => "Status",
            };
            let mut hs: Vec<(String, String)> = headers.clone();
            hs.extend(extra);
            let mut v = h1::build_head(&format!("HTTP/1.1 {status} {reason}"), &hs);
            v.extend_from_slice(&wire);
            (v, body)
        }
        BackendAction::Garbage(g) => (g.clone(), vec![]),
        _ => (vec![], vec![]),
    }
}

pub fn serve_conn(backend: usize, conn: usize, stream: TcpStream, shared: Arc<Mutex<Shared>>) {
    let read_script = shared.lock().unwrap().read_script.clone();
    script::set_bufs(&stream, None, read_script.rcvbuf);
    let mut w = stream.try_clone().expect("clone");
    let mut c = H1Conn::new(ScriptedReader::new(stream, &read_script));
    loop {
        let outcome = c.next_message(Kind::Request, Instant::now() + Duration::from_secs(8));
        shared.lock().unwrap().raw.insert((backend, conn), c.raw.clone());
        let msg = match outcome {
            ReadOutcome::Message(m) => m,
            ReadOutcome::Eof | ReadOutcome::IdleTimeout | ReadOutcome::Reset(_) => return,
            ReadOutcome::Invalid(why, _) => {
                shared.lock().unwrap().recorded.push(Recorded { backend, conn, msg: None, invalid: Some(why), lab_req: None });
                return;
            }
        };
        let lab_req = msg.header("x-lab-req").and_then(|v| v.trim().parse::<usize>().ok());
        let truncated = msg.end != h1::End::Clean;
        let action = {
            let mut g = shared.lock().unwrap();
            g.recorded.push(Recorded { backend, conn, msg: Some(msg), invalid: None, lab_req });
            lab_req.and_then(|n| g.actions.get(&n).cloned()).unwrap_or_else(|| BackendAction::ok(0, 0, BodyFraming::ContentLength))
        };
        if truncated {
            return;
        }
        match &action {
            BackendAction::CloseWithoutAnswer => return,
            BackendAction::Stall => {
                let end = Instant::now() + Duration::from_secs(20);
                while Instant::now() < end && !shared.lock().unwrap().stop_stalls {
                    std::thread::sleep(Duration::from_millis(10));
                }
                return;
            }
            BackendAction::Garbage(_) => {
                let (bytes, _) = response_bytes(&action);
                let _ = w.write_all(&bytes);
                std::thread::sleep(Duration::from_millis(50));
                return;
            }
            BackendAction::Respond { write, close_after, cut_at, reset, framing, .. } => {
                let (bytes, _) = response_bytes(&action);
                script::set_bufs(&w, write.sndbuf, None);
                let to_send = match cut_at {
                    Some(n) => &bytes[..(*n).min(bytes.len())],
                    None => &bytes[..],
                };
                let _ = script::write_scripted(&mut w, to_send, write);
                if cut_at.is_some() {
                    if *reset {
                        h1::reset(w);
                    }
                    return;
                }
                if *close_after || *framing == BodyFraming::CloseDelimited {
                    return;
                }
            }
        }
    }
}

impl HttpLab {
    /// `clusters`: number of clusters, each with one H1 mock backend; cluster i is routed by host `c<i>.lab`.
    pub fn new(name: &str, lab: LabConfig, clusters: usize) -> HttpLab {
        let mut worker = LabWorker::start(name, lab, Listeners::default(), &ConfigState::new());
        let shared = Arc::new(Mutex::new(Shared::default()));
        let http_addr = super::free_addr();
        worker.add_http_listener(http_addr, |_| {});
        let mut backends = vec![];
        let mut backend_addrs = vec![];
        for i in 0..clusters {
            let cluster = format!("c{i}");
            worker.add_cluster(&cluster, |_| {});
            worker.add_http_frontend(&cluster, http_addr, &format!("c{i}.lab"), "/");
            let (addr, listener) = super::bound_listener();
            worker.add_backend(&cluster, &format!("{cluster}-0"), addr);
            let sh = shared.clone();
            backends.push(Acceptor::spawn(listener, move |conn, stream| serve_conn(i, conn, stream, sh.clone())));
            backend_addrs.push(addr);
        }
        HttpLab { worker, http_addr, backends, backend_addrs, shared }
    }

    pub fn reset_plan(&self, actions: BTreeMap<usize, BackendAction>, read_script: ReadScript) {
        let mut g = self.shared.lock().unwrap();
        g.actions = actions;
        g.read_script = read_script;
        g.recorded.clear();
        g.raw.clear();
        g.stop_stalls = false;
    }

    pub fn recorded(&self) -> Vec<Recorded> {
        self.shared.lock().unwrap().recorded.clone()
    }

    pub fn release_stalls(&self) {
        self.shared.lock().unwrap().stop_stalls = true;
    }

    pub fn client(&self) -> std::io::Result<TcpStream> {
        h1::connect(self.http_addr, Duration::from_secs(2))
    }
}
