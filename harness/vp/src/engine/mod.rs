//! Engine: argument parsing, seeds, sharded proptest runner, evidence writer,
//! replay files, known-findings classifier.
//!
//! Exit codes: 0 = property held on everything explored (possibly with
//! KNOWN-FINDING lines), 1 = violation (a `VIOLATION property=<id> replay=<path>`
//! line was printed), 2 = inconclusive (harness failure, watchdog, generator
//! health floor not met) — never a VIOLATION line.

use std::{
    collections::{BTreeMap, BTreeSet, HashSet},
    fmt::Debug,
    hash::{Hash, Hasher},
    panic::{AssertUnwindSafe, catch_unwind},
    path::{Path, PathBuf},
    sync::{
        Mutex,
        atomic::{AtomicBool, Ordering},
    },
    time::Instant,
};

use proptest::{
    strategy::{Strategy, ValueTree},
    test_runner::{Config, RngAlgorithm, RngSeed, TestCaseError, TestError, TestRunner},
};
use serde::{Deserialize, Serialize, de::DeserializeOwned};
use serde_json::{Value, json};

pub mod fuzz;
pub mod shard;

pub const VERIF_ROOT: &str = "/verif";

#[derive(Clone, Copy, Debug, PartialEq, Eq)]
pub enum Tier {
    Quick,
    Thorough,
}

impl Tier {
    pub fn name(self) -> &'static str {
        match self {
            Tier::Quick => "quick",
            Tier::Thorough => "thorough",
        }
    }
    /// pick by tier
    pub fn pick<T>(self, quick: T, thorough: T) -> T {
        match self {
            Tier::Quick => quick,
            Tier::Thorough => thorough,
        }
    }
}

#[derive(Clone, Debug)]
pub struct Args {
    pub id: String,
    pub tier: Tier,
    pub seed: u64,
    pub replay: Option<PathBuf>,
    /// `--shard i/n --out file`: this process is a child shard of a wire-lab run
    pub shard: Option<(usize, usize)>,
    pub out: Option<PathBuf>,
    pub jobs: usize,
    /// `--only <sub>`: run only the named sub-check (debugging aid)
    pub only: Option<String>,
    /// `--scale f`: multiply case counts (debugging / sensitivity aid)
    pub scale: f64,
    pub extra: Vec<String>,
}

impl Args {
    pub fn parse(argv: &[String]) -> Result<Args, String> {
        if argv.is_empty() {
            return Err("usage: vp <ID> [--tier quick|thorough] [--seed N] [--replay F]".into());
        }
        let mut a = Args {
            id: argv[0].to_uppercase(),
            tier: match std::env::var("VERIF_TIER").ok().as_deref() {
                Some("thorough") => Tier::Thorough,
                _ => Tier::Quick,
            },
            seed: std::env::var("VERIF_SEED")
                .ok()
                .and_then(|s| s.trim().parse::<i128>().ok())
                .map(|v| v as u64)
                .unwrap_or(0),
            replay: None,
            shard: None,
            out: None,
            jobs: std::thread::available_parallelism()
                .map(|n| n.get())
                .unwrap_or(8)
                .min(16),
            only: None,
            scale: 1.0,
            extra: vec![],
        };
        let mut i = 1;
        while i < argv.len() {
            let need = |i: usize| -> Result<&String, String> {
                argv.get(i + 1)
                    .ok_or_else(|| format!("missing value after {}", argv[i]))
            };
            match argv[i].as_str() {
                "--tier" => {
                    a.tier = match need(i)?.as_str() {
                        "quick" => Tier::Quick,
                        "thorough" => Tier::Thorough,
                        o => return Err(format!("unknown tier {o}")),
                    };
                    i += 1;
                }
                "--seed" => {
                    a.seed = need(i)?
                        .parse::<i128>()
                        .map_err(|e| format!("bad seed: {e}"))? as u64;
                    i += 1;
                }
                "--replay" => {
                    a.replay = Some(PathBuf::from(need(i)?));
                    i += 1;
                }
                "--shard" => {
                    let v = need(i)?;
                    let (x, y) = v.split_once('/').ok_or("bad --shard")?;
                    a.shard = Some((
                        x.parse().map_err(|_| "bad --shard")?,
                        y.parse().map_err(|_| "bad --shard")?,
                    ));
                    i += 1;
                }
                "--out" => {
                    a.out = Some(PathBuf::from(need(i)?));
                    i += 1;
                }
                "--jobs" => {
                    a.jobs = need(i)?.parse().map_err(|_| "bad --jobs")?;
                    i += 1;
                }
                "--only" => {
                    a.only = Some(need(i)?.clone());
                    i += 1;
                }
                "--scale" => {
                    a.scale = need(i)?.parse().map_err(|_| "bad --scale")?;
                    i += 1;
                }
                other => a.extra.push(other.to_string()),
            }
            i += 1;
        }
        Ok(a)
    }

    pub fn wants(&self, sub: &str) -> bool {
        self.only.as_deref().map(|o| o == sub).unwrap_or(true)
    }

    pub fn cases(&self, quick: u64, thorough: u64) -> u64 {
        let n = self.tier.pick(quick, thorough) as f64 * self.scale;
        (n as u64).max(1)
    }
}

// ---------------------------------------------------------------------------
// seeds

pub fn splitmix64(state: &mut u64) -> u64 {
    *state = state.wrapping_add(0x9E37_79B9_7F4A_7C15);
    let mut z = *state;
    z = (z ^ (z >> 30)).wrapping_mul(0xBF58_476D_1CE4_E5B9);
    z = (z ^ (z >> 27)).wrapping_mul(0x94D0_49BB_1331_11EB);
    z ^ (z >> 31)
}

/// Derive an independent seed for (base seed, label, index).
pub fn derive_seed(seed: u64, label: &str, index: u64) -> u64 {
    let mut h = std::collections::hash_map::DefaultHasher::new(); // SipHash with fixed keys: deterministic
    label.hash(&mut h);
    let mut s = seed ^ h.finish().rotate_left(17) ^ index.wrapping_mul(0xA24B_AED4_963E_E407);
    splitmix64(&mut s)
}

pub fn stable_hash<T: Hash>(t: &T) -> u64 {
    let mut h = std::collections::hash_map::DefaultHasher::new();
    t.hash(&mut h);
    h.finish()
}

pub fn runner_for(seed: u64, cases: u32) -> TestRunner {
    runner_with(seed, cases, 4096)
}

pub fn runner_with(seed: u64, cases: u32, max_shrink_iters: u32) -> TestRunner {
    let mut bytes = [0u8; 32];
    let mut s = seed;
    for c in bytes.chunks_mut(8) {
        c.copy_from_slice(&splitmix64(&mut s).to_le_bytes());
    }
    let cfg = Config {
        cases,
        failure_persistence: None,
        rng_algorithm: RngAlgorithm::ChaCha,
        rng_seed: RngSeed::Fixed(seed),
        max_shrink_iters,
        max_global_rejects: 65536,
        max_local_rejects: 65536,
        verbose: 0,
        ..Config::default()
    };
    let rng = proptest::test_runner::TestRng::from_seed(RngAlgorithm::ChaCha, &bytes);
    TestRunner::new_with_rng(cfg, rng)
}

// ---------------------------------------------------------------------------
// verdicts

/// What an oracle reports for a passing case.
#[derive(Clone, Debug, Default)]
pub struct CaseReport {
    pub nontrivial: bool,
    pub classes: Vec<String>,
    /// cases skipped because they fall in a known-finding shape excluded by construction
    pub excluded_known: u64,
    /// additional evaluations performed inside the case (e.g. probes looked up)
    pub inner_evaluations: u64,
}

impl CaseReport {
    pub fn class(&mut self, c: impl Into<String>) {
        self.classes.push(c.into());
    }
    pub fn class_if(&mut self, cond: bool, c: &str) {
        if cond {
            self.classes.push(c.to_string());
        }
    }
}

/// A property failure with a classifier signature (see known_findings.jsonl).
#[derive(Clone, Debug, Serialize, Deserialize)]
pub struct Failure {
    pub signature: String,
    pub message: String,
}

impl Failure {
    pub fn new(signature: impl Into<String>, message: impl Into<String>) -> Self {
        Failure {
            signature: signature.into(),
            message: message.into(),
        }
    }
}

pub type CheckResult = Result<CaseReport, Failure>;

#[macro_export]
macro_rules! fail {
    ($sig:expr, $($arg:tt)*) => {
        return Err($crate::engine::Failure::new($sig, format!($($arg)*)))
    };
}

// ---------------------------------------------------------------------------
// known findings

#[derive(Clone, Debug, Serialize, Deserialize)]
pub struct KnownFinding {
    pub property: String,
    pub key: String,
    pub status: String, // "known" | "fixed"
    #[serde(default)]
    pub commit: Option<String>,
    pub what: String,
    #[serde(default)]
    pub replay: Option<String>,
}

pub fn load_known(id: &str) -> Vec<KnownFinding> {
    let p = Path::new(VERIF_ROOT).join("known_findings.jsonl");
    let Ok(s) = std::fs::read_to_string(p) else {
        return vec![];
    };
    s.lines()
        .filter(|l| !l.trim().is_empty())
        .filter_map(|l| serde_json::from_str::<KnownFinding>(l).ok())
        .filter(|k| k.property == id)
        .collect()
}

// ---------------------------------------------------------------------------
// per-shard statistics (mergeable, serialisable so OS-process shards can report)

#[derive(Clone, Debug, Default, Serialize, Deserialize)]
pub struct Stats {
    pub evaluations: u64,
    pub inner_evaluations: u64,
    pub nontrivial_hashes: BTreeSet<u64>,
    pub distinct_hashes: u64,
    pub classes: BTreeMap<String, u64>,
    pub samples: Vec<Value>,
    pub trivial_samples: Vec<Value>,
    pub known_hits: BTreeMap<String, u64>,
    pub excluded_known: u64,
    pub flaky_unconfirmed: u64,
    pub violations: Vec<ViolationRec>,
    pub inconclusive: Vec<String>,
    #[serde(skip)]
    seen: HashSet<u64>,
}

#[derive(Clone, Debug, Serialize, Deserialize)]
pub struct ViolationRec {
    pub sub: String,
    pub signature: String,
    pub message: String,
    pub replay: String,
}

/// Keep a trace of failures that did not reproduce on a fresh lab (diagnostics only, never a verdict).
pub fn note_flaky(id: &str, f: &Failure, case_json: &str) {
    use std::io::Write;
    let dir = shard::scratch_dir();
    if let Ok(mut fh) = std::fs::OpenOptions::new().create(true).append(true).open(dir.join(format!("flaky-{id}.log"))) {
        let _ = writeln!(fh, "{} :: {} :: {}", f.signature, f.message, case_json);
    }
}

const MAX_SAMPLES: usize = 4;
const MAX_SAMPLE_BYTES: usize = 6000;

impl Stats {
    pub fn record(&mut self, case_json: &str, rep: &CaseReport) {
        self.evaluations += 1;
        self.inner_evaluations += rep.inner_evaluations;
        self.excluded_known += rep.excluded_known;
        let h = stable_hash(&case_json);
        if self.seen.insert(h) {
            self.distinct_hashes += 1;
        }
        if rep.nontrivial {
            self.nontrivial_hashes.insert(h);
        }
        for c in &rep.classes {
            *self.classes.entry(c.clone()).or_insert(0) += 1;
        }
        if case_json.len() <= MAX_SAMPLE_BYTES {
            if rep.nontrivial && self.samples.len() < MAX_SAMPLES {
                if let Ok(v) = serde_json::from_str(case_json) {
                    self.samples.push(v);
                }
            } else if !rep.nontrivial && self.trivial_samples.is_empty() {
                if let Ok(v) = serde_json::from_str(case_json) {
                    self.trivial_samples.push(v);
                }
            }
        }
    }

    pub fn merge(&mut self, o: Stats) {
        self.evaluations += o.evaluations;
        self.inner_evaluations += o.inner_evaluations;
        self.distinct_hashes += o.distinct_hashes;
        self.nontrivial_hashes.extend(o.nontrivial_hashes);
        for (k, v) in o.classes {
            *self.classes.entry(k).or_insert(0) += v;
        }
        for s in o.samples {
            if self.samples.len() < MAX_SAMPLES + 2 {
                self.samples.push(s);
            }
        }
        for s in o.trivial_samples {
            if self.trivial_samples.is_empty() {
                self.trivial_samples.push(s);
            }
        }
        for (k, v) in o.known_hits {
            *self.known_hits.entry(k).or_insert(0) += v;
        }
        self.excluded_known += o.excluded_known;
        self.flaky_unconfirmed += o.flaky_unconfirmed;
        self.violations.extend(o.violations);
        self.inconclusive.extend(o.inconclusive);
    }
}

// ---------------------------------------------------------------------------
// evidence

pub struct Evidence {
    pub id: String,
    pub tier: Tier,
    pub seed: u64,
    pub level: &'static str,
    pub started: Instant,
    pub subs: BTreeMap<String, Stats>,
    pub rules: BTreeMap<String, String>,
    pub assumptions: Vec<String>,
    pub known: Vec<KnownFinding>,
    pub printed_known: BTreeSet<String>,
    pub notes: Vec<String>,
    pub floors: Vec<(String, String, f64)>,
}

impl Evidence {
    pub fn new(args: &Args, level: &'static str) -> Evidence {
        Evidence {
            id: args.id.clone(),
            tier: args.tier,
            seed: args.seed,
            level,
            started: Instant::now(),
            subs: BTreeMap::new(),
            rules: BTreeMap::new(),
            assumptions: vec![],
            known: load_known(&args.id),
            printed_known: BTreeSet::new(),
            notes: vec![],
            floors: vec![],
        }
    }

    pub fn assume(&mut self, s: &str) {
        self.assumptions.push(s.to_string());
    }

    pub fn rule(&mut self, sub: &str, rule: &str) {
        self.rules.insert(sub.to_string(), rule.to_string());
    }

    /// Require that class `class` of sub-check `sub` covers at least `frac` of its evaluations;
    /// otherwise the run is inconclusive (exit 2): a generator that silently tests little is broken.
    pub fn floor(&mut self, sub: &str, class: &str, frac: f64) {
        self.floors.push((sub.to_string(), class.to_string(), frac));
    }

    pub fn is_known(&self, sig: &str) -> Option<&KnownFinding> {
        self.known
            .iter()
            .find(|k| k.status == "known" && k.key == sig)
    }

    pub fn add_stats(&mut self, sub: &str, st: Stats) {
        self.subs.entry(sub.to_string()).or_default().merge(st);
    }

    pub fn inconclusive(&mut self, sub: &str, why: impl Into<String>) {
        self.subs
            .entry(sub.to_string())
            .or_default()
            .inconclusive
            .push(why.into());
    }

    fn print_known_lines(&mut self) {
        let mut hits: BTreeMap<String, u64> = BTreeMap::new();
        for st in self.subs.values() {
            for (k, v) in &st.known_hits {
                *hits.entry(k.clone()).or_insert(0) += v;
            }
        }
        for (k, _) in hits {
            if self.printed_known.insert(k.clone()) {
                let what = self
                    .is_known(&k)
                    .map(|f| f.what.clone())
                    .unwrap_or_default();
                println!("KNOWN-FINDING: property={} {} — {}", self.id, k, what);
            }
        }
    }

    /// Write evidence/<id>.json, print the verdict lines and return the process exit code.
    pub fn finish(mut self) -> i32 {
        self.print_known_lines();
        let wall = self.started.elapsed().as_secs_f64();
        let mut total = Stats::default();
        let mut per_sub = serde_json::Map::new();
        let mut floor_failures = vec![];
        for (name, st) in &self.subs {
            per_sub.insert(
                name.clone(),
                json!({
                    "evaluations": st.evaluations,
                    "inner_evaluations": st.inner_evaluations,
                    "distinct_cases": st.distinct_hashes,
                    "distinct_nontrivial": st.nontrivial_hashes.len(),
                    "rule": self.rules.get(name).cloned().unwrap_or_default(),
                    "classes": st.classes,
                    "known_hits": st.known_hits,
                    "excluded_known": st.excluded_known,
                    "flaky_unconfirmed": st.flaky_unconfirmed,
                    "violations": st.violations.len(),
                    "inconclusive": st.inconclusive,
                }),
            );
        }
        for (sub, class, frac) in &self.floors {
            if let Some(st) = self.subs.get(sub) {
                if st.evaluations == 0 {
                    continue;
                }
                let got = *st.classes.get(class).unwrap_or(&0) as f64 / st.evaluations as f64;
                if got < *frac {
                    floor_failures.push(format!(
                        "{sub}: class '{class}' covers {:.2}% of cases, floor {:.2}%",
                        got * 100.0,
                        frac * 100.0
                    ));
                }
            }
        }
        // distinct_nontrivial over the whole check: hashes are salted per sub so they do not collide
        let mut nontrivial = 0usize;
        for (name, st) in std::mem::take(&mut self.subs) {
            nontrivial += st.nontrivial_hashes.len();
            let mut st = st;
            // tag samples with their sub-check
            st.samples = st
                .samples
                .into_iter()
                .map(|s| json!({"sub": name, "case": s}))
                .collect();
            st.trivial_samples = st
                .trivial_samples
                .into_iter()
                .map(|s| json!({"sub": name, "trivial": true, "case": s}))
                .collect();
            st.nontrivial_hashes.clear();
            total.merge_keep_all_samples(st);
        }
        let mut samples = total.samples.clone();
        samples.extend(total.trivial_samples.clone());
        if samples.is_empty() {
            samples.push(json!({"note": "no case small enough to print"}));
        }
        let rule = self
            .rules
            .iter()
            .map(|(k, v)| format!("[{k}] {v}"))
            .collect::<Vec<_>>()
            .join(" ")
            ;
        let violations = total.violations.len();
        let inconclusive: Vec<String> = total
            .inconclusive
            .iter()
            .cloned()
            .chain(floor_failures.iter().cloned())
            .collect();
        let ev = json!({
            "property_id": self.id,
            "tier": self.tier.name(),
            "seed": self.seed as i64,
            "level": self.level,
            "coverage": {
                "evaluations": total.evaluations,
                "inner_evaluations": total.inner_evaluations,
                "distinct_nontrivial": nontrivial,
                "rule": rule,
                "samples": samples,
                "classes": total.classes,
                "sub_checks": Value::Object(per_sub),
                "known_hits": total.known_hits,
                "excluded_known": total.excluded_known,
                "flaky_unconfirmed": total.flaky_unconfirmed,
                "inconclusive": inconclusive,
                "notes": self.notes,
            },
            "assumptions": self.assumptions,
            "wall_s": (wall * 1000.0).round() / 1000.0,
            "violations": violations,
        });
        let dir = Path::new(VERIF_ROOT).join("evidence");
        let _ = std::fs::create_dir_all(&dir);
        let path = dir.join(format!("{}.json", self.id));
        let tmp = dir.join(format!(".{}.json.tmp", self.id));
        if std::fs::write(&tmp, serde_json::to_vec_pretty(&ev).unwrap()).is_ok() {
            let _ = std::fs::rename(&tmp, &path);
        }
        for v in &total.violations {
            println!(
                "VIOLATION property={} replay={}",
                self.id, v.replay
            );
            println!("  [{}] {}: {}", v.sub, v.signature, truncate(&v.message, 1500));
        }
        println!(
            "{} {} seed={} evaluations={} distinct_nontrivial={} violations={} known_hits={} wall={:.1}s",
            self.id,
            self.tier.name(),
            self.seed,
            total.evaluations,
            nontrivial,
            violations,
            total.known_hits.values().sum::<u64>(),
            wall
        );
        if violations > 0 {
            return 1;
        }
        if !inconclusive.is_empty() {
            for i in &inconclusive {
                println!("INCONCLUSIVE: {i}");
            }
            return 2;
        }
        if nontrivial < 2 {
            println!("INCONCLUSIVE: fewer than 2 distinct non-trivial cases");
            return 2;
        }
        0
    }
}

impl Stats {
    fn merge_keep_all_samples(&mut self, o: Stats) {
        let samples = o.samples.clone();
        let triv = o.trivial_samples.clone();
        let mut o = o;
        o.samples.clear();
        o.trivial_samples.clear();
        self.merge(o);
        for s in samples.into_iter().take(3) {
            if self.samples.len() < 8 {
                self.samples.push(s);
            }
        }
        for s in triv {
            if self.trivial_samples.len() < 2 {
                self.trivial_samples.push(s);
            }
        }
    }
}

pub fn truncate(s: &str, n: usize) -> String {
    if s.len() <= n {
        s.to_string()
    } else {
        let mut end = n;
        while !s.is_char_boundary(end) {
            end -= 1;
        }
        format!("{}…[{} bytes more]", &s[..end], s.len() - end)
    }
}

// ---------------------------------------------------------------------------
// replay files

#[derive(Serialize, Deserialize, Debug)]
pub struct ReplayFile<C> {
    pub property: String,
    pub sub: String,
    #[serde(default)]
    pub signature: String,
    #[serde(default)]
    pub message: String,
    #[serde(default)]
    pub seed: i64,
    pub case: C,
}

pub fn write_replay<C: Serialize>(
    id: &str,
    sub: &str,
    seed: u64,
    fail: &Failure,
    case: &C,
) -> String {
    let dir = Path::new(VERIF_ROOT).join("replays").join(id);
    let _ = std::fs::create_dir_all(&dir);
    let body = json!({
        "property": id,
        "sub": sub,
        "signature": fail.signature,
        "message": fail.message,
        "seed": seed as i64,
        "case": case,
    });
    let txt = serde_json::to_string_pretty(&body).unwrap();
    let h = stable_hash(&serde_json::to_string(&body["case"]).unwrap());
    let path = dir.join(format!("{sub}-{h:016x}.json"));
    let _ = std::fs::write(&path, txt);
    path.to_string_lossy().to_string()
}

/// List the committed regression files of a property/sub-check (replay tier).
pub fn regression_files(id: &str, sub: &str) -> Vec<PathBuf> {
    let dir = Path::new(VERIF_ROOT).join("regressions").join(id);
    let mut v: Vec<PathBuf> = std::fs::read_dir(dir)
        .map(|rd| {
            rd.filter_map(|e| e.ok().map(|e| e.path()))
                .filter(|p| {
                    p.extension().map(|e| e == "json").unwrap_or(false)
                        && p.file_name()
                            .and_then(|n| n.to_str())
                            .map(|n| n.starts_with(&format!("{sub}-")))
                            .unwrap_or(false)
                })
                .collect()
        })
        .unwrap_or_default();
    v.sort();
    v
}

// ---------------------------------------------------------------------------
// panic capture: a panic inside sozu code while driving a property-relevant
// operation is a failure of that property (DESIGN §2.2), with the location in the signature.

thread_local! {
    static LAST_PANIC: std::cell::RefCell<Option<(String, String)>> = const { std::cell::RefCell::new(None) };
}
static LAST_PANIC_ANY_THREAD: Mutex<Option<(String, String)>> = Mutex::new(None);
static HOOK_SET: AtomicBool = AtomicBool::new(false);
pub static QUIET_PANICS: AtomicBool = AtomicBool::new(true);

pub fn install_panic_hook() {
    if HOOK_SET.swap(true, Ordering::SeqCst) {
        return;
    }
    let default = std::panic::take_hook();
    std::panic::set_hook(Box::new(move |info| {
        let loc = info
            .location()
            .map(|l| format!("{}:{}", l.file(), l.line()))
            .unwrap_or_else(|| "?".into());
        let msg = if let Some(s) = info.payload().downcast_ref::<&str>() {
            s.to_string()
        } else if let Some(s) = info.payload().downcast_ref::<String>() {
            s.clone()
        } else {
            "<non-string panic>".into()
        };
        LAST_PANIC.with(|p| *p.borrow_mut() = Some((loc.clone(), msg.clone())));
        if let Ok(mut g) = LAST_PANIC_ANY_THREAD.lock() {
            *g = Some((loc.clone(), msg.clone()));
        }
        if !QUIET_PANICS.load(Ordering::Relaxed) {
            default(info);
        }
    }));
}

pub fn take_last_panic() -> Option<(String, String)> {
    LAST_PANIC.with(|p| p.borrow_mut().take())
}

/// the last panic of any thread of this process (a lab worker thread that died is joined from another thread)
pub fn take_last_panic_any_thread() -> Option<(String, String)> {
    LAST_PANIC_ANY_THREAD.lock().ok().and_then(|mut g| g.take())
}

/// Is the panic location inside the code under test (sozu / its deps) rather than the harness?
pub fn panic_is_harness(loc: &str) -> bool {
    loc.contains("/verif/harness/") || loc.starts_with("vp/src") || loc.starts_with("src/")
}

/// Run `f`, converting a panic in the code under test into a `Failure`
/// (`panic@<file>:<line>`); a panic located in harness code is re-raised
/// so it ends the run as inconclusive rather than as a violation.
pub fn guarded<T>(f: impl FnOnce() -> Result<T, Failure>) -> Result<T, Failure> {
    install_panic_hook();
    match catch_unwind(AssertUnwindSafe(f)) {
        Ok(r) => r,
        Err(payload) => {
            let (loc, msg) = take_last_panic().unwrap_or(("?".into(), "?".into()));
            if panic_is_harness(&loc) {
                // a bug in the harness is never a verdict about sozu: stop at once, inconclusive
                let _ = payload;
                println!("INCONCLUSIVE: harness panic at {loc}: {msg}");
                std::process::exit(2);
            }
            let short = loc
                .rsplit_once("/repo/")
                .map(|(_, b)| b.to_string())
                .unwrap_or(loc.clone());
            Err(Failure::new(
                format!("panic@{short}"),
                format!("panic at {loc}: {msg}"),
            ))
        }
    }
}

// ---------------------------------------------------------------------------
// the sharded in-process PBT runner

pub struct PbtSpec<'a, C> {
    pub sub: &'a str,
    pub cases: u64,
    /// max proptest shrink iterations
    pub shrink_iters: u32,
    pub _p: std::marker::PhantomData<C>,
}

/// Run `cases` generated cases of `strategy` through `check`, split over `args.jobs`
/// threads (each with its own deterministic TestRunner), after replaying the committed
/// regression files of this sub-check. Failures whose signature is a listed known
/// finding are counted and do not stop the search; any other failure is shrunk, written
/// to a replay file and recorded as a violation.
pub fn run_pbt<C, S, G, F>(ev: &mut Evidence, args: &Args, sub: &str, cases: u64, strategy: G, check: F)
where
    C: Serialize + DeserializeOwned + Debug + Clone + Send + 'static,
    S: Strategy<Value = C>,
    G: Fn() -> S + Send + Sync,
    F: Fn(&C) -> CheckResult + Send + Sync + 'static,
{
    install_panic_hook();
    if !args.wants(sub) {
        return;
    }
    let known_keys: Vec<String> = ev
        .known
        .iter()
        .filter(|k| k.status == "known")
        .map(|k| k.key.clone())
        .collect();
    let check = std::sync::Arc::new(check);

    // ---- replay tier
    if let Some(path) = &args.replay {
        let st = replay_one::<C, _>(&ev.id, sub, args.seed, path, &known_keys, &*check, true);
        ev.add_stats(sub, st);
        return;
    }
    for path in regression_files(&ev.id, sub) {
        let st = replay_one::<C, _>(&ev.id, sub, args.seed, &path, &known_keys, &*check, false);
        ev.add_stats(sub, st);
    }

    // ---- generated tier
    let jobs = (args.jobs as u64).min(cases).max(1);
    let per = cases / jobs;
    let rem = cases % jobs;
    let results: Mutex<Vec<Stats>> = Mutex::new(vec![]);
    let stop = AtomicBool::new(false);
    std::thread::scope(|scope| {
        for j in 0..jobs {
            let n = per + if j < rem { 1 } else { 0 };
            if n == 0 {
                continue;
            }
            let strategy = &strategy;
            let check = check.clone();
            let known_keys = known_keys.clone();
            let results = &results;
            let stop = &stop;
            let id = ev.id.clone();
            let seed = derive_seed(args.seed, &format!("{}/{}", ev.id, sub), j);
            let base_seed = args.seed;
            let sub = sub.to_string();
            std::thread::Builder::new()
                .stack_size(64 << 20)
                .spawn_scoped(scope, move || {
                    let st = run_shard::<C, S, _>(
                        &id, &sub, base_seed, seed, n, strategy(), &known_keys, &*check, stop,
                    );
                    results.lock().unwrap().push(st);
                })
                .expect("spawn shard");
        }
    });
    for st in results.into_inner().unwrap() {
        ev.add_stats(sub, st);
    }
}

fn replay_one<C, F>(
    id: &str,
    sub: &str,
    seed: u64,
    path: &Path,
    known_keys: &[String],
    check: &F,
    strict: bool,
) -> Stats
where
    C: Serialize + DeserializeOwned + Debug + Clone,
    F: Fn(&C) -> CheckResult,
{
    let mut st = Stats::default();
    let txt = match std::fs::read_to_string(path) {
        Ok(t) => t,
        Err(e) => {
            st.inconclusive
                .push(format!("cannot read replay {}: {e}", path.display()));
            return st;
        }
    };
    // a replay file names its sub-check: other sub-checks of the property ignore it
    if let Ok(v) = serde_json::from_str::<Value>(&txt) {
        if v.get("sub").and_then(|s| s.as_str()).is_some_and(|s| s != sub) {
            return st;
        }
    }
    let rf: ReplayFile<C> = match serde_json::from_str(&txt) {
        Ok(r) => r,
        Err(e) => {
            if strict {
                st.inconclusive
                    .push(format!("cannot parse replay {}: {e}", path.display()));
            }
            return st;
        }
    };
    if rf.sub != sub {
        return st;
    }
    let case_json = serde_json::to_string(&rf.case).unwrap();
    match guarded(|| check(&rf.case)) {
        Ok(rep) => {
            let mut rep = rep;
            rep.classes.push("replayed".into());
            st.record(&case_json, &rep);
            if strict {
                println!("replay {}: property held", path.display());
            }
        }
        Err(f) => {
            st.evaluations += 1;
            if known_keys.contains(&f.signature) {
                *st.known_hits.entry(f.signature.clone()).or_insert(0) += 1;
                if strict {
                    println!("replay {}: known finding {}: {}", path.display(), f.signature, f.message);
                }
            } else if !strict && path.file_name().and_then(|n| n.to_str()).is_some_and(|n| n.contains("-known-")) {
                // The reproducer of a registered finding drives sozu into a state that is broken by construction;
                // how the breakage shows can depend on timing (e.g. the loop-budget kill of a 36 MB chunked
                // response shows as a 504 when a loaded machine lets the backend time out first). Only the
                // registered signature is a known hit; another outcome of such a file is logged, not reported:
                // the file demonstrates a finding, it is not a generated case of the search.
                st.flaky_unconfirmed += 1;
                note_flaky(id, &f, &format!("known reproducer {} failed with a signature other than the registered one", path.display()));
            } else {
                let replay = if strict {
                    path.to_string_lossy().to_string()
                } else {
                    write_replay(id, sub, seed, &f, &rf.case)
                };
                st.violations.push(ViolationRec {
                    sub: sub.to_string(),
                    signature: f.signature,
                    message: f.message,
                    replay,
                });
            }
        }
    }
    st
}

/// Child side of an OS-process-sharded (wire-lab) sub-check: run this shard's share of
/// `total_cases` (plus, in shard 0, the committed regression files or the `--replay` file)
/// and return the statistics for the parent to merge.
pub fn run_lab_shard<C, S, F>(args: &Args, id: &str, sub: &str, total_cases: u64, strategy: S, check: F, shrink_iters: u32) -> Stats
where
    C: Serialize + DeserializeOwned + Debug + Clone,
    S: Strategy<Value = C>,
    F: Fn(&C) -> CheckResult,
{
    install_panic_hook();
    let (i, n) = args.shard.unwrap_or((0, 1));
    let known_keys: Vec<String> = load_known(id).into_iter().filter(|k| k.status == "known").map(|k| k.key).collect();
    let mut st = Stats::default();
    if let Some(path) = &args.replay {
        if i == 0 {
            st.merge(replay_one::<C, _>(id, sub, args.seed, path, &known_keys, &check, true));
        }
        return st;
    }
    if i == 0 {
        for path in regression_files(id, sub) {
            st.merge(replay_one::<C, _>(id, sub, args.seed, &path, &known_keys, &check, false));
        }
    }
    let n = n.max(1) as u64;
    let share = total_cases / n + if (i as u64) < total_cases % n { 1 } else { 0 };
    if share == 0 {
        return st;
    }
    let seed = derive_seed(args.seed, &format!("{id}/{sub}"), i as u64);
    let stop = AtomicBool::new(false);
    LAB_SHRINK_ITERS.with(|c| c.set(shrink_iters));
    st.merge(run_shard::<C, S, F>(id, sub, args.seed, seed, share, strategy, &known_keys, &check, &stop));
    LAB_SHRINK_ITERS.with(|c| c.set(0));
    st
}

thread_local! {
    static LAB_SHRINK_ITERS: std::cell::Cell<u32> = const { std::cell::Cell::new(0) };
}

#[allow(clippy::too_many_arguments)]
fn run_shard<C, S, F>(
    id: &str,
    sub: &str,
    base_seed: u64,
    seed: u64,
    cases: u64,
    strategy: S,
    known_keys: &[String],
    check: &F,
    stop: &AtomicBool,
) -> Stats
where
    C: Serialize + DeserializeOwned + Debug + Clone,
    S: Strategy<Value = C>,
    F: Fn(&C) -> CheckResult,
{
    let stats = std::cell::RefCell::new(Stats::default());
    let failed = std::cell::Cell::new(false);
    let last_fail: std::cell::RefCell<Option<Failure>> = std::cell::RefCell::new(None);
    let lab_iters = LAB_SHRINK_ITERS.with(|c| c.get());
    let mut runner = runner_with(seed, cases.min(u32::MAX as u64) as u32, if lab_iters > 0 { lab_iters } else { 4096 });
    let res = runner.run(&strategy, |case| {
        if stop.load(Ordering::Relaxed) && !failed.get() {
            // another shard found a violation: finish quickly
            return Ok(());
        }
        match guarded(|| check(&case)) {
            Ok(rep) => {
                if !failed.get() {
                    let js = serde_json::to_string(&case).unwrap_or_default();
                    stats.borrow_mut().record(&js, &rep);
                }
                Ok(())
            }
            Err(f) => {
                if known_keys.contains(&f.signature) {
                    if !failed.get() {
                        let mut s = stats.borrow_mut();
                        s.evaluations += 1;
                        *s.known_hits.entry(f.signature.clone()).or_insert(0) += 1;
                    }
                    return Ok(());
                }
                if !failed.get() {
                    failed.set(true);
                    stats.borrow_mut().evaluations += 1;
                }
                // during shrinking only accept candidates that fail with the same signature
                let mut lf = last_fail.borrow_mut();
                if let Some(prev) = lf.as_ref() {
                    if prev.signature != f.signature {
                        return Ok(());
                    }
                }
                *lf = Some(f.clone());
                Err(TestCaseError::fail(f.signature))
            }
        }
    });
    let mut st = stats.into_inner();
    match res {
        Ok(()) => {}
        Err(TestError::Fail(_, case)) => {
            stop.store(true, Ordering::Relaxed);
            // re-evaluate the shrunk case to get its final message
            let f = match guarded(|| check(&case)) {
                Err(f) => f,
                Ok(_) => last_fail
                    .into_inner()
                    .unwrap_or_else(|| Failure::new("unstable", "failure did not reproduce on the shrunk case")),
            };
            if f.signature == "unstable" {
                st.flaky_unconfirmed += 1;
            } else {
                let replay = write_replay(id, sub, base_seed, &f, &case);
                st.violations.push(ViolationRec {
                    sub: sub.to_string(),
                    signature: f.signature,
                    message: f.message,
                    replay,
                });
            }
        }
        Err(TestError::Abort(r)) => {
            st.inconclusive
                .push(format!("{sub}: generator aborted: {r}"));
        }
    }
    st
}

/// Draw one value from a strategy with a derived seed (used by the wire-lab shards).
pub fn draw<S: Strategy>(strategy: &S, seed: u64) -> S::Value {
    let mut runner = runner_for(seed, 1);
    strategy
        .new_tree(&mut runner)
        .expect("strategy produced no value")
        .current()
}

/// Monotone index mapping (shrinks toward 0): `i * len >> 16` style on u32 input.
pub fn pick_idx(x: u32, len: usize) -> usize {
    if len == 0 {
        return 0;
    }
    ((x as u64 * len as u64) >> 32) as usize
}

/// Run `f` with the process's stdout pointed at /dev/null (some sozu code paths print
/// diagnostics with `print!`), then restore it. Verdict lines are printed after this returns.
pub fn with_quiet_stdout<T>(f: impl FnOnce() -> T) -> T {
    use std::io::Write;
    let _ = std::io::stdout().flush();
    let saved = unsafe { libc::dup(1) };
    let null = unsafe { libc::open(c"/dev/null".as_ptr(), libc::O_WRONLY) };
    if saved >= 0 && null >= 0 {
        unsafe { libc::dup2(null, 1) };
    }
    let out = f();
    let _ = std::io::stdout().flush();
    if saved >= 0 {
        unsafe {
            libc::dup2(saved, 1);
            libc::close(saved);
        }
    }
    if null >= 0 {
        unsafe { libc::close(null) };
    }
    out
}
