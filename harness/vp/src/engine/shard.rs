//! OS-process sharding for wire-lab checks (DESIGN §3: one lab = one process).
//!
//! The parent re-executes `vp <ID> --shard i/n --out <file> --only <sub>`, waits for
//! every child under a watchdog, and merges the `Stats` each child wrote. A child that
//! crashes, hangs or writes nothing makes the run inconclusive (exit 2) — never a violation.

use std::{
    path::PathBuf,
    process::{Command, Stdio},
    time::{Duration, Instant},
};

use super::{Args, Evidence, Stats, VERIF_ROOT};

pub fn scratch_dir() -> PathBuf {
    let d = PathBuf::from(VERIF_ROOT).join("scratch");
    let _ = std::fs::create_dir_all(&d);
    d
}

/// Run `n` child shards of sub-check `sub`, merge their stats into `ev`.
pub fn run_sharded(ev: &mut Evidence, args: &Args, sub: &str, n: usize, watchdog: Duration) {
    if !args.wants(sub) {
        return;
    }
    let exe = std::env::current_exe().expect("current_exe");
    let dir = scratch_dir();
    let mut children = vec![];
    for i in 0..n {
        let out = dir.join(format!(
            "shard-{}-{}-{}-{}.json",
            ev.id,
            sub,
            std::process::id(),
            i
        ));
        let _ = std::fs::remove_file(&out);
        let mut cmd = Command::new(&exe);
        cmd.arg(&ev.id)
            .arg("--tier")
            .arg(args.tier.name())
            .arg("--seed")
            .arg(format!("{}", args.seed as i64))
            .arg("--shard")
            .arg(format!("{i}/{n}"))
            .arg("--only")
            .arg(sub)
            .arg("--scale")
            .arg(format!("{}", args.scale))
            .arg("--out")
            .arg(&out)
            .stdin(Stdio::null());
        if let Some(r) = &args.replay {
            cmd.arg("--replay").arg(r);
        }
        for e in &args.extra {
            cmd.arg(e);
        }
        let log = dir.join(format!("shard-{}-{}-{}-{}.log", ev.id, sub, std::process::id(), i));
        if let Ok(f) = std::fs::File::create(&log) {
            let f2 = f.try_clone().expect("clone log fd");
            cmd.stdout(Stdio::from(f)).stderr(Stdio::from(f2));
        }
        match cmd.spawn() {
            Ok(c) => children.push((i, c, out, log)),
            Err(e) => ev.inconclusive(sub, format!("cannot spawn shard {i}: {e}")),
        }
    }
    let start = Instant::now();
    for (i, mut child, out, log) in children {
        let mut status = None;
        loop {
            match child.try_wait() {
                Ok(Some(s)) => {
                    status = Some(s);
                    break;
                }
                Ok(None) => {
                    if start.elapsed() > watchdog {
                        let _ = child.kill();
                        let _ = child.wait();
                        break;
                    }
                    std::thread::sleep(Duration::from_millis(20));
                }
                Err(_) => break,
            }
        }
        let stats: Option<Stats> = std::fs::read(&out)
            .ok()
            .and_then(|b| serde_json::from_slice(&b).ok());
        match (status, stats) {
            (Some(s), Some(st)) if s.code() == Some(0) => {
                ev.add_stats(sub, st);
                let _ = std::fs::remove_file(&log);
            }
            (s, st) => {
                if let Some(st) = st {
                    ev.add_stats(sub, st);
                }
                let tail = std::fs::read_to_string(&log)
                    .map(|t| {
                        let lines: Vec<&str> = t.lines().collect();
                        lines[lines.len().saturating_sub(15)..].join(" | ")
                    })
                    .unwrap_or_default();
                ev.inconclusive(
                    sub,
                    format!(
                        "shard {i} ended abnormally (status {:?}, watchdog {}s): {}",
                        s.map(|s| s.to_string()),
                        watchdog.as_secs(),
                        super::truncate(&tail, 1200)
                    ),
                );
            }
        }
        let _ = std::fs::remove_file(&out);
    }
}

/// Called by a child shard at the end: write its stats where the parent expects them.
pub fn child_finish(args: &Args, st: &Stats) -> i32 {
    if let Some(out) = &args.out {
        if let Err(e) = std::fs::write(out, serde_json::to_vec(st).unwrap()) {
            eprintln!("cannot write shard stats: {e}");
            return 2;
        }
    } else {
        // run by hand (replay of one file in a single shard): say what happened
        for v in &st.violations {
            println!("shard violation {} : {}", v.signature, v.message);
        }
        for i in &st.inconclusive {
            println!("shard inconclusive: {i}");
        }
        if !st.violations.is_empty() {
            return 1;
        }
    }
    0
}
