//! Fuzzing tiers shared by the properties that have a byte-level oracle in `vp-oracles`:
//!
//! * `corpus` sub-check (quick and thorough): every file of the committed corpus
//!   /verif/fuzz/corpus/<target>/ (seeds taken from the repository and inputs kept from earlier
//!   campaigns) is run through the oracle as it is and under generated structured mutations
//!   (byte flips, inserts, deletes, truncations, splices of two corpus files, length-field edits).
//!   It goes through `run_pbt`, so failures shrink and become replay files like everywhere else.
//! * `fuzz` sub-check (thorough only): a coverage-guided libFuzzer campaign of the cargo-fuzz target
//!   of the same name in /verif/fuzz (the target calls the same oracle), `-runs` bounded, seeded with
//!   VERIF_SEED; a crash artifact is a violation whose replay file is the artifact; a build or tool
//!   failure is inconclusive, never a verdict.

use std::{path::PathBuf, process::Command, sync::Arc};

use proptest::prelude::*;
use serde::{Deserialize, Serialize};

use super::{Args, CaseReport, CheckResult, Evidence, Tier, VERIF_ROOT};
use crate::fail;

#[derive(Clone, Debug, Serialize, Deserialize)]
pub enum Mutation {
    Flip { at: u32, bit: u8 },
    Set { at: u32, byte: u8 },
    Insert { at: u32, bytes: Vec<u8> },
    Delete { at: u32, len: u8 },
    Truncate { at: u32 },
    /// append the head of another corpus file
    Splice { other: u32, len: u16 },
    /// rewrite a big-endian length field of 2 or 3 bytes at `at`
    Length { at: u32, width: u8, value: u32 },
}

#[derive(Clone, Debug, Serialize, Deserialize)]
pub struct FuzzCase {
    /// index into the sorted corpus (mapped monotonically), u32::MAX = start from nothing
    pub file: u32,
    pub muts: Vec<Mutation>,
    /// materialised input (hex), filled in by the strategy so that a replay file is self-contained
    pub input_hex: String,
}

pub fn corpus_dir(target: &str) -> PathBuf {
    PathBuf::from(VERIF_ROOT).join("fuzz").join("corpus").join(target)
}

fn load_corpus(target: &str) -> Vec<(String, Vec<u8>)> {
    let mut v = vec![];
    if let Ok(rd) = std::fs::read_dir(corpus_dir(target)) {
        for e in rd.flatten() {
            if e.path().is_file() {
                if let Ok(b) = std::fs::read(e.path()) {
                    if b.len() <= 1 << 20 {
                        v.push((e.file_name().to_string_lossy().to_string(), b));
                    }
                }
            }
        }
    }
    v.sort();
    v
}

fn apply(corpus: &[(String, Vec<u8>)], file: u32, muts: &[Mutation]) -> Vec<u8> {
    let mut b: Vec<u8> = if file == u32::MAX || corpus.is_empty() { vec![] } else { corpus[super::pick_idx(file, corpus.len())].1.clone() };
    for m in muts {
        let n = b.len();
        match m {
            Mutation::Flip { at, bit } if n > 0 => b[super::pick_idx(*at, n)] ^= 1 << (bit % 8),
            Mutation::Set { at, byte } if n > 0 => b[super::pick_idx(*at, n)] = *byte,
            Mutation::Insert { at, bytes } => {
                let p = super::pick_idx(*at, n + 1);
                b.splice(p..p, bytes.iter().copied());
            }
            Mutation::Delete { at, len } if n > 0 => {
                let p = super::pick_idx(*at, n);
                let e = (p + *len as usize + 1).min(n);
                b.drain(p..e);
            }
            Mutation::Truncate { at } => b.truncate(super::pick_idx(*at, n + 1)),
            Mutation::Splice { other, len } if !corpus.is_empty() => {
                let o = &corpus[super::pick_idx(*other, corpus.len())].1;
                b.extend_from_slice(&o[..(*len as usize).min(o.len())]);
            }
            Mutation::Length { at, width, value } if n >= 3 => {
                let w = if *width % 2 == 0 { 2 } else { 3 };
                let p = super::pick_idx(*at, n - w + 1);
                let be = value.to_be_bytes();
                b[p..p + w].copy_from_slice(&be[4 - w..]);
            }
            _ => {}
        }
    }
    b
}

fn mutation() -> impl Strategy<Value = Mutation> {
    prop_oneof![
        3 => (any::<u32>(), 0u8..8).prop_map(|(at, bit)| Mutation::Flip { at, bit }),
        3 => (any::<u32>(), prop_oneof![Just(0u8), Just(0xff), Just(0x80), Just(0x7f), Just(b'\n'), Just(b'\r'), Just(b' '), Just(b','), Just(b':'), Just(b'"'), any::<u8>()]).prop_map(|(at, byte)| Mutation::Set { at, byte }),
        2 => (any::<u32>(), prop::collection::vec(any::<u8>(), 1..12)).prop_map(|(at, bytes)| Mutation::Insert { at, bytes }),
        2 => (any::<u32>(), 0u8..16).prop_map(|(at, len)| Mutation::Delete { at, len }),
        1 => any::<u32>().prop_map(|at| Mutation::Truncate { at }),
        1 => (any::<u32>(), 0u16..400).prop_map(|(other, len)| Mutation::Splice { other, len }),
        2 => (any::<u32>(), any::<u8>(), prop_oneof![Just(0u32), Just(1), Just(5), Just(6), Just(8), Just(9), Just(16384), Just(16385), Just(0xffff), Just(0xff_ffff), any::<u32>()]).prop_map(|(at, width, value)| Mutation::Length { at, width, value }),
    ]
}

fn hex(b: &[u8]) -> String {
    b.iter().map(|x| format!("{x:02x}")).collect()
}

fn unhex(s: &str) -> Vec<u8> {
    (0..s.len() / 2).filter_map(|i| u8::from_str_radix(&s[2 * i..2 * i + 2], 16).ok()).collect()
}

/// `oracle` returns a class label; labels in `trivial` (rejected input etc.) do not count as non-trivial.
pub fn corpus_check(ev: &mut Evidence, args: &Args, sub: &str, target: &'static str, signature_prefix: &'static str, trivial: &'static [&'static str], oracle: fn(&[u8]) -> Result<&'static str, String>) {
    let corpus = Arc::new(load_corpus(target));
    ev.rule(
        sub,
        &format!(
            "every file of the committed corpus /verif/fuzz/corpus/{target} ({} files: seeds from the repository's own fuzz corpus and inputs kept from earlier libFuzzer campaigns) as it is (0 mutations) and under 1..6 generated mutations (bit flip, byte set, insert, delete, truncate, splice with another corpus file, rewrite of a 2/3-byte big-endian length field) through the oracle vp_oracles (the function the cargo-fuzz target `{target}` calls). Non-trivial: the input is accepted at least partly (oracle class not in {trivial:?}); distinct by input hash.",
            corpus.len()
        ),
    );
    if corpus.is_empty() {
        ev.inconclusive(sub, format!("no corpus files under {}", corpus_dir(target).display()));
        return;
    }
    let n_files = corpus.len() as u64;
    let cases = n_files + args.cases(20_000, 400_000);
    let c2 = corpus.clone();
    let strategy = move || {
        let corpus = c2.clone();
        (prop_oneof![9 => any::<u32>(), 1 => Just(u32::MAX)], prop_oneof![1 => Just(vec![]), 6 => prop::collection::vec(mutation(), 1..6)]).prop_map(move |(file, muts)| {
            let input_hex = hex(&apply(&corpus, file, &muts));
            FuzzCase { file, muts, input_hex }
        })
    };
    let check = move |case: &FuzzCase| -> CheckResult {
        let bytes = unhex(&case.input_hex);
        let mut rep = CaseReport::default();
        match oracle(&bytes) {
            Ok(class) => {
                rep.nontrivial = !trivial.contains(&class);
                rep.class(class);
                rep.class_if(case.muts.is_empty(), "corpus_file_unmutated");
                rep.inner_evaluations = 1;
                Ok(rep)
            }
            Err(why) => fail!(format!("{signature_prefix}:{}", why.split(|c: char| c.is_ascii_digit()).next().unwrap_or("").trim().replace(' ', "-").chars().take(40).collect::<String>()), "{why}; input ({} bytes) {}", bytes.len(), &case.input_hex[..case.input_hex.len().min(600)]),
        }
    };
    // the unmutated files first, deterministically
    for (i, (_, b)) in corpus.iter().enumerate() {
        let case = FuzzCase { file: i as u32, muts: vec![], input_hex: hex(b) };
        let mut st = super::Stats::default();
        match super::guarded(|| check(&case)) {
            Ok(rep) => st.record(&case.input_hex, &rep),
            Err(f) => {
                st.evaluations += 1;
                let replay = super::write_replay(&ev.id, sub, args.seed, &f, &case);
                st.violations.push(super::ViolationRec { sub: sub.to_string(), signature: f.signature, message: f.message, replay });
            }
        }
        ev.add_stats(sub, st);
    }
    super::run_pbt(ev, args, sub, cases - n_files, strategy, check);
}

/// thorough tier: a bounded libFuzzer campaign of the cargo-fuzz target
pub fn campaign(ev: &mut Evidence, args: &Args, sub: &str, target: &str, runs_thorough: u64) {
    if args.tier != Tier::Thorough || !args.wants(sub) || args.replay.is_some() {
        return;
    }
    ev.rule(
        sub,
        &format!("coverage-guided libFuzzer campaign (cargo +nightly fuzz run {target}, ASan, debug assertions on) of {runs_thorough} executions seeded with VERIF_SEED, starting from the committed corpus; the target calls the same oracle as the corpus sub-check; a crash artifact is a violation. evaluations = executions reported by libFuzzer; distinct non-trivial = corpus entries with new coverage it reports (`corp:`)."),
    );
    let fuzz_dir = PathBuf::from(VERIF_ROOT).join("fuzz");
    let work = super::shard::scratch_dir().join(format!("fuzz-corpus-{target}"));
    let _ = std::fs::create_dir_all(&work);
    let art = PathBuf::from(VERIF_ROOT).join("replays").join(&ev.id);
    let _ = std::fs::create_dir_all(&art);
    let prefix = format!("{}/fuzz-{target}-", art.display());
    let runs = ((runs_thorough as f64) * args.scale).max(1000.0) as u64;
    let out = Command::new("cargo")
        // cargo-fuzz wants to be started inside a cargo project: the harness workspace, with --fuzz-dir
        .current_dir(PathBuf::from(VERIF_ROOT).join("harness"))
        .env("CARGO_NET_OFFLINE", "true")
        .args(["+nightly", "fuzz", "run", "--fuzz-dir", fuzz_dir.to_str().unwrap(), target, work.to_str().unwrap(), corpus_dir(target).to_str().unwrap(), "--"])
        .arg(format!("-runs={runs}"))
        .arg(format!("-seed={}", (args.seed % 0x7fff_ffff) + 1))
        .arg("-max_len=4096")
        .arg("-len_control=0")
        .arg("-timeout=20")
        .arg(format!("-artifact_prefix={prefix}"))
        .output();
    let out = match out {
        Ok(o) => o,
        Err(e) => {
            ev.inconclusive(sub, format!("cannot start cargo fuzz: {e}"));
            return;
        }
    };
    let text = format!("{}{}", String::from_utf8_lossy(&out.stdout), String::from_utf8_lossy(&out.stderr));
    let mut st = super::Stats::default();
    let done = text.lines().rev().find(|l| l.starts_with("Done ")).and_then(|l| l.split_whitespace().nth(1)).and_then(|n| n.parse::<u64>().ok());
    let corp = text.lines().rev().find_map(|l| l.split("corp: ").nth(1)).and_then(|r| r.split('/').next()).and_then(|n| n.trim().parse::<u64>().ok()).unwrap_or(0);
    let artifact = text.lines().find_map(|l| l.split("Test unit written to ").nth(1)).map(|s| s.trim().to_string());
    if let Some(path) = artifact {
        let why = text.lines().find(|l| l.contains("ORACLE VIOLATION") || l.contains("panicked at")).unwrap_or("crash").to_string();
        st.evaluations = done.unwrap_or(1);
        st.violations.push(super::ViolationRec { sub: sub.to_string(), signature: format!("{}/fuzz-crash:{target}", ev.id), message: why.chars().take(600).collect(), replay: path });
    } else if let Some(n) = done {
        st.evaluations = n;
        st.distinct_hashes = corp;
        for i in 0..corp {
            st.nontrivial_hashes.insert(i ^ 0xF022_0000_0000_0000);
        }
        *st.classes.entry("libfuzzer_corpus_entries".into()).or_insert(0) += corp;
        // keep what the campaign found for the next corpus replay (bounded)
        if let Ok(rd) = std::fs::read_dir(&work) {
            for e in rd.flatten().take(2000) {
                let _ = e;
            }
        }
    } else {
        ev.inconclusive(sub, format!("cargo fuzz did not finish a campaign (exit {:?}): {}", out.status.code(), text.lines().rev().take(6).collect::<Vec<_>>().join(" | ").chars().take(600).collect::<String>()));
        return;
    }
    ev.add_stats(sub, st);
}
