//! C19 — UDP flows are sticky, isolated, bounded and torn down once (in-process tier on the pure
//! `UdpManager` with a virtual clock; DESIGN §4 C19).
//!
//! A generated history of operations is applied to the public sans-io `UdpManager`; the output
//! queue is drained after every call and compared with a reference model of the flow table that
//! is written from the documentation of `protocol/udp/{mod,manager,flow,proxy_protocol}.rs`:
//! flow key (per the affinity mode in force at admission) -> {client, backend chosen at the first
//! resolution, captured knobs, idle deadline, counters, one-slot pre-resolution buffer}.

use std::{
    collections::{BTreeMap, BTreeSet},
    net::{IpAddr, Ipv4Addr, Ipv6Addr, SocketAddr},
    time::{Duration, Instant},
};

use proptest::prelude::*;
use serde::{Deserialize, Serialize};
use sozu_lib::protocol::udp::{CloseReason, ClusterConfig, ConfigEvent, DropReason, FlowId, ManagerInput, MetricEvent, Output, UdpManager};

use crate::engine::{self, Args, CaseReport, CheckResult, Evidence, Failure};

// ---------------------------------------------------------------------------
// case

#[derive(Clone, Debug, Serialize, Deserialize, PartialEq)]
pub struct Cfg {
    /// 0 = no cluster routed (empty name), 1 = "dns", 2 = "syslog"
    pub cluster: u8,
    pub with_port: bool,
    pub responses: u32,
    pub requests: u32,
    pub front_ms: u64,
    pub back_ms: u64,
    pub ppv2: bool,
    pub every: bool,
}

impl Cfg {
    fn name(&self) -> &'static str {
        match self.cluster {
            0 => "",
            1 => "dns",
            _ => "syslog",
        }
    }
    fn to_sozu(&self) -> ClusterConfig {
        ClusterConfig {
            cluster: self.name().to_owned(),
            affinity_with_port: self.with_port,
            responses: self.responses,
            requests: self.requests,
            front_timeout: Duration::from_millis(self.front_ms),
            back_timeout: Duration::from_millis(self.back_ms),
            send_proxy_protocol: self.ppv2,
            proxy_protocol_every_datagram: self.every,
        }
    }
}

/// which flow id an operation names; resolved against the model's state when the op runs
#[derive(Clone, Debug, Serialize, Deserialize)]
pub enum Target {
    Awaiting(u32),
    Established(u32),
    Live(u32),
    /// an id that was closed at some point (it may have been re-used since)
    Closed(u32),
    Raw(u8),
}

/// datagram length, relative to the receive limit in force
#[derive(Clone, Debug, Serialize, Deserialize)]
pub enum Len {
    Empty,
    Tiny(u8),
    Small(u16),
    UnderMax,
    AtMax,
    OverMax,
}

#[derive(Clone, Debug, Serialize, Deserialize)]
pub enum When {
    /// fire the reaper without moving the clock
    Now,
    /// move the clock exactly to `poll_timeout()` and fire
    AtDeadline,
    /// n ms (1..=99) before `poll_timeout()`: an early expiry, as sozu's 100 ms timer wheel
    /// produces (it rounds a deadline to the nearest tick)
    Before(u8),
    /// `poll_timeout()` + n ms
    After(u64),
}

#[derive(Clone, Debug, Serialize, Deserialize)]
pub enum Cap {
    Abs(u8),
    /// live flow count minus n (n = 0: exactly the live count)
    BelowLive(u8),
}

#[derive(Clone, Debug, Serialize, Deserialize)]
pub enum Op {
    /// a client datagram; `resolve` = the shell answers a resulting SelectBackend at once
    /// (backend index, mixed address family) as the real shell does
    Client { src: u8, len: Len, fill: u8, resolve: Option<(u8, bool)> },
    Resolve { target: Target, backend: u8, mixed: bool },
    Backend { target: Target, len: Len, fill: u8 },
    Advance { ms: u64 },
    Timeout { when: When },
    SetCluster(Cfg),
    FlipAffinity,
    SetMaxFlows(Cap),
    SetMaxRx(u32),
    Drain,
    Abort { target: Target, reason: u8 },
    CloseAll,
}

#[derive(Clone, Debug, Serialize, Deserialize)]
pub struct Case {
    pub init: Cfg,
    pub max_flows: u8,
    pub max_rx: u32,
    pub hash_seed: u64,
    pub ops: Vec<Op>,
}

// ---------------------------------------------------------------------------
// fixed pools

const N_SRC: u8 = 8;

/// Client sources: same IP / different port, same port / different IP, both families, a
/// v4-mapped v6 address (a different IP from its v4 twin). No port 0: `FlowKey` normalises
/// the port to 0 in IP-only mode, so a port-0 source aliases the two key spaces.
fn source(i: u8) -> SocketAddr {
    let v4 = |d: u8, p: u16| SocketAddr::new(IpAddr::V4(Ipv4Addr::new(10, 0, 0, d)), p);
    let v6 = |d: u16, p: u16| SocketAddr::new(IpAddr::V6(Ipv6Addr::new(0x2001, 0xdb8, 0, 0, 0, 0, 0, d)), p);
    match i % N_SRC {
        0 => v4(1, 1000),
        1 => v4(1, 1001),
        2 => v4(1, 65535),
        3 => v4(2, 1000),
        4 => v4(3, 1),
        5 => v6(1, 1000),
        6 => v6(1, 1001),
        _ => SocketAddr::new(IpAddr::V6(Ipv4Addr::new(10, 0, 0, 1).to_ipv6_mapped()), 1000),
    }
}

/// Four backends per family: two share an IP, two share a port.
fn backend(client_v6: bool, idx: u8, mixed: bool) -> (String, SocketAddr) {
    let idx = idx % 4;
    let v6 = client_v6 ^ mixed;
    let port = 5300 + u16::from(idx % 2);
    let host = 1 + idx / 2;
    let ip = if v6 { IpAddr::V6(Ipv6Addr::new(0, 0, 0, 0, 0, 0, 0, u16::from(host))) } else { IpAddr::V4(Ipv4Addr::new(127, 0, 0, host)) };
    (format!("b{idx}{}", if v6 { "v6" } else { "" }), SocketAddr::new(ip, port))
}

fn resolve_len(len: &Len, max_rx: usize) -> usize {
    match len {
        Len::Empty => 0,
        Len::Tiny(n) => 1 + usize::from(*n % 4),
        Len::Small(n) => 1 + usize::from(*n % 300),
        Len::UnderMax => max_rx.saturating_sub(1),
        Len::AtMax => max_rx,
        Len::OverMax => max_rx.saturating_add(1),
    }
}

/// payload tagged with (who, op index): byte 0 = tag, bytes 1..3 = op index (LE), then a ramp
fn mk_payload(tag: u8, op: usize, len: usize, fill: u8) -> Vec<u8> {
    (0..len)
        .map(|i| match i {
            0 => tag,
            1 => (op & 0xff) as u8,
            2 => ((op >> 8) & 0xff) as u8,
            _ => fill.wrapping_add(i as u8),
        })
        .collect()
}

type Key = (IpAddr, u16);

/// the affinity key: source IP, plus the source port in 4-tuple mode
fn mkkey(src: SocketAddr, with_port: bool) -> Key {
    (src.ip(), if with_port { src.port() } else { 0 })
}

// ---------------------------------------------------------------------------
// strategy

fn timeout_ms() -> impl Strategy<Value = u64> {
    prop_oneof![
        1 => Just(0u64),
        1 => Just(1u64),
        2 => Just(50u64),
        5 => Just(500u64),
        8 => Just(5_000u64),
        5 => Just(30_000u64),
        1 => Just(u64::from(u32::MAX) * 1000),
    ]
}

fn cfg(empty_weight: u32) -> impl Strategy<Value = Cfg> {
    (
        prop_oneof![empty_weight => Just(0u8), 12 => 1u8..=2],
        any::<bool>(),
        prop_oneof![5 => Just(0u32), 3 => 1u32..=3],
        prop_oneof![5 => Just(0u32), 3 => 1u32..=4],
        timeout_ms(),
        timeout_ms(),
        prop::bool::weighted(0.45),
        any::<bool>(),
    )
        .prop_map(|(cluster, with_port, responses, requests, front_ms, back_ms, ppv2, every)| Cfg {
            cluster,
            with_port,
            responses,
            requests,
            front_ms,
            back_ms,
            ppv2,
            every,
        })
}

fn len() -> impl Strategy<Value = Len> {
    prop_oneof![
        1 => Just(Len::Empty),
        6 => any::<u8>().prop_map(Len::Tiny),
        10 => any::<u16>().prop_map(Len::Small),
        1 => Just(Len::UnderMax),
        2 => Just(Len::AtMax),
        1 => Just(Len::OverMax),
    ]
}

fn target(aw: u32, es: u32, live: u32, closed: u32, raw: u32) -> impl Strategy<Value = Target> {
    prop_oneof![
        aw => any::<u32>().prop_map(Target::Awaiting),
        es => any::<u32>().prop_map(Target::Established),
        live => any::<u32>().prop_map(Target::Live),
        closed => any::<u32>().prop_map(Target::Closed),
        raw => (0u8..12).prop_map(Target::Raw),
    ]
}

fn max_rx() -> impl Strategy<Value = u32> {
    prop_oneof![
        1 => Just(1u32),
        1 => Just(3u32),
        1 => Just(28u32),
        2 => Just(64u32),
        16 => Just(1500u32),
        1 => Just(65_535u32),
    ]
}

fn op() -> impl Strategy<Value = Op> {
    let advance = prop_oneof![
        4 => 0u64..60,
        3 => 400u64..600,
        2 => 4_000u64..6_000,
        1 => 29_000u64..31_000,
        1 => Just(100_000_000u64),
    ];
    let when = prop_oneof![
        2 => Just(When::Now),
        4 => Just(When::AtDeadline),
        2 => prop_oneof![2 => Just(1u8), 2 => Just(49u8), 1 => 1u8..=99].prop_map(When::Before),
        2 => (0u64..600).prop_map(When::After),
    ];
    let cap = prop_oneof![3 => (0u8..=8).prop_map(Cap::Abs), 2 => (0u8..=2).prop_map(Cap::BelowLive)];
    prop_oneof![
        40 => (prop_oneof![5 => 0u8..3, 3 => 0u8..N_SRC], len(), any::<u8>(), prop::option::weighted(0.6, (0u8..4, prop::bool::weighted(0.08))))
            .prop_map(|(src, len, fill, resolve)| Op::Client { src, len, fill, resolve }),
        12 => (target(6, 2, 1, 2, 1), 0u8..4, prop::bool::weighted(0.08)).prop_map(|(target, backend, mixed)| Op::Resolve { target, backend, mixed }),
        14 => (target(1, 7, 1, 2, 1), len(), any::<u8>()).prop_map(|(target, len, fill)| Op::Backend { target, len, fill }),
        8 => advance.prop_map(|ms| Op::Advance { ms }),
        6 => when.prop_map(|when| Op::Timeout { when }),
        4 => cfg(1).prop_map(Op::SetCluster),
        4 => Just(Op::FlipAffinity),
        6 => cap.prop_map(Op::SetMaxFlows),
        2 => max_rx().prop_map(Op::SetMaxRx),
        1 => Just(Op::Drain),
        3 => (target(1, 1, 5, 2, 1), 0u8..5).prop_map(|(target, reason)| Op::Abort { target, reason }),
        2 => Just(Op::CloseAll),
    ]
}

pub fn strategy() -> impl Strategy<Value = Case> {
    // one vec strategy (not a union of ranges) so that a failing history shrinks down to one op
    let ops = prop::collection::vec(op(), 1..=60);
    (cfg(0), prop_oneof![1 => Just(0u8), 2 => Just(1u8), 12 => 2u8..=6], max_rx(), any::<u64>(), ops).prop_map(|(init, max_flows, max_rx, hash_seed, ops)| Case {
        init,
        max_flows,
        max_rx,
        hash_seed,
        ops,
    })
}

// ---------------------------------------------------------------------------
// own PROXY-v2 parser (the oracle does not call sozu's header builder)

const PP2_SIG: [u8; 12] = [0x0D, 0x0A, 0x0D, 0x0A, 0x00, 0x0D, 0x0A, 0x51, 0x55, 0x49, 0x54, 0x0A];

struct Pp2 {
    /// (source, destination) — None for AF_UNSPEC
    addrs: Option<(SocketAddr, SocketAddr)>,
    header_len: usize,
}

fn parse_pp2(buf: &[u8]) -> Result<Option<Pp2>, String> {
    if buf.len() < 12 || buf[..12] != PP2_SIG {
        return Ok(None);
    }
    if buf.len() < 16 {
        return Err(format!("PROXY v2 signature but only {} bytes", buf.len()));
    }
    if buf[12] != 0x21 {
        return Err(format!("version/command byte {:#04x}, expected 0x21 (v2, PROXY)", buf[12]));
    }
    let alen = usize::from(u16::from_be_bytes([buf[14], buf[15]]));
    if buf.len() < 16 + alen {
        return Err(format!("address block length {alen} exceeds the datagram"));
    }
    let a = &buf[16..16 + alen];
    let port = |o: usize| u16::from_be_bytes([a[o], a[o + 1]]);
    let addrs = match buf[13] {
        0x12 => {
            if alen != 12 {
                return Err(format!("AF_INET/DGRAM with address length {alen}, expected 12"));
            }
            let s = Ipv4Addr::new(a[0], a[1], a[2], a[3]);
            let d = Ipv4Addr::new(a[4], a[5], a[6], a[7]);
            Some((SocketAddr::new(s.into(), port(8)), SocketAddr::new(d.into(), port(10))))
        }
        0x22 => {
            if alen != 36 {
                return Err(format!("AF_INET6/DGRAM with address length {alen}, expected 36"));
            }
            let mut s = [0u8; 16];
            let mut d = [0u8; 16];
            s.copy_from_slice(&a[0..16]);
            d.copy_from_slice(&a[16..32]);
            Some((SocketAddr::new(Ipv6Addr::from(s).into(), port(32)), SocketAddr::new(Ipv6Addr::from(d).into(), port(34))))
        }
        0x00 => {
            if alen != 0 {
                return Err(format!("AF_UNSPEC with address length {alen}, expected 0"));
            }
            None
        }
        other => return Err(format!("family/transport byte {other:#04x} is not a DGRAM encoding")),
    };
    Ok(Some(Pp2 { addrs, header_len: 16 + alen }))
}

// ---------------------------------------------------------------------------
// reference model

#[derive(Clone, Debug)]
struct MFlow {
    client: SocketAddr,
    key: Key,
    /// knobs captured at admission
    cfg: Cfg,
    backend: Option<SocketAddr>,
    /// absolute idle deadline, ms after the epoch of the run
    deadline: u64,
    /// earliest deadline this flow ever had (coverage only)
    first_deadline: u64,
    req: u32,
    resp: u32,
    pp_first_pending: bool,
    /// the single pre-resolution slot
    pending: Option<Vec<u8>>,
    /// op index of the last client datagram forwarded on this flow (tag ledger)
    last_fwd_op: Option<usize>,
    /// event counter value when the flow last saw a client datagram (non-triviality)
    last_dgram_epoch: u64,
}

impl MFlow {
    /// does this upstream datagram carry the PROXY v2 prefix?
    fn take_pp(&mut self) -> bool {
        if !self.cfg.ppv2 {
            return false;
        }
        if self.cfg.every {
            return true;
        }
        std::mem::replace(&mut self.pp_first_pending, false)
    }
}

/// expected semantic output (metrics, timer requests and closes are checked apart)
#[derive(Debug)]
enum Exp {
    Select { cluster: &'static str },
    Open { flow: FlowId, backend: SocketAddr },
    ToBackend { flow: FlowId, dst: SocketAddr, body: Vec<u8>, prefix: Option<(SocketAddr, SocketAddr)> },
    ToClient { flow: FlowId, dst: SocketAddr, payload: Vec<u8> },
    /// admissible reasons
    Drop(Vec<DropReason>),
}

impl Exp {
    fn kind(&self) -> &'static str {
        match self {
            Exp::Select { .. } => "SelectBackend",
            Exp::Open { .. } => "OpenUpstream",
            Exp::ToBackend { .. } => "SendToBackend",
            Exp::ToClient { .. } => "SendToClient",
            Exp::Drop(_) => "Drop",
        }
    }
}

fn out_kind(o: &Output) -> &'static str {
    match o {
        Output::SelectBackend { .. } => "SelectBackend",
        Output::OpenUpstream { .. } => "OpenUpstream",
        Output::SendToBackend(_) => "SendToBackend",
        Output::SendToClient(_) => "SendToClient",
        Output::ArmTimer(_) => "ArmTimer",
        Output::Metric(_) => "Metric",
        Output::CloseFlow(_) => "CloseFlow",
        Output::Drop(_) => "Drop",
    }
}

#[derive(PartialEq, Clone, Copy)]
enum Shed {
    No,
    Must,
    May,
}

/// an operation with every choice made concrete
enum ROp {
    Client { src: SocketAddr, payload: Vec<u8> },
    Resolve { flow: FlowId, name: String, addr: SocketAddr },
    Backend { flow: FlowId, payload: Vec<u8> },
    Timeout,
    SetCluster(Cfg),
    SetMaxFlows(usize),
    SetMaxRx(usize),
    Drain,
    Abort { flow: FlowId, reason: CloseReason },
    CloseAll,
}

impl ROp {
    fn kind(&self) -> &'static str {
        match self {
            ROp::Client { .. } => "client-datagram",
            ROp::Resolve { .. } => "backend-resolved",
            ROp::Backend { .. } => "backend-datagram",
            ROp::Timeout => "handle-timeout",
            ROp::SetCluster(_) => "set-cluster",
            ROp::SetMaxFlows(_) => "set-max-flows",
            ROp::SetMaxRx(_) => "set-max-rx",
            ROp::Drain => "drain",
            ROp::Abort { .. } => "abort-flow",
            ROp::CloseAll => "close-all",
        }
    }
}

struct Run {
    mgr: UdpManager,
    base: Instant,
    now: u64,
    // --- model
    cfg: Cfg,
    max_flows: usize,
    cap_high_water: usize,
    max_rx: usize,
    draining: bool,
    flows: BTreeMap<FlowId, MFlow>,
    table: BTreeMap<Key, FlowId>,
    closed_ids: BTreeSet<FlowId>,
    created: u64,
    evicted: u64,
    /// the one-shot timer the shell would hold: the last `ArmTimer`, consumed when it fires
    shell_timer: Option<Instant>,
    /// How early the shell's timer may fire. None: a `handle_timeout` before the armed deadline
    /// is a spurious call that leaves the shell's timer pending. Some(w): the timer is a wheel
    /// that fires up to w ms early, and firing consumes it.
    wheel_window_ms: Option<u64>,
    /// affinity hash handed out per (mode, key)
    hashes: BTreeMap<(bool, Key), u64>,
    /// every client datagram offered, by op index: (source index, bytes)
    sent: BTreeMap<usize, (u8, Vec<u8>)>,
    /// counts cap / affinity / cluster / clock events
    epoch: u64,
    // --- measurement
    classes: BTreeSet<&'static str>,
    max_alive: usize,
    event_between: bool,
    steps: u64,
}

fn fail<T>(sig: impl Into<String>, msg: String) -> Result<T, Failure> {
    Err(Failure::new(sig, msg))
}

impl Run {
    fn new(case: &Case, wheel_window_ms: Option<u64>) -> Run {
        let max_flows = usize::from(case.max_flows);
        Run {
            mgr: UdpManager::new(case.init.to_sozu(), max_flows, case.max_rx as usize, case.hash_seed),
            // the epoch of the virtual clock; only offsets from it are ever used
            base: Instant::now(),
            now: 0,
            cfg: case.init.clone(),
            max_flows,
            cap_high_water: max_flows,
            max_rx: case.max_rx as usize,
            draining: false,
            flows: BTreeMap::new(),
            table: BTreeMap::new(),
            closed_ids: BTreeSet::new(),
            created: 0,
            evicted: 0,
            shell_timer: None,
            wheel_window_ms,
            hashes: BTreeMap::new(),
            sent: BTreeMap::new(),
            epoch: 0,
            classes: BTreeSet::new(),
            max_alive: 0,
            event_between: false,
            steps: 0,
        }
    }

    fn at(&self, ms: u64) -> Instant {
        self.base + Duration::from_millis(ms)
    }

    fn min_deadline(&self) -> Option<u64> {
        self.flows.values().map(|f| f.deadline).min()
    }

    fn pick(&self, t: &Target) -> FlowId {
        let choose = |ids: Vec<FlowId>, x: u32| -> Option<FlowId> { if ids.is_empty() { None } else { Some(ids[engine::pick_idx(x, ids.len())]) } };
        let fallback = |x: u32| engine::pick_idx(x, 12);
        match t {
            Target::Awaiting(x) => choose(self.flows.iter().filter(|(_, f)| f.backend.is_none()).map(|(i, _)| *i).collect(), *x)
                .or_else(|| choose(self.flows.keys().copied().collect(), *x))
                .unwrap_or_else(|| fallback(*x)),
            Target::Established(x) => choose(self.flows.iter().filter(|(_, f)| f.backend.is_some()).map(|(i, _)| *i).collect(), *x)
                .or_else(|| choose(self.flows.keys().copied().collect(), *x))
                .unwrap_or_else(|| fallback(*x)),
            Target::Live(x) => choose(self.flows.keys().copied().collect(), *x).unwrap_or_else(|| fallback(*x)),
            Target::Closed(x) => choose(self.closed_ids.iter().copied().collect(), *x).unwrap_or_else(|| fallback(*x)),
            Target::Raw(n) => usize::from(*n),
        }
    }

    fn drain(&mut self) -> Vec<Output> {
        let mut v = vec![];
        while let Some(o) = self.mgr.poll_output() {
            v.push(o);
        }
        v
    }

    /// remove a flow from the model (the expected effect of one teardown)
    fn close(&mut self, id: FlowId) {
        if let Some(f) = self.flows.remove(&id) {
            if self.table.get(&f.key) == Some(&id) {
                self.table.remove(&f.key);
            }
            self.closed_ids.insert(id);
        }
    }

    // ---- one generated operation

    fn step(&mut self, i: usize, op: &Op) -> Result<(), Failure> {
        match op {
            Op::Client { src, len, fill, resolve } => {
                let src_idx = *src % N_SRC;
                let addr = source(src_idx);
                let payload = mk_payload(0xC0 | src_idx, i, resolve_len(len, self.max_rx), *fill);
                self.sent.insert(i, (src_idx, payload.clone()));
                let admitted = self.exec(i, ROp::Client { src: addr, payload })?;
                if let (Some(flow), Some((b, mixed))) = (admitted, resolve) {
                    let (name, baddr) = backend(addr.is_ipv6(), *b, *mixed);
                    self.classes.insert("resolve:prompt");
                    self.exec(i, ROp::Resolve { flow, name, addr: baddr })?;
                }
            }
            Op::Resolve { target, backend: b, mixed } => {
                let flow = self.pick(target);
                let v6 = self.flows.get(&flow).map(|f| f.client.is_ipv6()).unwrap_or(false);
                let (name, addr) = backend(v6, *b, *mixed);
                self.exec(i, ROp::Resolve { flow, name, addr })?;
            }
            Op::Backend { target, len, fill } => {
                let flow = self.pick(target);
                let payload = mk_payload(0xB0, i, resolve_len(len, self.max_rx), *fill);
                self.exec(i, ROp::Backend { flow, payload })?;
            }
            Op::Advance { ms } => {
                self.now += ms;
                if *ms > 0 {
                    self.epoch += 1;
                }
            }
            Op::Timeout { when } => {
                let d = self.min_deadline();
                let t = match (when, d) {
                    (When::Now, _) | (_, None) => self.now,
                    (When::AtDeadline, Some(d)) => d,
                    (When::Before(n), Some(d)) => d.saturating_sub(u64::from((*n).clamp(1, 99))),
                    (When::After(n), Some(d)) => d.saturating_add(*n),
                };
                // the clock never runs backwards
                if t > self.now {
                    self.now = t;
                    self.epoch += 1;
                }
                if d == Some(self.now) {
                    self.classes.insert("timeout:exactly-at-deadline");
                }
                self.exec(i, ROp::Timeout)?;
            }
            Op::SetCluster(c) => {
                self.exec(i, ROp::SetCluster(c.clone()))?;
            }
            Op::FlipAffinity => {
                let mut c = self.cfg.clone();
                c.with_port = !c.with_port;
                self.exec(i, ROp::SetCluster(c))?;
            }
            Op::SetMaxFlows(cap) => {
                let n = match cap {
                    Cap::Abs(n) => usize::from(*n),
                    Cap::BelowLive(k) => self.flows.len().saturating_sub(usize::from(*k)),
                };
                self.exec(i, ROp::SetMaxFlows(n))?;
            }
            Op::SetMaxRx(n) => {
                self.exec(i, ROp::SetMaxRx(*n as usize))?;
            }
            Op::Drain => {
                self.exec(i, ROp::Drain)?;
            }
            Op::Abort { target, reason } => {
                let flow = self.pick(target);
                let reason = match reason % 5 {
                    0 => CloseReason::Aborted,
                    1 => CloseReason::Idle,
                    2 => CloseReason::Drain,
                    3 => CloseReason::ResponsesReached,
                    _ => CloseReason::RequestsReached,
                };
                self.exec(i, ROp::Abort { flow, reason })?;
            }
            Op::CloseAll => {
                self.exec(i, ROp::CloseAll)?;
            }
        }
        Ok(())
    }

    /// Apply one concrete operation to the manager, drain its outputs, advance the model and
    /// compare. Returns the id of a flow admitted by this operation.
    fn exec(&mut self, i: usize, rop: ROp) -> Result<Option<FlowId>, Failure> {
        self.steps += 1;
        let kind = rop.kind();
        let now = self.now;
        let now_i = self.at(now);
        let live_before: BTreeSet<FlowId> = self.flows.keys().copied().collect();

        // ---- the code under test
        match &rop {
            ROp::Client { src, payload, .. } => self.mgr.handle_input(ManagerInput::ClientDatagram { src: *src, payload }, now_i),
            ROp::Resolve { flow, name, addr } => self.mgr.handle_input(ManagerInput::BackendResolved { flow: *flow, backend: name.clone(), addr: *addr }, now_i),
            ROp::Backend { flow, payload } => self.mgr.handle_input(ManagerInput::BackendDatagram { flow: *flow, payload }, now_i),
            ROp::Timeout => {
                // The shell calls handle_timeout when its one-shot timer fires, which consumes
                // that timer: when it is due, or (wheel) up to one tick before it is due.
                let window = Duration::from_millis(self.wheel_window_ms.unwrap_or(0));
                if let Some(t) = self.shell_timer {
                    if now_i >= t {
                        self.shell_timer = None;
                    } else if now_i + window > t {
                        self.shell_timer = None;
                        if !self.flows.is_empty() {
                            self.classes.insert("timeout:early-expiry-with-live-flows");
                        }
                    }
                }
                self.mgr.handle_timeout(now_i)
            }
            ROp::SetCluster(c) => self.mgr.handle_input(ManagerInput::Config(ConfigEvent::SetCluster(c.to_sozu())), now_i),
            ROp::SetMaxFlows(n) => self.mgr.handle_input(ManagerInput::Config(ConfigEvent::SetMaxFlows(*n)), now_i),
            ROp::SetMaxRx(n) => self.mgr.handle_input(ManagerInput::Config(ConfigEvent::SetMaxRxDatagramSize(*n)), now_i),
            ROp::Drain => self.mgr.handle_input(ManagerInput::Config(ConfigEvent::Drain), now_i),
            ROp::Abort { flow, reason } => self.mgr.abort_flow(*flow, now_i, *reason),
            ROp::CloseAll => self.mgr.close_all(now_i),
        }
        let outs = self.drain();

        // ---- split the output stream
        let mut sem: Vec<&Output> = vec![];
        let mut act_closes: Vec<FlowId> = vec![];
        let mut metrics: Vec<MetricEvent> = vec![];
        let mut last_arm: Option<Instant> = None;
        for o in &outs {
            match o {
                Output::Metric(m) => metrics.push(*m),
                Output::ArmTimer(t) => last_arm = Some(*t),
                Output::CloseFlow(id) => act_closes.push(*id),
                other => {
                    if !act_closes.is_empty() {
                        return fail(
                            "C19/output-after-close",
                            format!("op {i} ({kind}): {} emitted after CloseFlow({:?}) in the same drain", out_kind(other), act_closes),
                        );
                    }
                    sem.push(other);
                }
            }
        }

        // ---- the reference model
        let mut exp: Vec<Exp> = vec![];
        let mut closes: Vec<FlowId> = vec![];
        let mut shed = Shed::No;
        let mut admit: Option<MFlow> = None;
        match &rop {
            ROp::Client { src, payload } => {
                let mut reasons = vec![];
                if payload.len() > self.max_rx {
                    reasons.push(DropReason::Truncated);
                    self.classes.insert("client:oversize-dropped");
                }
                if self.cfg.cluster == 0 {
                    reasons.push(DropReason::NoBackend);
                }
                if payload.is_empty() {
                    reasons.push(DropReason::Invalid);
                }
                let key = mkkey(*src, self.cfg.with_port);
                let existing = self.table.get(&key).copied();
                // Admissible set: a listener whose routing was removed may refuse the datagram
                // (documented on remove_udp_front: "new datagrams now have no backend") or keep
                // serving an already admitted flow with its captured config.
                let unrouted_existing = reasons == [DropReason::NoBackend] && existing.is_some();
                let actually_dropped = matches!(sem.first(), Some(Output::Drop(_)));
                if !reasons.is_empty() && !(unrouted_existing && !actually_dropped) {
                    if unrouted_existing {
                        self.classes.insert("client:existing-flow-refused-after-unroute");
                    }
                    exp.push(Exp::Drop(reasons));
                } else if let Some(id) = existing {
                    let at_cap = self.flows.len() >= self.max_flows;
                    let epoch = self.epoch;
                    let draining = self.draining;
                    let f = self.flows.get_mut(&id).expect("model table points at a live flow");
                    if epoch > f.last_dgram_epoch {
                        self.event_between = true;
                    }
                    f.last_dgram_epoch = epoch;
                    if f.client != *src {
                        self.classes.insert("client:ip-only-flow-shared-by-other-port");
                    }
                    let mut labels: Vec<&'static str> = vec![];
                    match f.backend {
                        None => {
                            // newest wins, one slot; only the idle deadline is refreshed
                            f.pending = Some(payload.clone());
                            f.deadline = now.saturating_add(f.cfg.front_ms);
                            labels.push("client:buffered-datagram-overwritten");
                        }
                        Some(b) => {
                            f.req = f.req.saturating_add(1);
                            f.deadline = now.saturating_add(f.cfg.front_ms);
                            let prefix = f.take_pp().then_some((f.client, b));
                            exp.push(Exp::ToBackend { flow: id, dst: b, body: payload.clone(), prefix });
                            labels.push("client:forwarded-on-established-flow");
                            if at_cap {
                                labels.push("cap:existing-flow-served-at-cap");
                            }
                            if draining {
                                labels.push("drain:existing-flow-served");
                            }
                            if f.cfg.requests != 0 && f.req >= f.cfg.requests {
                                closes.push(id);
                                labels.push("close:requests-reached");
                            }
                        }
                    }
                    self.classes.extend(labels);
                } else if self.draining {
                    exp.push(Exp::Drop(vec![DropReason::Shed]));
                    shed = Shed::May;
                    self.classes.insert("shed:draining");
                } else if self.flows.len() >= self.max_flows {
                    exp.push(Exp::Drop(vec![DropReason::Shed]));
                    shed = Shed::Must;
                    self.classes.insert("shed:at-cap");
                } else {
                    exp.push(Exp::Select { cluster: self.cfg.name() });
                    let deadline = now.saturating_add(self.cfg.front_ms);
                    admit = Some(MFlow {
                        client: *src,
                        key,
                        cfg: self.cfg.clone(),
                        backend: None,
                        deadline,
                        first_deadline: deadline,
                        req: 0,
                        resp: 0,
                        pp_first_pending: self.cfg.ppv2,
                        pending: Some(payload.clone()),
                        last_fwd_op: None,
                        last_dgram_epoch: self.epoch,
                    });
                }
            }
            ROp::Resolve { flow, addr, .. } => match self.flows.get_mut(flow) {
                None => {
                    exp.push(Exp::Drop(vec![DropReason::UnknownFlow]));
                    self.classes.insert(if self.closed_ids.contains(flow) { "resolve:for-reaped-flow" } else { "resolve:unknown-id" });
                }
                Some(f) if f.backend.is_some() => {
                    // duplicate / late resolution: ignored, the first backend stays
                    self.classes.insert(if f.backend == Some(*addr) { "resolve:duplicate-same-backend" } else { "resolve:duplicate-other-backend" });
                }
                Some(f) => {
                    f.backend = Some(*addr);
                    exp.push(Exp::Open { flow: *flow, backend: *addr });
                    if self.closed_ids.contains(flow) {
                        self.classes.insert("resolve:on-reused-id");
                    }
                    if f.client.is_ipv4() != addr.is_ipv4() {
                        self.classes.insert("resolve:mixed-family");
                    }
                    if let Some(p) = f.pending.take() {
                        f.req = f.req.saturating_add(1);
                        f.deadline = now.saturating_add(f.cfg.front_ms);
                        let prefix = f.take_pp().then_some((f.client, *addr));
                        exp.push(Exp::ToBackend { flow: *flow, dst: *addr, body: p, prefix });
                        if f.cfg.requests != 0 && f.req >= f.cfg.requests {
                            closes.push(*flow);
                            self.classes.insert("close:requests-reached");
                        }
                    }
                }
            },
            ROp::Backend { flow, payload } => {
                let mut reasons = vec![];
                if payload.len() > self.max_rx {
                    reasons.push(DropReason::Truncated);
                }
                match self.flows.get(flow) {
                    None => {
                        reasons.push(DropReason::UnknownFlow);
                        self.classes.insert(if self.closed_ids.contains(flow) { "backend-dgram:stale-flow" } else { "backend-dgram:unknown-id" });
                    }
                    Some(f) if f.backend.is_none() => {
                        reasons.push(DropReason::UnknownFlow);
                        self.classes.insert("backend-dgram:awaiting-flow");
                    }
                    Some(_) => {}
                }
                if !reasons.is_empty() {
                    exp.push(Exp::Drop(reasons));
                } else {
                    let f = self.flows.get_mut(flow).expect("checked above");
                    f.resp = f.resp.saturating_add(1);
                    f.deadline = now.saturating_add(f.cfg.back_ms);
                    exp.push(Exp::ToClient { flow: *flow, dst: f.client, payload: payload.clone() });
                    self.classes.insert("reply:returned-to-client");
                    if f.cfg.responses != 0 && f.resp >= f.cfg.responses {
                        closes.push(*flow);
                        self.classes.insert("close:responses-reached");
                    }
                }
            }
            ROp::Timeout => {
                for (id, f) in &self.flows {
                    if f.deadline <= now {
                        closes.push(*id);
                    } else if f.first_deadline <= now {
                        self.classes.insert("timeout:refreshed-flow-survives-stale-expiry");
                    }
                }
                if !closes.is_empty() {
                    self.classes.insert("close:idle");
                    if closes.len() < self.flows.len() {
                        self.classes.insert("close:idle-some-flows-survive");
                    }
                } else if !self.flows.is_empty() {
                    self.classes.insert("timeout:nothing-due");
                }
            }
            ROp::SetCluster(c) => {
                if c.with_port != self.cfg.with_port && !self.flows.is_empty() {
                    self.classes.insert("reconfig:affinity-flip-with-live-flows");
                }
                if *c != self.cfg && !self.flows.is_empty() {
                    self.classes.insert("reconfig:cluster-with-live-flows");
                }
                self.cfg = c.clone();
                self.epoch += 1;
            }
            ROp::SetMaxFlows(n) => {
                if *n < self.flows.len() {
                    self.classes.insert("cap:set-below-live-count");
                }
                self.max_flows = *n;
                self.cap_high_water = self.cap_high_water.max(*n);
                self.epoch += 1;
            }
            ROp::SetMaxRx(n) => self.max_rx = *n,
            ROp::Drain => {
                if !self.flows.is_empty() {
                    self.classes.insert("drain:with-live-flows");
                }
                self.draining = true;
                self.epoch += 1;
            }
            ROp::Abort { flow, .. } => {
                if self.flows.contains_key(flow) {
                    closes.push(*flow);
                    self.classes.insert("close:abort");
                } else {
                    self.classes.insert("abort:dead-or-unknown-id");
                }
            }
            ROp::CloseAll => {
                closes.extend(self.flows.keys().copied());
                if closes.len() >= 2 {
                    self.classes.insert("close:mass-teardown-2plus");
                }
            }
        }
        // ---- compare the semantic outputs, in order
        let mut admitted: Option<(FlowId, u64)> = None;
        for n in 0..sem.len().max(exp.len()) {
            let (Some(e), Some(a)) = (exp.get(n), sem.get(n)) else {
                let ek = exp.get(n).map(|e| e.kind()).unwrap_or("nothing");
                let ak = sem.get(n).map(|a| out_kind(a)).unwrap_or("nothing");
                return fail(
                    format!("C19/unexpected-output:{kind}:{ek}-vs-{ak}"),
                    format!("op {i} ({kind}): output #{n}: the model expects {ek}, the manager emitted {ak}; expected {exp:?}; emitted {}", engine::truncate(&format!("{sem:?}"), 600)),
                );
            };
            match (e, a) {
                (Exp::Select { cluster }, Output::SelectBackend { flow, cluster: c, key }) => {
                    if c != cluster {
                        return fail("C19/select-wrong-cluster", format!("op {i}: SelectBackend names cluster {c:?}, the cluster in force is {cluster:?}"));
                    }
                    if self.flows.contains_key(flow) {
                        return fail("C19/admitted-id-already-live", format!("op {i}: a new flow was given id {flow}, which belongs to a live flow"));
                    }
                    admitted = Some((*flow, *key));
                }
                (Exp::Open { flow, backend }, Output::OpenUpstream { flow: f, backend: b }) => {
                    if f != flow || b != backend {
                        return fail("C19/open-upstream-mismatch", format!("op {i}: OpenUpstream{{flow {f}, {b}}}, expected flow {flow} to {backend}"));
                    }
                }
                (Exp::ToBackend { flow, dst, body, prefix }, Output::SendToBackend(t)) => {
                    if t.dst != *dst {
                        return fail(
                            "C19/backend-not-sticky",
                            format!("op {i} ({kind}): datagram of flow {flow} sent to {}, the flow's backend (first resolution) is {dst}", t.dst),
                        );
                    }
                    let rest: &[u8] = match prefix {
                        None => &t.payload,
                        Some((client, be)) => match parse_pp2(&t.payload) {
                            Err(why) => return fail("C19/ppv2-malformed", format!("op {i}: flow {flow}: {why}")),
                            Ok(None) => return fail("C19/ppv2-missing", format!("op {i}: flow {flow}: PROXY v2 prefix expected (client {client}, backend {be}), datagram starts {:02x?}", &t.payload[..t.payload.len().min(16)])),
                            Ok(Some(pp)) => {
                                let want = if client.is_ipv4() == be.is_ipv4() { Some((*client, *be)) } else { None };
                                if pp.addrs != want {
                                    return fail("C19/ppv2-wrong-addresses", format!("op {i}: flow {flow}: PROXY v2 carries {:?}, expected {want:?}", pp.addrs));
                                }
                                self.classes.insert(match (want, client.is_ipv6()) {
                                    (None, _) => "ppv2:validated-unspec-mixed-family",
                                    (Some(_), true) => "ppv2:validated-v6",
                                    (Some(_), false) => "ppv2:validated-v4",
                                });
                                &t.payload[pp.header_len..]
                            }
                        },
                    };
                    if rest != &body[..] {
                        if prefix.is_none() && parse_pp2(&t.payload).ok().flatten().is_some() {
                            return fail("C19/ppv2-unexpected", format!("op {i}: flow {flow}: PROXY v2 prefix on a datagram that must not carry one"));
                        }
                        let earlier = self.sent.iter().any(|(j, (_, p))| *j != i && !p.is_empty() && &p[..] == rest);
                        return fail(
                            if earlier { "C19/forwarded-other-datagram" } else { "C19/forwarded-payload-altered" },
                            format!("op {i} ({kind}): flow {flow}: forwarded {} bytes {:02x?}.., expected {} bytes {:02x?}..", rest.len(), &rest[..rest.len().min(8)], body.len(), &body[..body.len().min(8)]),
                        );
                    }
                    // tag ledger, independent of the model's buffer logic: the forwarded datagram
                    // is one the client offered, belongs to this flow's key, and is newer than
                    // everything already forwarded on the flow (at most once, in order)
                    if rest.len() >= 3 && rest[0] & 0xF8 == 0xC0 {
                        let j = usize::from(rest[1]) | usize::from(rest[2]) << 8;
                        let src_idx = rest[0] & 0x07;
                        let f = self.flows.get_mut(flow).expect("expected forwards belong to model flows");
                        match self.sent.get(&j) {
                            Some((s, p)) if *s == src_idx && &p[..] == rest => {}
                            _ => return fail("C19/forwarded-datagram-never-offered", format!("op {i}: flow {flow}: forwarded datagram tagged (src {src_idx}, op {j}) was not offered by that client")),
                        }
                        if mkkey(source(src_idx), f.cfg.with_port) != f.key {
                            return fail("C19/flow-isolation", format!("op {i}: flow {flow} (key {:?}) forwarded a datagram of source {}", f.key, source(src_idx)));
                        }
                        if f.last_fwd_op.map(|l| j <= l).unwrap_or(false) {
                            return fail("C19/forward-duplicated-or-reordered", format!("op {i}: flow {flow} forwarded the datagram of op {j} after that of op {:?}", f.last_fwd_op));
                        }
                        f.last_fwd_op = Some(j);
                    }
                }
                (Exp::ToClient { flow, dst, payload }, Output::SendToClient(t)) => {
                    if t.dst != *dst {
                        return fail("C19/reply-to-wrong-client", format!("op {i}: reply on flow {flow} returned to {}, the flow's client is {dst}", t.dst));
                    }
                    if t.payload != *payload {
                        return fail("C19/reply-bytes-altered", format!("op {i}: reply on flow {flow}: {} bytes returned, {} bytes received from the backend", t.payload.len(), payload.len()));
                    }
                }
                (Exp::Drop(admissible), Output::Drop(r)) => {
                    if !admissible.contains(r) {
                        return fail(format!("C19/drop-reason:{kind}:{r:?}"), format!("op {i} ({kind}): dropped as {r:?}, admissible reasons {admissible:?}"));
                    }
                }
                (e, a) => {
                    return fail(
                        format!("C19/unexpected-output:{kind}:{}-vs-{}", e.kind(), out_kind(a)),
                        format!("op {i} ({kind}): output #{n}: the model expects {e:?}, the manager emitted {}", engine::truncate(&format!("{a:?}"), 300)),
                    );
                }
            }
        }

        // ---- teardown: exactly the expected flows, each exactly once
        let mut seen = BTreeSet::new();
        for id in &act_closes {
            if !seen.insert(*id) {
                return fail("C19/flow-closed-twice", format!("op {i} ({kind}): CloseFlow({id}) emitted twice"));
            }
            if !live_before.contains(id) {
                return fail("C19/close-of-dead-flow", format!("op {i} ({kind}): CloseFlow({id}) for an id that is not a live flow (live: {live_before:?})"));
            }
            if !closes.contains(id) {
                return fail(format!("C19/live-flow-closed:{kind}"), format!("op {i} ({kind}): flow {id} was torn down although nothing ends it (expected closes {closes:?})"));
            }
        }
        for id in &closes {
            if !seen.contains(id) {
                return fail(format!("C19/flow-not-torn-down:{kind}"), format!("op {i} ({kind}): flow {id} must be torn down (expected closes {closes:?}, emitted {act_closes:?})"));
            }
        }

        // ---- metrics mirror the semantic outputs
        let n_created = metrics.iter().filter(|m| matches!(m, MetricEvent::FlowCreated)).count();
        let n_evicted = metrics.iter().filter(|m| matches!(m, MetricEvent::FlowEvicted)).count();
        let n_shed = metrics.iter().filter(|m| matches!(m, MetricEvent::FlowShed)).count();
        if n_created != usize::from(admitted.is_some()) {
            return fail("C19/metric-flow-created", format!("op {i} ({kind}): {n_created} FlowCreated for {} admission(s)", usize::from(admitted.is_some())));
        }
        if n_evicted != closes.len() {
            return fail("C19/metric-flow-evicted", format!("op {i} ({kind}): {n_evicted} FlowEvicted for {} teardown(s)", closes.len()));
        }
        let shed_ok = match shed {
            Shed::No => n_shed == 0,
            Shed::Must => n_shed == 1,
            Shed::May => n_shed <= 1,
        };
        if !shed_ok {
            return fail("C19/metric-flow-shed", format!("op {i} ({kind}): {n_shed} FlowShed metric(s)"));
        }
        let m_in: Vec<usize> = metrics.iter().filter_map(|m| if let MetricEvent::DatagramIn(n) = m { Some(*n) } else { None }).collect();
        let e_in: Vec<usize> = exp.iter().filter_map(|e| if let Exp::ToBackend { body, .. } = e { Some(body.len()) } else { None }).collect();
        let m_out: Vec<usize> = metrics.iter().filter_map(|m| if let MetricEvent::DatagramOut(n) = m { Some(*n) } else { None }).collect();
        let e_out: Vec<usize> = exp.iter().filter_map(|e| if let Exp::ToClient { payload, .. } = e { Some(payload.len()) } else { None }).collect();
        let m_drop: Vec<DropReason> = metrics.iter().filter_map(|m| if let MetricEvent::DatagramDropped(r) = m { Some(*r) } else { None }).collect();
        let a_drop: Vec<DropReason> = sem.iter().filter_map(|o| if let Output::Drop(r) = o { Some(*r) } else { None }).collect();
        if m_in != e_in || m_out != e_out || m_drop != a_drop {
            return fail(
                "C19/metric-datagram-accounting",
                format!("op {i} ({kind}): DatagramIn {m_in:?} vs forwarded payload sizes {e_in:?}; DatagramOut {m_out:?} vs returned {e_out:?}; DatagramDropped {m_drop:?} vs Drop {a_drop:?}"),
            );
        }

        // ---- admission bookkeeping
        let mut new_id = None;
        if let (Some((id, hash)), Some(f)) = (admitted, admit) {
            // admitted under the cap in force, and never while draining
            if self.draining || self.flows.len() >= self.max_flows {
                return fail("C19/admitted-over-cap", format!("op {i}: flow {id} admitted with {} live flows, cap {}, draining {}", self.flows.len(), self.max_flows, self.draining));
            }
            // stable affinity: one affinity key, one hash, whatever was reconfigured in between
            let hk = (f.cfg.with_port, f.key);
            if let Some(prev) = self.hashes.get(&hk) {
                self.classes.insert("affinity:hash-of-readmitted-key-compared");
                if *prev != hash {
                    return fail("C19/affinity-hash-unstable", format!("op {i}: affinity key {hk:?} hashed to {prev:#x} earlier and {hash:#x} now"));
                }
            }
            self.hashes.insert(hk, hash);
            if self.closed_ids.contains(&id) {
                self.classes.insert("admit:flow-id-reused");
            }
            if self.flows.values().any(|o| o.client == f.client) {
                self.classes.insert("admit:second-flow-for-same-client-after-affinity-flip");
            }
            self.table.insert(f.key, id);
            self.flows.insert(id, f);
            new_id = Some(id);
        }
        for id in &closes {
            self.close(*id);
        }
        self.created += n_created as u64;
        self.evicted += n_evicted as u64;

        self.post(i, kind, last_arm, matches!(rop, ROp::Timeout))?;
        Ok(new_id)
    }

    /// state checks after every drained operation
    fn post(&mut self, i: usize, kind: &str, last_arm: Option<Instant>, was_timeout: bool) -> Result<(), Failure> {
        let count = self.mgr.flow_count();
        if count != self.flows.len() {
            return fail("C19/flow-count", format!("after op {i} ({kind}): flow_count() = {count}, the model has {} live flows", self.flows.len()));
        }
        if count > self.cap_high_water {
            return fail("C19/flow-count-over-cap", format!("after op {i} ({kind}): {count} live flows, the largest cap ever in force is {}", self.cap_high_water));
        }
        if self.created - self.evicted != count as u64 {
            return fail("C19/gauge-balance", format!("after op {i} ({kind}): FlowCreated {} - FlowEvicted {} != flow_count {count}", self.created, self.evicted));
        }
        if self.mgr.poll_output().is_some() {
            return fail("C19/output-queue-not-drained", format!("after op {i} ({kind}): poll_output() yields again after returning None"));
        }
        if self.mgr.max_flows() != self.max_flows || self.mgr.is_draining() != self.draining || self.mgr.affinity_with_port() != self.cfg.with_port {
            return fail("C19/config-not-applied", format!("after op {i} ({kind}): max_flows {} / draining {} / affinity_with_port {}", self.mgr.max_flows(), self.mgr.is_draining(), self.mgr.affinity_with_port()));
        }
        // introspection agrees with the model for every live flow; dead ids resolve to nothing
        for (id, f) in &self.flows {
            let Some(s) = self.mgr.flow(*id) else {
                return fail("C19/flow-missing", format!("after op {i} ({kind}): flow({id}) is None for a live flow"));
            };
            if s.client != f.client || s.backend_addr != f.backend {
                return fail("C19/flow-state:endpoints", format!("after op {i} ({kind}): flow {id} has client {} backend {:?}, expected {} {:?}", s.client, s.backend_addr, f.client, f.backend));
            }
            if s.idle_deadline != self.at(f.deadline) {
                return fail(
                    "C19/flow-state:idle-deadline",
                    format!("after op {i} ({kind}): flow {id} idle deadline is t+{:?}, expected t+{}ms", s.idle_deadline.saturating_duration_since(self.base), f.deadline),
                );
            }
            if s.requests_seen != f.req || s.responses_seen != f.resp {
                return fail("C19/flow-state:counters", format!("after op {i} ({kind}): flow {id} requests/responses {}/{}, expected {}/{}", s.requests_seen, s.responses_seen, f.req, f.resp));
            }
        }
        for id in &self.closed_ids {
            if !self.flows.contains_key(id) && self.mgr.flow(*id).is_some() {
                return fail("C19/closed-flow-still-present", format!("after op {i} ({kind}): flow({id}) is still Some after its CloseFlow"));
            }
        }
        // timer: poll_timeout is the earliest live deadline, None without flows; and the shell —
        // which only learns deadlines through ArmTimer — holds exactly that deadline
        if let Some(t) = last_arm {
            self.shell_timer = Some(t);
        }
        let want = self.min_deadline().map(|d| self.at(d));
        let got = self.mgr.poll_timeout();
        if got != want {
            return fail(
                if got.is_some() != want.is_some() { "C19/poll-timeout-liveness" } else { "C19/poll-timeout-deadline" },
                format!("after op {i} ({kind}): poll_timeout() = {:?} after epoch, expected {:?}", got.map(|t| t.saturating_duration_since(self.base)), self.min_deadline()),
            );
        }
        if let Some(w) = want {
            if self.shell_timer.is_none() && was_timeout {
                return fail(
                    "C19/idle-timer-not-rearmed-after-early-expiry",
                    format!(
                        "after op {i} ({kind}): the shell's one-shot timer fired at t+{}ms, before the earliest idle deadline t+{}ms; handle_timeout reaped nothing and emitted no ArmTimer (poll_timeout() unchanged), so the shell holds no timer any more and {} live flow(s) are never reaped while the listener stays quiet",
                        self.now,
                        self.min_deadline().unwrap_or(0),
                        self.flows.len()
                    ),
                );
            }
            if self.shell_timer != Some(w) {
                return fail(
                    "C19/timer-not-armed-at-earliest-deadline",
                    format!("after op {i} ({kind}): earliest idle deadline is t+{:?}ms but the last ArmTimer the shell holds is {:?}", self.min_deadline(), self.shell_timer.map(|t| t.saturating_duration_since(self.base))),
                );
            }
            if was_timeout && w <= self.at(self.now) {
                return fail("C19/timeout-no-strict-advance", format!("after op {i}: poll_timeout() <= now after handle_timeout"));
            }
        }
        self.max_alive = self.max_alive.max(self.flows.len());
        Ok(())
    }

    fn finish(mut self, n_ops: usize) -> CheckResult {
        // epilogue: everything still alive goes away exactly once, nothing leaks
        let live_at_end = self.flows.len();
        self.now += 100_000_000;
        self.exec(n_ops, ROp::Timeout)?;
        self.exec(n_ops + 1, ROp::CloseAll)?;
        if self.mgr.flow_count() != 0 || self.mgr.poll_timeout().is_some() || self.created != self.evicted {
            return fail(
                "C19/leak-after-close-all",
                format!("after the final close_all: flow_count {}, poll_timeout {:?}, created {} evicted {}", self.mgr.flow_count(), self.mgr.poll_timeout(), self.created, self.evicted),
            );
        }
        let mut rep = CaseReport::default();
        rep.nontrivial = self.max_alive >= 2 && self.event_between;
        rep.inner_evaluations = self.steps;
        rep.class_if(self.max_alive >= 2, "two-plus-flows-alive");
        rep.class_if(self.max_alive >= 4, "four-plus-flows-alive");
        rep.class_if(self.event_between, "event-between-datagrams-of-one-flow");
        rep.class_if(live_at_end > 0, "flows-alive-at-end");
        rep.class_if(self.created == 0, "no-flow-ever-admitted");
        for c in &self.classes {
            rep.class(*c);
        }
        rep.class_if(self.classes.iter().any(|c| c.starts_with("ppv2:validated")), "ppv2:validated");
        Ok(rep)
    }
}

pub fn check(case: &Case) -> CheckResult {
    check_with(case, None)
}

/// The same oracle with the shell's timer modelled as sozu's timer wheel (lib/src/timer.rs,
/// 100 ms ticks, deadline rounded to the nearest tick): it may fire up to one tick early.
pub fn check_wheel(case: &Case) -> CheckResult {
    check_with(case, Some(100))
}

fn check_with(case: &Case, wheel_window_ms: Option<u64>) -> CheckResult {
    let mut run = Run::new(case, wheel_window_ms);
    run.post(0, "construction", None, false)?;
    for (i, op) in case.ops.iter().enumerate() {
        run.step(i, op)?;
    }
    run.finish(case.ops.len())
}

pub fn run(args: &Args) -> i32 {
    // child shard of the wire-lab sub-check
    if args.shard.is_some() {
        let total = args.cases(150, 1_500);
        let st = super::c19_lab::child(args, total);
        return engine::shard::child_finish(args, &st);
    }
    let mut ev = Evidence::new(args, "exploration");
    ev.rule(
        "manager",
        "history of 1..=60 operations on the public sans-io UdpManager with a virtual clock (ms offsets from one epoch): client datagrams from 8 sources (same IP/other port, same port/other IP, v4, v6, v4-mapped; payload tagged with source and op index; lengths empty / tiny / small / max-1 / max / max+1 relative to the receive limit in force), optionally resolved at once like the real shell; BackendResolved and backend datagrams for awaiting / established / closed-and-maybe-reused / arbitrary ids with 4 backends per family (rarely of the other family); clock advances; handle_timeout now / exactly at / 1 ms before / after poll_timeout; SetCluster (all knobs, timeouts 0..u32::MAX s, empty cluster), affinity flip, SetMaxFlows absolute or at/below the live count, SetMaxRxDatagramSize, Drain, abort_flow, close_all; epilogue: huge clock jump + handle_timeout + close_all. Outputs drained after every call and compared with a reference model written from the module documentation: exact sequence of SelectBackend/OpenUpstream/SendToBackend/SendToClient/Drop (drop reason from an admissible set; a datagram for an existing flow on an un-routed listener may be refused or served), exact set of CloseFlow per call (each once, only live ids, after all other outputs), PROXY-v2 prefix parsed by the harness' own parser (first-only / every datagram, flow client and backend addresses, UNSPEC for mixed family), tag ledger (forwarded datagram was offered by a source of the flow's key, strictly newer than the last forwarded one), admission only under the cap in force and not draining, flow_count == model <= largest cap ever, FlowCreated-FlowEvicted == flow_count, per-datagram metrics, flow() endpoints/deadline/counters, poll_timeout == earliest live deadline (None iff no flow), last ArmTimer seen by the shell == that deadline, strict advance after handle_timeout, stable affinity hash per key. sozu's own check_invariants is private but runs inside every mutating call in this profile (a violation is a panic@ failure). Non-trivial: >= 2 flows alive at once and a cap/cluster/affinity/drain/clock event between two client datagrams of one flow; distinct by case hash.",
    );
    ev.assume("sub 'manager': a handle_timeout before the armed deadline is a spurious call that leaves the shell's one-shot timer pending (the timer wheel's early firing is the subject of sub 'early-expiry')");
    ev.assume("the shell tier (lib/src/udp.rs: sockets, shadow key table, write queues) is not driven here; SendToBackend carries no flow id, it is attributed to the flow the operation addresses");
    ev.assume("client sources never use port 0 (FlowKey normalises the port to 0 in IP-only mode, so such a source aliases both key spaces)");
    ev.assume("in IP-only affinity the PROXY-v2 source and the reply destination are the flow's first client address (documented on UdpFlow::client), also for datagrams of the same IP sent from another port");
    for (class, frac) in [
        ("two-plus-flows-alive", 0.4),
        ("event-between-datagrams-of-one-flow", 0.3),
        ("client:forwarded-on-established-flow", 0.35),
        ("reply:returned-to-client", 0.3),
        ("shed:at-cap", 0.08),
        ("cap:existing-flow-served-at-cap", 0.05),
        ("cap:set-below-live-count", 0.04),
        ("reconfig:affinity-flip-with-live-flows", 0.08),
        ("close:idle", 0.15),
        ("close:requests-reached", 0.05),
        ("close:responses-reached", 0.05),
        ("close:abort", 0.03),
        ("close:mass-teardown-2plus", 0.02),
        ("client:buffered-datagram-overwritten", 0.05),
        ("resolve:duplicate-other-backend", 0.03),
        ("resolve:for-reaped-flow", 0.02),
        ("admit:flow-id-reused", 0.1),
        ("ppv2:validated", 0.15),
        ("shed:draining", 0.01),
    ] {
        ev.floor("manager", class, frac);
    }
    let cases = args.cases(200_000, 3_000_000);
    engine::run_pbt(&mut ev, args, "manager", cases, strategy, check);

    ev.rule(
        "early-expiry",
        "same generator and oracle as 'manager', but the shell's timer is modelled as what lib/src/udp.rs really uses: a one-shot entry of the 100 ms timer wheel (lib/src/timer.rs rounds a deadline to the NEAREST tick, so it fires up to ~50 ms - opportunistically up to one tick - before the requested instant). A handle_timeout less than 100 ms before the armed deadline therefore is a timer firing and consumes the shell's timer; afterwards, while flows are alive, the shell must again hold a timer at the earliest deadline (udp.rs timeout(): 'the manager emits a fresh ArmTimer via poll_output if a flow is still scheduled'). Non-trivial as in 'manager'.",
    );
    let cases = args.cases(50_000, 500_000);
    engine::run_pbt(&mut ev, args, "early-expiry", cases, strategy, check_wheel);

    ev.rule(super::c19_lab::SUB, super::c19_lab::rule());
    ev.assume("sub 'wire': every client has its own source address and port, so both affinity modes give one flow per client (several ports of one address sharing a flow in IP-only mode is covered by sub 'manager'); cluster and listener are not reconfigured while datagrams flow; IPv4 loopback only");
    ev.assume("sub 'wire': a datagram missing at a backend is UDP, not a failure, unless more than 20% of the datagrams that had to be forwarded are missing; with max_flows 2..4 AND a requests/responses cap, which client is admitted depends on timing and the loss rule is not applied");
    ev.assume("sub 'wire': 'exactly once' teardown is observed through its consequences only (no datagram through an old upstream socket after the idle period, late backend datagrams reach no client, the worker's debug assertions stay silent)");
    ev.assume("sub 'wire': two known shapes are left out by construction and counted in excluded_known (once per scenario each): the PROXY v2 destination address is accepted when it is the backend's own address (sozu's documented choice; the protocol and sozu's TCP send mode name the listener) - cases with `strict` demand the listener's address and fail with C19/ppv2-destination-not-listener; at the end of a scenario the listener is deactivated (flows closed) BEFORE its frontend is removed - cases with `unroute_live` remove the frontend first and fail with C19/worker-died:flows-closed-after-unroute (debug assertion lib/src/udp.rs:1631). Both reproducers are committed under regressions/C19/wire-known-*.json");
    for class in ["new_flow_then_established_in_one_burst", "established_then_new_in_one_burst", "idle_expiry_then_new_flow"] {
        ev.floor(super::c19_lab::SUB, class, 0.3);
    }
    ev.floor(super::c19_lab::SUB, "proxy_protocol", 0.15);
    ev.floor(super::c19_lab::SUB, "requests_cap_1", 0.1);
    engine::shard::run_sharded(&mut ev, args, super::c19_lab::SUB, 16, std::time::Duration::from_secs(args.tier.pick(600, 3600)));
    ev.finish()
}
