//! C10 (b) — wire lab: a live worker with 1..4 HTTP listeners (and optionally a TCP listener) is told
//! to soft-stop, alone or after handing its listening sockets over (ReturnListenSockets), while
//! 1..6 client requests are in flight in generated phases (DESIGN §4 C10 b).
//!
//! One fresh worker per scenario (a soft stop ends it). Oracle: (1) every request in flight at the stop
//! completes byte-exactly; (2) the stop command gets exactly one final OK, and not before the last
//! backend began to write the end of its response; (3) the worker thread ends; (4) nothing new is
//! served once the stop is acknowledged; handed-over listeners come out of the SCM socket with their
//! kind, bound to their addresses, and still accept; (5) no worker panic.
//!
//! Not generated: requests whose head is only partly received at the stop (sozu may cut those), TLS /
//! HTTP/2 listeners, TCP pipes in flight (a TCP session is closed at once by a soft stop, as documented
//! on `SessionState::shutting_down`), a successor worker, a worker killed in the middle of the hand-over.

use std::{
    collections::BTreeMap,
    io::{Read, Write},
    net::{SocketAddr, TcpStream},
    os::fd::{FromRawFd, RawFd},
    sync::{
        Arc, Mutex, OnceLock,
        atomic::{AtomicBool, AtomicUsize, Ordering::SeqCst},
    },
    time::{Duration, Instant},
};

use proptest::prelude::*;
use serde::{Deserialize, Serialize};
use sozu_command_lib::{
    proto::command::{ResponseStatus, ReturnListenSockets, SoftStop, request::RequestType},
    scm_socket::Listeners,
    state::ConfigState,
};

use crate::{
    engine::{self, Args, CaseReport, CheckResult, Failure, Stats, pick_idx},
    lab::{
        self, LabConfig, LabWorker,
        h1::{self, Acceptor, H1Conn, Kind, ReadOutcome, content, first_mismatch},
    },
};

pub const SUB: &str = "softstop";

// ------------------------------------------------------------------ case

#[derive(Clone, Copy, Debug, PartialEq, Eq, Serialize, Deserialize)]
pub enum Phase {
    /// (a) head sent, body partly sent; the client sends the rest `delay_ms` (<= 300) after the stop
    PartialBody,
    /// (b) whole request at the backend, which answers `delay_ms` (50..800) after the stop
    BackendWaiting,
    /// (c) the response head and a first piece reached the client; the backend sends the other pieces
    /// spread over `delay_ms` (200..900) after the stop
    ResponseInProgress,
    /// (d) `Expect: 100-continue`: the head is at the backend, which sends the interim 100 `delay_ms`
    /// after the stop; the client then sends the body and the backend answers 200
    Expect100,
    /// (e) a finished request on a keep-alive connection that stays open and idle
    IdleKeepAlive,
    /// (c') response in progress under back-pressure: the backend writes a large response at once, the
    /// client (64 KiB receive buffer) stops reading after the first bytes and resumes `delay_ms` after the stop
    ClientStalled,
}

impl Phase {
    fn label(self) -> &'static str {
        match self {
            Phase::PartialBody => "partial_body",
            Phase::BackendWaiting => "backend_waiting",
            Phase::ResponseInProgress => "response_in_progress",
            Phase::Expect100 => "expect_100_continue",
            Phase::IdleKeepAlive => "idle_keepalive",
            Phase::ClientStalled => "client_stalled",
        }
    }
    fn in_flight(self) -> bool {
        self != Phase::IdleKeepAlive
    }
}

#[derive(Clone, Debug, Serialize, Deserialize)]
pub struct Req {
    /// which HTTP listener (mapped with pick_idx)
    pub listener: u32,
    pub phase: Phase,
    pub req_body: usize,
    pub resp_body: usize,
    pub delay_ms: u16,
    /// (a): how much of the body is sent before the stop, in 1/256 of its length
    pub cut: u8,
    /// (c): number of pieces the response is written in (2..8)
    pub pieces: u8,
    pub chunked_resp: bool,
    /// a small complete request/response on the same connection first (the phased request reuses a keep-alive connection)
    #[serde(default)]
    pub warm: bool,
}

#[derive(Clone, Debug, Serialize, Deserialize)]
pub struct Case {
    pub http_listeners: u8,
    pub tcp_listener: bool,
    /// ReturnListenSockets, take the sockets, then SoftStop (as the main process does in an upgrade)
    pub handover: bool,
    /// pause between taking the sockets and the SoftStop
    pub gap_ms: u16,
    pub reqs: Vec<Req>,
    pub seed: u64,
    /// the listening sockets are bound by the harness and given to the worker over the SCM socket at its
    /// start (what the successor of an upgrade gets); otherwise the worker binds them itself
    #[serde(default)]
    pub inherited: bool,
    /// reproducer of a known finding: no exclusion by construction
    #[serde(default)]
    pub strict: bool,
}

fn body_size() -> impl Strategy<Value = usize> {
    prop_oneof![
        2 => 1usize..200,
        3 => 200usize..8_000,
        2 => (-9i64..=9).prop_map(|d| (16_393 + d) as usize),
        2 => 8_000usize..70_000,
    ]
}

fn req() -> impl Strategy<Value = Req> {
    let phase = prop_oneof![
        2 => Just(Phase::PartialBody),
        3 => Just(Phase::BackendWaiting),
        3 => Just(Phase::ResponseInProgress),
        2 => Just(Phase::Expect100),
        1 => Just(Phase::IdleKeepAlive),
        2 => Just(Phase::ClientStalled),
    ];
    (any::<u32>(), phase, body_size(), body_size(), any::<u16>(), any::<u8>(), 2u8..=8, any::<bool>(), any::<bool>(), prop::bool::weighted(0.3)).prop_map(
        |(listener, phase, req_body, resp_body, d, cut, pieces, chunked_resp, has_body, warm)| {
            let span = |lo: u16, hi: u16| lo + (d as u32 * (hi - lo) as u32 / 65_535) as u16;
            let delay_ms = match phase {
                Phase::PartialBody => span(0, 300),
                Phase::BackendWaiting => span(50, 800),
                Phase::ResponseInProgress => span(200, 900),
                Phase::Expect100 => span(20, 500),
                Phase::IdleKeepAlive => 0,
                Phase::ClientStalled => span(50, 600),
            };
            let req_body = match phase {
                // at least two bytes so that a part can be held back
                Phase::PartialBody | Phase::Expect100 => req_body.max(2),
                _ if has_body => req_body,
                _ => 0,
            };
            let resp_body = match phase {
                Phase::ResponseInProgress => resp_body.max(64),
                // large enough to fill the socket buffers on the way (loopback buffers autotune to several MB): 6 .. 12 MB
                Phase::ClientStalled => 6_000_000 + resp_body * 90,
                _ => resp_body,
            };
            Req { listener, phase, req_body, resp_body, delay_ms, cut, pieces, chunked_resp, warm }
        },
    )
}

pub fn strategy() -> impl Strategy<Value = Case> {
    (1u8..=4, prop::bool::weighted(0.3), any::<bool>(), prop_oneof![2 => Just(0u16), 1 => 1u16..120], prop::collection::vec(req(), 1..=6), any::<u64>(), any::<bool>())
        .prop_map(|(http_listeners, tcp_listener, handover, gap_ms, reqs, seed, inherited)| Case { http_listeners, tcp_listener, handover, gap_ms, reqs, seed, inherited, strict: false })
}

// ------------------------------------------------------------------ shared scenario state

#[derive(Clone, Debug, Default)]
struct BackendSaw {
    backend: usize,
    head_at: Option<Instant>,
    complete_at: Option<Instant>,
    body_mismatch: Option<String>,
    /// the connection ended before the request was complete
    cut: Option<String>,
    times_seen: usize,
    /// the whole response has been written to the socket
    written_at: Option<Instant>,
    /// taken right before the last piece of the response was written: the worker cannot have forwarded
    /// the complete response before this moment
    last_write_started_at: Option<Instant>,
}

#[derive(Clone, Debug)]
enum ClientEnd {
    /// complete response: status, body matches, time of the last byte
    Complete { status: u16, mismatch: Option<String> },
    Failed(String),
}

#[derive(Clone, Debug, Default)]
struct ClientSaw {
    /// the client did everything its phase asks for before the stop
    staged: bool,
    first_byte_at: Option<Instant>,
    done_at: Option<Instant>,
    end: Option<ClientEnd>,
    /// (e) what happened to the idle connection afterwards
    idle_closed: Option<bool>,
}

struct Shared {
    reqs: Vec<Req>,
    seed: u64,
    stop_at: OnceLock<Instant>,
    finished: AtomicBool,
    backend: Mutex<BTreeMap<usize, BackendSaw>>,
    client: Mutex<Vec<ClientSaw>>,
    /// requests with a probe id (>= PROBE_BASE) that reached a backend
    probes_at_backend: Mutex<Vec<usize>>,
    tcp_backend_conns: AtomicUsize,
}

const PROBE_BASE: usize = 1000;
const WARM_BASE: usize = 500;
const HARD_LIMIT: Duration = Duration::from_secs(7);

impl Shared {
    fn wait_stop(&self, extra_ms: u64) -> bool {
        let end = Instant::now() + HARD_LIMIT;
        loop {
            if let Some(t) = self.stop_at.get() {
                let target = *t + Duration::from_millis(extra_ms);
                let now = Instant::now();
                if now >= target {
                    return true;
                }
                std::thread::sleep((target - now).min(Duration::from_millis(5)));
                continue;
            }
            if self.finished.load(SeqCst) || Instant::now() >= end {
                return false;
            }
            std::thread::sleep(Duration::from_millis(1));
        }
    }
}

fn req_seed(seed: u64, i: usize) -> u64 {
    seed ^ (i as u64 + 1).wrapping_mul(0x9E37_79B9)
}
fn resp_seed(seed: u64, i: usize) -> u64 {
    seed ^ (i as u64 + 1).wrapping_mul(0xC2B2_AE35) ^ 0x5555
}

// ------------------------------------------------------------------ mock backend

/// Read from `s` into `buf` until `pred(buf)`; Err = why it stopped early.
fn read_until(s: &mut TcpStream, buf: &mut Vec<u8>, sh: &Shared, idle_ok: bool, mut pred: impl FnMut(&[u8]) -> bool) -> Result<(), String> {
    let end = Instant::now() + HARD_LIMIT;
    let mut tmp = vec![0u8; 65536];
    loop {
        if pred(buf) {
            return Ok(());
        }
        match s.read(&mut tmp) {
            Ok(0) => return Err("connection closed".into()),
            Ok(n) => buf.extend_from_slice(&tmp[..n]),
            Err(e) => match e.kind() {
                std::io::ErrorKind::WouldBlock | std::io::ErrorKind::TimedOut | std::io::ErrorKind::Interrupted => {
                    if Instant::now() >= end || (idle_ok && buf.is_empty() && sh.finished.load(SeqCst)) {
                        return Err("deadline".into());
                    }
                }
                _ => return Err(format!("{e}")),
            },
        }
    }
}

fn head_end(buf: &[u8]) -> Option<usize> {
    buf.windows(4).position(|w| w == b"\r\n\r\n").map(|p| p + 4)
}

fn header_value(head: &[u8], name: &str) -> Option<String> {
    let text = String::from_utf8_lossy(head);
    text.split("\r\n").skip(1).find_map(|l| {
        let (n, v) = l.split_once(':')?;
        if n.trim().eq_ignore_ascii_case(name) { Some(v.trim().to_string()) } else { None }
    })
}

fn response_wire(sh: &Shared, i: usize) -> Vec<u8> {
    let r = &sh.reqs[i];
    let body = content(resp_seed(sh.seed, i), r.resp_body);
    let framing = if r.chunked_resp { h1::BodyFraming::Chunked(vec![1 + r.resp_body / 3, 7, 4096]) } else { h1::BodyFraming::ContentLength };
    let (extra, wire) = h1::encode_body(&body, &framing, &[]);
    let mut hs = vec![("x-lab-resp".to_string(), i.to_string())];
    hs.extend(extra);
    let mut v = h1::build_head("HTTP/1.1 200 OK", &hs);
    v.extend_from_slice(&wire);
    v
}

fn serve_backend_conn(backend: usize, mut s: TcpStream, sh: Arc<Shared>) {
    let mut buf: Vec<u8> = vec![];
    loop {
        if read_until(&mut s, &mut buf, &sh, true, |b| head_end(b).is_some()).is_err() {
            return;
        }
        let he = head_end(&buf).unwrap();
        let head = buf[..he].to_vec();
        buf.drain(..he);
        let id = header_value(&head, "x-lab-req").and_then(|v| v.parse::<usize>().ok());
        let cl = header_value(&head, "content-length").and_then(|v| v.parse::<usize>().ok()).unwrap_or(0);
        let Some(id) = id else { return };
        if (WARM_BASE..PROBE_BASE).contains(&id) {
            if s.write_all(b"HTTP/1.1 200 OK\r\nContent-Length: 4\r\n\r\nwarm").is_err() {
                return;
            }
            continue;
        }
        if id >= PROBE_BASE || id >= sh.reqs.len() {
            sh.probes_at_backend.lock().unwrap().push(id);
            let _ = s.write_all(b"HTTP/1.1 200 OK\r\nContent-Length: 5\r\n\r\nprobe");
            continue;
        }
        let r = sh.reqs[id].clone();
        {
            let mut g = sh.backend.lock().unwrap();
            let e = g.entry(id).or_default();
            e.backend = backend;
            e.times_seen += 1;
            e.head_at = Some(Instant::now());
        }
        if r.phase == Phase::Expect100 {
            if !sh.wait_stop(r.delay_ms as u64) {
                return;
            }
            if s.write_all(b"HTTP/1.1 100 Continue\r\n\r\n").is_err() {
                return;
            }
        }
        if let Err(why) = read_until(&mut s, &mut buf, &sh, false, |b| b.len() >= cl) {
            sh.backend.lock().unwrap().entry(id).or_default().cut = Some(format!("{why} after {} of {cl} request body bytes", buf.len()));
            return;
        }
        let body: Vec<u8> = buf.drain(..cl).collect();
        {
            let want = content(req_seed(sh.seed, id), r.req_body);
            let mut g = sh.backend.lock().unwrap();
            let e = g.entry(id).or_default();
            e.complete_at = Some(Instant::now());
            if let Some(off) = first_mismatch(&body, &want) {
                e.body_mismatch = Some(format!("backend received {} request body bytes, {} were sent, first difference at offset {off}", body.len(), want.len()));
            }
        }
        let wire = response_wire(&sh, id);
        let last_write = |sh: &Shared| sh.backend.lock().unwrap().entry(id).or_default().last_write_started_at = Some(Instant::now());
        match r.phase {
            Phase::BackendWaiting => {
                if !sh.wait_stop(r.delay_ms as u64) {
                    return;
                }
                last_write(&sh);
                if s.write_all(&wire).is_err() {
                    return;
                }
            }
            Phase::ClientStalled => {
                // everything but the tail first (this blocks while the client does not read), then the tail
                let tail = wire.len() - 1024.min(wire.len() / 2);
                if s.write_all(&wire[..tail]).is_err() {
                    return;
                }
                last_write(&sh);
                if s.write_all(&wire[tail..]).is_err() {
                    return;
                }
            }
            Phase::ResponseInProgress => {
                let he = head_end(&wire).unwrap();
                let pieces = r.pieces.max(2) as usize;
                let body_wire = &wire[he..];
                let step = body_wire.len().div_ceil(pieces).max(1);
                let first = he + step.min(body_wire.len().saturating_sub(1));
                if s.write_all(&wire[..first]).is_err() {
                    return;
                }
                if !sh.wait_stop(0) {
                    return;
                }
                let rest = &wire[first..];
                let n = rest.len().div_ceil(step).max(1);
                for (k, piece) in rest.chunks(step).enumerate() {
                    if !sh.wait_stop(r.delay_ms as u64 * (k as u64 + 1) / n as u64) {
                        return;
                    }
                    if k + 1 == n {
                        last_write(&sh);
                    }
                    if s.write_all(piece).is_err() {
                        return;
                    }
                }
            }
            _ => {
                last_write(&sh);
                if s.write_all(&wire).is_err() {
                    return;
                }
            }
        }
        sh.backend.lock().unwrap().entry(id).or_default().written_at = Some(Instant::now());
    }
}

// ------------------------------------------------------------------ client

/// Notes the arrival of the first byte.
struct Tap {
    s: TcpStream,
    sh: Arc<Shared>,
    i: usize,
    seen: bool,
    /// after the first bytes, stop reading until this long after the stop
    stall_ms: Option<u64>,
}

impl Read for Tap {
    fn read(&mut self, buf: &mut [u8]) -> std::io::Result<usize> {
        if self.seen {
            if let Some(ms) = self.stall_ms.take() {
                self.sh.wait_stop(ms);
            }
        }
        let n = self.s.read(buf)?;
        if n > 0 && !self.seen {
            self.seen = true;
            self.sh.client.lock().unwrap()[self.i].first_byte_at = Some(Instant::now());
        }
        Ok(n)
    }
}

fn run_client(i: usize, addr: SocketAddr, host: String, sh: Arc<Shared>) {
    let r = sh.reqs[i].clone();
    let set = |f: &dyn Fn(&mut ClientSaw)| f(&mut sh.client.lock().unwrap()[i]);
    let fail = |why: String| {
        set(&|c| {
            c.done_at = Some(Instant::now());
            c.end = Some(ClientEnd::Failed(why.clone()));
        })
    };
    let mut s = match h1::connect(addr, Duration::from_secs(2)) {
        Ok(s) => s,
        Err(e) => return fail(format!("connect to {addr} failed before the stop: {e}")),
    };
    let body = content(req_seed(sh.seed, i), r.req_body);
    let mut hs: Vec<(String, String)> = vec![("Host".into(), host.clone()), ("x-lab-req".into(), i.to_string())];
    if r.req_body > 0 {
        hs.push(("Content-Length".into(), r.req_body.to_string()));
    }
    if r.phase == Phase::Expect100 {
        hs.push(("Expect".into(), "100-continue".into()));
    }
    let head = h1::build_head(&format!("{} /r{i} HTTP/1.1", if r.req_body > 0 { "POST" } else { "GET" }), &hs);
    if r.phase == Phase::ClientStalled {
        lab::script::set_bufs(&s, None, Some(65536));
    }
    if r.warm {
        let hs: Vec<(String, String)> = vec![("Host".into(), host.clone()), ("x-lab-req".into(), (WARM_BASE + i).to_string())];
        if let Err(e) = s.write_all(&h1::build_head("GET /warm HTTP/1.1", &hs)) {
            return fail(format!("sending the warm-up request before the stop: {e}"));
        }
        let mut c = H1Conn::new(s.try_clone().expect("clone"));
        match c.next_message(Kind::Response { head_request: false }, Instant::now() + Duration::from_secs(2)) {
            ReadOutcome::Message(m) if m.status() == Some(200) && m.body == b"warm" && c.pending().is_empty() => {}
            other => return fail(format!("warm-up request before the stop: {}", h1::describe(&other))),
        }
    }
    let stall_ms = if r.phase == Phase::ClientStalled { Some(r.delay_ms as u64) } else { None };
    let mut conn = H1Conn::new(Tap { s: s.try_clone().expect("clone"), sh: sh.clone(), i, seen: false, stall_ms });
    let wr = match r.phase {
        Phase::PartialBody => {
            let cut = (r.req_body * r.cut as usize / 256).min(r.req_body - 1);
            let mut first = head.clone();
            first.extend_from_slice(&body[..cut]);
            let w = s.write_all(&first);
            set(&|c| c.staged = true);
            w.and_then(|_| {
                sh.wait_stop(r.delay_ms as u64);
                s.write_all(&body[cut..])
            })
        }
        Phase::Expect100 => {
            let w = s.write_all(&head);
            set(&|c| c.staged = true);
            w.and_then(|_| match conn.next_message(Kind::Response { head_request: false }, Instant::now() + HARD_LIMIT) {
                ReadOutcome::Message(m) if m.status() == Some(100) => s.write_all(&body),
                other => Err(std::io::Error::other(format!("waiting for the interim 100 response: {}", h1::describe(&other)))),
            })
        }
        _ => {
            let mut all = head.clone();
            all.extend_from_slice(&body);
            let w = s.write_all(&all);
            set(&|c| c.staged = true);
            w
        }
    };
    if let Err(e) = wr {
        return fail(format!("sending the request: {e}"));
    }
    let out = conn.next_message(Kind::Response { head_request: false }, Instant::now() + HARD_LIMIT);
    let now = Instant::now();
    match out {
        ReadOutcome::Message(m) if m.end == h1::End::Clean => {
            let want = content(resp_seed(sh.seed, i), r.resp_body);
            let mut mismatch = first_mismatch(&m.body, &want).map(|off| format!("{} body bytes received, {} sent, first difference at offset {off}", m.body.len(), want.len()));
            if mismatch.is_none() && m.header("x-lab-resp") != Some(i.to_string().as_str()) {
                mismatch = Some(format!("the response carries x-lab-resp {:?}, expected {i}", m.header("x-lab-resp")));
            }
            let status = m.status().unwrap_or(0);
            set(&|c| {
                c.done_at = Some(now);
                c.end = Some(ClientEnd::Complete { status, mismatch: mismatch.clone() });
            });
        }
        other => return fail(h1::describe(&other)),
    }
    if r.phase == Phase::IdleKeepAlive {
        // stay connected and idle until the scenario is over, then see whether the worker closed
        let end = Instant::now() + HARD_LIMIT;
        let mut b = [0u8; 64];
        let closed = loop {
            match s.read(&mut b) {
                Ok(0) => break true,
                Ok(_) => break false,
                Err(e) if matches!(e.kind(), std::io::ErrorKind::WouldBlock | std::io::ErrorKind::TimedOut | std::io::ErrorKind::Interrupted) => {
                    if sh.finished.load(SeqCst) || Instant::now() >= end {
                        break false;
                    }
                }
                Err(_) => break true,
            }
        };
        set(&|c| c.idle_closed = Some(closed));
    }
}

// ------------------------------------------------------------------ probes after the stop

#[derive(Debug)]
#[allow(dead_code)]
enum Probe {
    Refused(String),
    NoAnswer(String),
    Answered(String),
}

/// New connections to every listener, each with a request (HTTP) or a few bytes (TCP).
fn probe_listeners(http: &[SocketAddr], tcp: Option<SocketAddr>) -> Vec<(SocketAddr, Probe)> {
    let mut open: Vec<(SocketAddr, Result<TcpStream, String>)> = vec![];
    for (i, a) in http.iter().enumerate() {
        let c = h1::connect(*a, Duration::from_millis(500)).map_err(|e| e.to_string()).and_then(|mut s| {
            let hs = vec![("Host".to_string(), format!("l{i}.lab")), ("x-lab-req".to_string(), (PROBE_BASE + i).to_string())];
            s.write_all(&h1::build_head("GET /probe HTTP/1.1", &hs)).map_err(|e| e.to_string())?;
            Ok(s)
        });
        open.push((*a, c));
    }
    if let Some(a) = tcp {
        let c = h1::connect(a, Duration::from_millis(500)).map_err(|e| e.to_string()).and_then(|mut s| {
            s.write_all(b"probe").map_err(|e| e.to_string())?;
            Ok(s)
        });
        open.push((a, c));
    }
    let deadline = Instant::now() + Duration::from_millis(350);
    open.into_iter()
        .map(|(a, c)| {
            let p = match c {
                Err(e) => Probe::Refused(e),
                Ok(s) => {
                    let mut conn = H1Conn::new(s);
                    match conn.next_message(Kind::Response { head_request: false }, deadline) {
                        ReadOutcome::Message(m) => Probe::Answered(format!("{:?} with {} body bytes", m.start_line, m.body.len())),
                        ReadOutcome::Invalid(why, bytes) if !bytes.is_empty() => Probe::Answered(format!("{} bytes ({why})", bytes.len())),
                        other => Probe::NoAnswer(h1::describe(&other)),
                    }
                }
            };
            (a, p)
        })
        .collect()
}

fn sockname(fd: RawFd) -> Option<SocketAddr> {
    let mut ss: libc::sockaddr_storage = unsafe { std::mem::zeroed() };
    let mut len = std::mem::size_of::<libc::sockaddr_storage>() as libc::socklen_t;
    if unsafe { libc::getsockname(fd, &mut ss as *mut _ as *mut libc::sockaddr, &mut len) } != 0 {
        return None;
    }
    match ss.ss_family as i32 {
        libc::AF_INET => {
            let a = unsafe { *(&ss as *const _ as *const libc::sockaddr_in) };
            Some(SocketAddr::from((u32::from_be(a.sin_addr.s_addr).to_be_bytes(), u16::from_be(a.sin_port))))
        }
        libc::AF_INET6 => {
            let a = unsafe { *(&ss as *const _ as *const libc::sockaddr_in6) };
            Some(SocketAddr::from((a.sin6_addr.s6_addr, u16::from_be(a.sin6_port))))
        }
        _ => None,
    }
}

fn short_loc(msg: &str) -> String {
    // "worker thread panicked at <path>:<line>:<col>: …" -> "<file>:<line>"
    let loc = msg.split("panicked at ").nth(1).unwrap_or(msg);
    let loc = loc.split(": ").next().unwrap_or(loc);
    let mut parts = loc.rsplit('/').next().unwrap_or(loc).split(':');
    format!("{}:{}", parts.next().unwrap_or("?"), parts.next().unwrap_or("?"))
}

// ------------------------------------------------------------------ scenario

/// Add and activate one listener with the lab's timeouts. With `given` the worker finds the socket among
/// those it received at its start; otherwise it binds a free port itself (another process may take
/// the port between the probe and the bind: try another one then).
fn activate_listener(worker: &mut LabWorker, tcp: bool, given: Option<SocketAddr>) -> SocketAddr {
    use sozu_command_lib::{
        config::ListenerBuilder,
        proto::command::{ActivateListener, ListenerType, RemoveListener},
    };
    let proxy: i32 = if tcp { ListenerType::Tcp.into() } else { ListenerType::Http.into() };
    let mut last = String::new();
    for _ in 0..6 {
        let addr = given.unwrap_or_else(lab::free_addr);
        let mut b = if tcp { ListenerBuilder::new_tcp(addr.into()) } else { ListenerBuilder::new_http(addr.into()) };
        b.with_front_timeout(Some(worker.lab.front_timeout)).with_back_timeout(Some(worker.lab.back_timeout)).with_connect_timeout(Some(worker.lab.connect_timeout));
        if tcp {
            worker.must(RequestType::AddTcpListener(b.to_tcp(None).expect("tcp listener config")));
        } else {
            b.with_request_timeout(Some(worker.lab.request_timeout));
            worker.must(RequestType::AddHttpListener(b.to_http(None).expect("http listener config")));
        }
        match worker.request(RequestType::ActivateListener(ActivateListener { address: addr.into(), proxy, from_scm: given.is_some() })) {
            Ok(r) if r.status == ResponseStatus::Ok as i32 => return addr,
            Ok(r) if given.is_none() && r.message.contains("in use") => {
                last = r.message;
                worker.must(RequestType::RemoveListener(RemoveListener { address: addr.into(), proxy }));
            }
            other => panic!("harness: could not activate the listener {addr}: {other:?}"),
        }
    }
    panic!("harness: no listener port could be bound in six attempts: {last}");
}

struct OwnedListeners(Vec<std::net::TcpListener>);

pub fn scenario(case: &Case) -> CheckResult {
    let mut rep = CaseReport::default();
    let n_http = case.http_listeners.clamp(1, 4) as usize;
    let reqs: Vec<Req> = case.reqs.iter().take(6).cloned().collect();
    let sh = Arc::new(Shared {
        reqs: reqs.clone(),
        seed: case.seed,
        stop_at: OnceLock::new(),
        finished: AtomicBool::new(false),
        backend: Mutex::new(BTreeMap::new()),
        client: Mutex::new(vec![ClientSaw::default(); reqs.len()]),
        probes_at_backend: Mutex::new(vec![]),
        tcp_backend_conns: AtomicUsize::new(0),
    });

    // ---------------------------------------------------------------- set-up
    let mut given = Listeners::default();
    if case.inherited {
        use std::os::fd::IntoRawFd;
        for kind in (0..n_http).map(|_| false).chain(case.tcp_listener.then_some(true)) {
            let (addr, l) = lab::bound_listener();
            l.set_nonblocking(true).expect("nonblocking");
            if kind { given.tcp.push((addr, l.into_raw_fd())) } else { given.http.push((addr, l.into_raw_fd())) }
        }
    }
    let given_http: Vec<SocketAddr> = given.http.iter().map(|x| x.0).collect();
    let given_tcp: Option<SocketAddr> = given.tcp.first().map(|x| x.0);
    // (start() sends the descriptors and closes the harness's copies)
    let mut worker = LabWorker::start("c10", LabConfig::default(), given, &ConfigState::new());
    let mut http_addrs = vec![];
    let mut backends: Vec<Acceptor> = vec![];
    for i in 0..n_http {
        let front = activate_listener(&mut worker, false, given_http.get(i).copied());
        let (back_addr, back_listener) = lab::bound_listener();
        let cluster = format!("c{i}");
        worker.add_cluster(&cluster, |_| {});
        worker.add_http_frontend(&cluster, front, &format!("l{i}.lab"), "/");
        worker.add_backend(&cluster, &format!("{cluster}-0"), back_addr);
        let sh2 = sh.clone();
        backends.push(Acceptor::spawn(back_listener, move |_conn, stream| serve_backend_conn(i, stream, sh2.clone())));
        http_addrs.push(front);
    }
    let mut tcp_addr = None;
    if case.tcp_listener {
        let front = activate_listener(&mut worker, true, given_tcp);
        let (back_addr, back_listener) = lab::bound_listener();
        worker.add_cluster("tcp0", |_| {});
        worker.add_tcp_frontend("tcp0", front);
        worker.add_backend("tcp0", "tcp0-0", back_addr);
        let sh2 = sh.clone();
        backends.push(Acceptor::spawn(back_listener, move |_conn, mut stream| {
            sh2.tcp_backend_conns.fetch_add(1, SeqCst);
            let mut b = [0u8; 64];
            let _ = stream.read(&mut b);
        }));
        tcp_addr = Some(front);
    }
    let finish = |sh: &Arc<Shared>, backends: &mut Vec<Acceptor>, clients: Vec<std::thread::JoinHandle<()>>| {
        sh.finished.store(true, SeqCst);
        for c in clients {
            let _ = c.join();
        }
        backends.clear();
    };

    // ---------------------------------------------------------------- requests into their phases
    let mut clients = vec![];
    for (i, r) in reqs.iter().enumerate() {
        let li = pick_idx(r.listener, n_http);
        let (addr, host, sh2) = (http_addrs[li], format!("l{li}.lab"), sh.clone());
        clients.push(std::thread::Builder::new().name(format!("c10-client-{i}")).spawn(move || run_client(i, addr, host, sh2)).expect("spawn client"));
    }
    let t0 = Instant::now();
    let staged = loop {
        let (b, c) = (sh.backend.lock().unwrap().clone(), sh.client.lock().unwrap().clone());
        let early_end = c.iter().zip(&reqs).position(|(c, r)| (r.phase.in_flight() && c.end.is_some()) || matches!(c.end, Some(ClientEnd::Failed(_))));
        if let Some(i) = early_end {
            break Err((i, format!("{:?}", c[i].end)));
        }
        let ready = reqs.iter().enumerate().all(|(i, r)| match r.phase {
            Phase::PartialBody | Phase::Expect100 => c[i].staged && b.get(&i).map(|s| s.head_at.is_some()).unwrap_or(false),
            Phase::BackendWaiting => b.get(&i).map(|s| s.complete_at.is_some()).unwrap_or(false),
            Phase::ResponseInProgress | Phase::ClientStalled => c[i].first_byte_at.is_some(),
            Phase::IdleKeepAlive => matches!(c[i].end, Some(ClientEnd::Complete { .. })),
        });
        if ready {
            break Ok(());
        }
        if t0.elapsed() > Duration::from_millis(2500) {
            let i = reqs.iter().enumerate().position(|(i, r)| match r.phase {
                Phase::ResponseInProgress | Phase::ClientStalled => c[i].first_byte_at.is_none(),
                Phase::IdleKeepAlive => c[i].end.is_none(),
                Phase::BackendWaiting => b.get(&i).map(|s| s.complete_at.is_none()).unwrap_or(true),
                _ => b.get(&i).map(|s| s.head_at.is_none()).unwrap_or(true),
            });
            break Err((i.unwrap_or(0), "did not reach its phase within 2.5 s".to_string()));
        }
        std::thread::sleep(Duration::from_millis(1));
    };
    if let Err((i, what)) = staged {
        finish(&sh, &mut backends, clients);
        let alive = worker.alive();
        if !alive {
            if let Err(p) = worker.join() {
                fail!(format!("C10/worker-panicked:{}", short_loc(&p)), "before any stop command: {p}");
            }
        }
        fail!(
            format!("C10/before-stop:{}", reqs[i].phase.label()),
            "request {i} ({:?}) never got into its phase although no stop command had been sent: {what} (worker alive: {alive})",
            reqs[i]
        );
    }

    // ---------------------------------------------------------------- the stop
    let mut owned = OwnedListeners(vec![]);
    let mut expected_addrs: Vec<(SocketAddr, &str)> = http_addrs.iter().map(|a| (*a, "http")).collect();
    if let Some(a) = tcp_addr {
        expected_addrs.push((a, "tcp"));
    }
    if case.handover {
        let _ = worker.scm_main.set_blocking(false);
        match worker.request(RequestType::ReturnListenSockets(ReturnListenSockets {})) {
            Ok(r) if r.status == ResponseStatus::Ok as i32 => {}
            other => {
                finish(&sh, &mut backends, clients);
                fail!("C10/return-listen-sockets-failed", "ReturnListenSockets with {} listeners and {} requests in flight: {:?}", expected_addrs.len(), reqs.len(), other.map(|r| (r.status, r.message)));
            }
        }
        let t = Instant::now();
        let got = loop {
            match worker.scm_main.receive_listeners() {
                Ok(l) => break Ok(l),
                Err(e) if t.elapsed() > Duration::from_secs(2) => break Err(format!("{e:?}")),
                Err(_) => std::thread::sleep(Duration::from_millis(5)),
            }
        };
        let got = match got {
            Ok(l) => l,
            Err(e) => {
                finish(&sh, &mut backends, clients);
                fail!("C10/returned-sockets-not-received", "ReturnListenSockets was answered Ok but no listener set could be read from the SCM socket within 2 s: {e}");
            }
        };
        // the harness owns the descriptors from here on
        let mut received: Vec<(SocketAddr, &str, RawFd)> = vec![];
        for (kind, list) in [("http", &got.http), ("tls", &got.tls), ("tcp", &got.tcp), ("udp", &got.udp)] {
            for (a, fd) in list {
                received.push((*a, kind, *fd));
            }
        }
        let mut verdict: Result<(), Failure> = Ok(());
        for (a, kind) in &expected_addrs {
            match received.iter().find(|(ra, rk, _)| ra == a && rk == kind) {
                None => {
                    verdict = verdict.and(Err(Failure::new(
                        format!("C10/listener-lost:{kind}"),
                        format!("the {kind} listener {a} was active in the worker but did not come out of the SCM socket; received: {:?}", received.iter().map(|(a, k, _)| format!("{k} {a}")).collect::<Vec<_>>()),
                    )));
                }
                Some((_, _, fd)) => {
                    if sockname(*fd) != Some(*a) {
                        verdict = verdict.and(Err(Failure::new(
                            "C10/listener-not-bound-to-its-address",
                            format!("the descriptor handed over for the {kind} listener {a} is bound to {:?}", sockname(*fd)),
                        )));
                    }
                }
            }
        }
        if received.len() != expected_addrs.len() && verdict.is_ok() {
            verdict = Err(Failure::new("C10/listener-count", format!("{} listeners were active, {} came out of the SCM socket: {:?}", expected_addrs.len(), received.len(), received)));
        }
        for (_, _, fd) in &received {
            let l = unsafe { std::net::TcpListener::from_raw_fd(*fd) };
            let _ = l.set_nonblocking(true);
            owned.0.push(l);
        }
        // every handed-over listener still accepts: connect, then accept on the received descriptor
        if verdict.is_ok() {
            for (a, kind) in &expected_addrs {
                let l = owned.0.iter().find(|l| l.local_addr().ok() == Some(*a)).expect("checked above");
                let c = match h1::connect(*a, Duration::from_millis(500)) {
                    Ok(c) => c,
                    Err(e) => {
                        verdict = Err(Failure::new("C10/handed-over-listener-refuses", format!("after the hand-over, a connection to the {kind} listener {a} fails: {e}")));
                        break;
                    }
                };
                let me = c.local_addr().ok();
                let t = Instant::now();
                let mut found = false;
                while t.elapsed() < Duration::from_millis(500) && !found {
                    match l.accept() {
                        Ok((_s, peer)) => found = Some(peer) == me,
                        Err(_) => std::thread::sleep(Duration::from_millis(2)),
                    }
                }
                if !found {
                    verdict = Err(Failure::new("C10/handed-over-listener-does-not-accept", format!("the descriptor received for the {kind} listener {a} does not deliver a connection made to that address")));
                    break;
                }
                rep.inner_evaluations += 1;
            }
        }
        if let Err(f) = verdict {
            finish(&sh, &mut backends, clients);
            return Err(f);
        }
        std::thread::sleep(Duration::from_millis(case.gap_ms as u64));
    }

    let stop_id = worker.fresh_id();
    if let Err(e) = worker.send_with_id(&stop_id, RequestType::SoftStop(SoftStop {}).into()) {
        finish(&sh, &mut backends, clients);
        panic!("harness: could not write SoftStop: {e:?}");
    }
    let stop_at = Instant::now();
    let _ = sh.stop_at.set(stop_at);

    let mut processing = 0usize;
    let mut finals: Vec<(Instant, i32, String)> = vec![];
    let mut exited_at: Option<Instant> = None;
    let mut prober: Option<std::thread::JoinHandle<Vec<(SocketAddr, Probe)>>> = None;
    let mut clients_done_at: Option<Instant> = None;
    loop {
        match worker.channel.read_message_blocking_timeout(Some(Duration::from_millis(20))) {
            Ok(r) => {
                let now = Instant::now();
                if r.id == stop_id {
                    if r.status == ResponseStatus::Processing as i32 {
                        processing += 1;
                    } else {
                        finals.push((now, r.status, r.message.clone()));
                    }
                    if prober.is_none() {
                        let (h, t) = (http_addrs.clone(), tcp_addr);
                        prober = Some(std::thread::spawn(move || probe_listeners(&h, t)));
                    }
                }
            }
            Err(_) => {
                if !worker.alive() {
                    std::thread::sleep(Duration::from_millis(2));
                }
            }
        }
        if exited_at.is_none() && !worker.alive() {
            exited_at = Some(Instant::now());
        }
        if clients_done_at.is_none() {
            let c = sh.client.lock().unwrap();
            if c.iter().all(|c| c.end.is_some()) {
                clients_done_at = Some(c.iter().filter_map(|c| c.done_at).max().unwrap_or(stop_at).max(stop_at));
            }
        }
        match (exited_at, clients_done_at) {
            (Some(e), Some(_)) if e.elapsed() > Duration::from_millis(60) => break,
            (None, Some(d)) if d.elapsed() > Duration::from_millis(3200) => break,
            _ => {}
        }
        if stop_at.elapsed() > Duration::from_secs(12) {
            break;
        }
    }
    // whatever is left in the channel
    while let Ok(r) = worker.channel.read_message_blocking_timeout(Some(Duration::from_millis(10))) {
        if r.id == stop_id {
            if r.status == ResponseStatus::Processing as i32 {
                processing += 1;
            } else {
                finals.push((Instant::now(), r.status, r.message.clone()));
            }
        }
    }
    let probes = match prober {
        Some(p) => p.join().unwrap_or_default(),
        // never acknowledged: probe now (only meaningful as a record)
        None => vec![],
    };
    let worker_end = if worker.alive() { None } else { Some(worker.join()) };
    finish(&sh, &mut backends, clients);
    let csaw = sh.client.lock().unwrap().clone();
    let bsaw = sh.backend.lock().unwrap().clone();
    drop(owned);

    // ---------------------------------------------------------------- verdict
    // (5) no panic
    if let Some(Err(p)) = &worker_end {
        fail!(format!("C10/worker-panicked:{}", short_loc(p)), "after SoftStop{}: {p}", if case.handover { " (sockets handed over before)" } else { "" });
    }
    // (1) every request in flight completes, byte-exact
    let ms = |t: Instant| t.saturating_duration_since(stop_at).as_millis();
    for (i, r) in reqs.iter().enumerate() {
        let c = &csaw[i];
        let b = bsaw.get(&i).cloned().unwrap_or_default();
        let ctx = format!(
            "request {i} on listener {} in phase {} at the stop ({}; request body {}, response body {}{}, delay {} ms); backend: head {}, complete {}, cut {:?}; worker final answers {:?} after {} processing, worker exited {:?} ms after the stop",
            pick_idx(r.listener, n_http),
            r.phase.label(),
            if case.handover { "ReturnListenSockets + SoftStop" } else { "SoftStop" },
            r.req_body,
            r.resp_body,
            if r.chunked_resp { " chunked" } else { "" },
            r.delay_ms,
            b.head_at.is_some(),
            b.complete_at.is_some(),
            b.cut,
            finals.iter().map(|(t, s, _)| (ms(*t), *s)).collect::<Vec<_>>(),
            processing,
            exited_at.map(ms)
        );
        match &c.end {
            None => fail!(format!("C10/request-unfinished:{}", r.phase.label()), "the client got neither a response nor an end of connection within {} s: {ctx}", HARD_LIMIT.as_secs()),
            Some(ClientEnd::Failed(why)) => fail!(format!("C10/request-cut:{}", r.phase.label()), "the client did not get its complete response: {why} ({} ms after the stop): {ctx}", c.done_at.map(ms).unwrap_or(0)),
            Some(ClientEnd::Complete { status, mismatch }) => {
                if *status != 200 {
                    fail!(format!("C10/request-not-served:{}:{status}", r.phase.label()), "the client got status {status} instead of the backend's 200: {ctx}");
                }
                if let Some(m) = mismatch {
                    fail!(format!("C10/response-bytes:{}", r.phase.label()), "{m}: {ctx}");
                }
            }
        }
        if let Some(m) = &b.body_mismatch {
            fail!(format!("C10/request-bytes:{}", r.phase.label()), "{m}: {ctx}");
        }
        if b.times_seen != 1 {
            fail!(format!("C10/request-seen-{}-times", b.times_seen), "the backend saw the request {} times: {ctx}", b.times_seen);
        }
        if b.backend != pick_idx(r.listener, n_http) {
            fail!("C10/wrong-backend", "the request reached backend {} : {ctx}", b.backend);
        }
    }
    // the moment the last in-flight response was complete at its client (measured; bytes may still sit in
    // socket buffers after the worker wrote them, and a client may be slow by itself) and the moment the last
    // backend began to write the last piece of its response: the worker cannot have forwarded a complete
    // response, let alone finished its session, before that — a lower bound that needs no tolerance
    let in_flight_ids = || reqs.iter().enumerate().filter(|(_, r)| r.phase.in_flight()).map(|(i, _)| i);
    let last_done = in_flight_ids().filter_map(|i| csaw[i].done_at).max();
    let last_piece = in_flight_ids().filter_map(|i| bsaw.get(&i).and_then(|b| b.last_write_started_at)).max();
    // (2) exactly one final OK, not before the last response
    let describe_finals = || finals.iter().map(|(t, s, m)| format!("status {s} {m:?} at {} ms", ms(*t))).collect::<Vec<_>>();
    if finals.is_empty() {
        if worker_end.is_some() {
            fail!("C10/no-final-answer", "the worker thread ended {:?} ms after the stop without a final answer to SoftStop {stop_id} ({processing} processing notices)", exited_at.map(ms));
        }
        fail!(
            "C10/softstop-never-finishes",
            "SoftStop {stop_id}: {processing} processing notices, no final answer and the worker still runs {} ms after the last response ({} listeners, handover {}, phases {:?})",
            clients_done_at.map(|d| d.elapsed().as_millis()).unwrap_or(0),
            expected_addrs.len(),
            case.handover,
            reqs.iter().map(|r| r.phase.label()).collect::<Vec<_>>()
        );
    }
    if finals.len() != 1 {
        fail!("C10/final-answers", "SoftStop {stop_id} got {} final answers: {:?}", finals.len(), describe_finals());
    }
    if finals[0].1 != ResponseStatus::Ok as i32 {
        fail!("C10/softstop-failed", "SoftStop {stop_id} was answered {:?}", describe_finals());
    }
    let ok_at = finals[0].0;
    if let Some(last) = last_piece {
        if ok_at < last {
            fail!(
                "C10/ok-before-last-response",
                "the final OK to SoftStop arrived {} ms after the stop, but a backend only began to write the last piece of an in-flight response {} ms after the stop; per request (phase, delay, backend began its last write at, had written all at, client had the response at): {:?}",
                ms(ok_at),
                ms(last),
                reqs.iter()
                    .enumerate()
                    .map(|(i, r)| (r.phase.label(), r.delay_ms, bsaw.get(&i).and_then(|b| b.last_write_started_at).map(ms), bsaw.get(&i).and_then(|b| b.written_at).map(ms), csaw[i].done_at.map(ms)))
                    .collect::<Vec<_>>()
            );
        }
    }
    let ok_lead_ms = last_done.map(|l| l.saturating_duration_since(ok_at).as_millis()).unwrap_or(0);
    // (3) the worker ends
    let reference = last_done.unwrap_or(stop_at).max(stop_at);
    match exited_at {
        None => fail!("C10/worker-still-running", "the final OK came {} ms after the stop, the worker thread still runs {} ms after the last response", ms(ok_at), reference.elapsed().as_millis()),
        Some(e) if e > reference + Duration::from_secs(3) => {
            fail!("C10/worker-exit-late", "the worker thread ended {} ms after the stop, the last response was complete at {} ms", ms(e), ms(reference))
        }
        _ => {}
    }
    // (4) nothing new is served once the stop is acknowledged
    let at_backend = sh.probes_at_backend.lock().unwrap().clone();
    for (a, p) in &probes {
        match p {
            Probe::Answered(what) => fail!(
                format!("C10/served-after-stop:{}", if Some(*a) == tcp_addr { "tcp" } else { "http" }),
                "a connection made to {a} after the worker acknowledged SoftStop{} was answered: {what}",
                if case.handover { " (and had handed that listener over)" } else { "" }
            ),
            Probe::Refused(e) if case.handover => fail!("C10/handed-over-listener-refuses", "after the hand-over and the SoftStop of the old worker, a connection to {a} fails ({e}) although the harness holds the listening descriptor"),
            // without a hand-over the worker holds the only descriptor of each listening socket: "takes no new
            // connection after acknowledging the stop" means the socket is closed by then. A socket left open
            // (and no longer polled) keeps completing handshakes into its backlog: clients connect and are never
            // answered - with several workers on one address (SO_REUSEPORT) a share of all new connections
            Probe::NoAnswer(what) if !case.handover => fail!(
                format!("C10/listener-still-open-after-stop:{}", if Some(*a) == tcp_addr { "tcp" } else { "http" }),
                "a connection to {a} made after the worker acknowledged SoftStop was accepted by the kernel and never answered ({what}): the worker still holds the listening socket open"
            ),
            _ => {}
        }
    }
    if !at_backend.is_empty() {
        fail!("C10/served-after-stop:backend", "requests sent on connections made after the stop was acknowledged reached a backend: probe ids {at_backend:?}");
    }
    if sh.tcp_backend_conns.load(SeqCst) > 0 {
        fail!("C10/served-after-stop:tcp", "the TCP backend got {} connections, all client connections to the TCP listener were made after the stop was acknowledged", sh.tcp_backend_conns.load(SeqCst));
    }

    // ---------------------------------------------------------------- measurement
    let in_flight = reqs.iter().filter(|r| r.phase.in_flight()).count();
    let n_listeners = expected_addrs.len();
    rep.nontrivial = in_flight >= 2 || (case.handover && n_listeners >= 2);
    for r in &reqs {
        let l = format!("phase_{}", r.phase.label());
        if !rep.classes.contains(&l) {
            rep.class(l);
        }
    }
    rep.class_if(reqs.iter().any(|r| r.phase == Phase::Expect100), "expect_100_continue");
    rep.class(if case.handover { "handover" } else { "softstop_only" });
    rep.class(format!("listeners_{n_listeners}"));
    rep.class_if(n_listeners >= 2, "2+_listeners");
    rep.class_if(in_flight >= 2, "2+_in_flight");
    rep.class_if(in_flight >= 4, "4+_in_flight");
    rep.class_if(reqs.iter().any(|r| r.warm && r.phase.in_flight()), "in_flight_on_reused_keepalive_connection");
    rep.class_if(
        reqs.iter().enumerate().any(|(i, r)| r.phase == Phase::ClientStalled && bsaw.get(&i).and_then(|b| b.written_at).map(|t| t > stop_at).unwrap_or(true)),
        "backend_write_blocked_at_stop",
    );
    rep.class_if(case.tcp_listener, "tcp_listener");
    rep.class(if case.inherited { "listeners_received_at_start" } else { "listeners_bound_by_worker" });
    rep.class_if(processing > 0, "processing_notices");
    rep.class_if(ok_lead_ms > 50, "final_ok_50ms_before_client_had_last_byte");
    rep.class_if(probes.iter().any(|(_, p)| matches!(p, Probe::Refused(_))), "new_connection_refused");
    rep.class_if(probes.iter().any(|(_, p)| matches!(p, Probe::NoAnswer(_))), "new_connection_unanswered");
    rep.class_if(csaw.iter().any(|c| c.idle_closed == Some(true)), "idle_keepalive_closed_by_worker");
    rep.class_if(last_done.map(|l| l > stop_at + Duration::from_millis(400)).unwrap_or(false), "drain_longer_than_400ms");
    rep.inner_evaluations += reqs.len() as u64 + probes.len() as u64;
    Ok(rep)
}

pub fn rule() -> &'static str {
    "one fresh live worker per scenario with 1..4 HTTP listeners (30%: plus a TCP listener) that it binds itself or (50%) receives over the SCM socket at its start, one cluster and one HTTP/1.1 mock backend per listener; 1..6 client requests (own connections, keyed bodies up to 70 KB (c': 12 MB), Content-Length requests, Content-Length or chunked responses) are brought into a generated phase and the harness waits until each is observably there: (a) head and a part of the body sent, rest sent 0..300 ms after the stop, (b) whole request at the backend which answers 50..800 ms after the stop, (c) response head and first piece at the client, other pieces spread over 200..900 ms after the stop, (d) Expect: 100-continue head at the backend, interim 100 sent 20..500 ms after the stop, then body and 200, (c') a 6..12 MB response written at once while the client (64 KiB receive buffer) stops reading after the first bytes and resumes 50..600 ms after the stop, (e) finished request on an idle keep-alive connection; 30% of the requests come second on their connection after a small complete exchange. Then SoftStop, or ReturnListenSockets + receive_listeners on the SCM socket + SoftStop. Oracle: (1) every request of (a)-(d), (c') gets status 200 with its exact body, the backend got the exact request body once, on the right backend; (2) 0..n Processing notices and exactly one final Ok for the SoftStop id, and that Ok is not read before the last backend began to write the last piece of its in-flight response (a lower bound of the moment the worker can have finished; how long before the client had its last byte is measured as a class, not judged: written bytes travel on in socket buffers); (3) the worker thread ends within 3 s of the last response; (4) after the first acknowledgement connections to every listener are refused (the worker held the only descriptor of each listening socket and must have closed it) and no probe request reaches a backend; with a hand-over every listener address comes out of the SCM socket with the same kind, getsockname equal to the address, the descriptor accepts a connection made to the address, and connections are never refused; (5) no worker panic. A failure is re-run twice on fresh workers and reported only if it reproduces. Non-trivial: >= 2 requests in flight at the stop or a hand-over of >= 2 listeners."
}

/// child-process entry: run this shard's scenarios
pub fn child(args: &Args, total: u64) -> Stats {
    lab::init_ports(args.shard.map(|s| s.0).unwrap_or(0));
    let flaky = std::cell::Cell::new(0u64);
    let check = |case: &Case| -> CheckResult {
        // every scenario runs on a fresh worker; a failure must reproduce on two more
        let first = scenario(case);
        let Err(f) = first else { return first };
        for _ in 0..2 {
            if let Err(f2) = scenario(case) {
                return Err(if f2.signature == f.signature { f2 } else { f });
            }
        }
        flaky.set(flaky.get() + 1);
        engine::note_flaky("C10", &f, &serde_json::to_string(case).unwrap_or_default());
        let mut rep = CaseReport::default();
        rep.class("flaky_unconfirmed");
        Ok(rep)
    };
    let mut st = engine::run_lab_shard(args, "C10", SUB, total, strategy(), check, 24);
    st.flaky_unconfirmed += flaky.get();
    st
}
