//! C19 (wire) — a live worker with one UDP listener between 2..6 scripted UDP clients and 2..3
//! mock UDP backends, all on real loopback sockets (DESIGN §4 C19, wire tier).
//!
//! Everything the oracle uses is observed at the harness' own sockets: what each backend received
//! (source address = the proxy's per-flow upstream socket, bytes), what each backend sent, what each
//! client received (source address, bytes). A "flow life" is what the backends see as one upstream
//! source address.

use std::{
    cell::RefCell,
    collections::{BTreeMap, BTreeSet},
    net::{Ipv4Addr, SocketAddr, UdpSocket},
    sync::{
        Arc, Mutex,
        atomic::{AtomicBool, AtomicU64, Ordering::SeqCst},
    },
    thread::JoinHandle,
    time::{Duration, Instant},
};

use proptest::prelude::*;
use serde::{Deserialize, Serialize};
use sozu_command_lib::{
    proto::command::{
        ActivateListener, Cluster, DeactivateListener, ListenerType, LoadBalancingAlgorithms, RemoveBackend, RemoveListener, RequestUdpFrontend, ResponseStatus, UdpAffinityKey, UdpClusterConfig, UdpListenerConfig,
        request::RequestType,
    },
    scm_socket::Listeners,
    state::ConfigState,
};

use crate::{
    engine::{self, Args, CaseReport, CheckResult, Failure, Stats},
    lab::{self, LabConfig, LabWorker},
};

pub const SUB: &str = "wire";

/// largest UDP payload over IPv4
const UDP_MAX: usize = 65_507;
/// PROXY v2 header for AF_INET
const PP2_V4_LEN: usize = 28;
const PP2_SIG: [u8; 12] = [0x0D, 0x0A, 0x0D, 0x0A, 0x00, 0x0D, 0x0A, 0x51, 0x55, 0x49, 0x54, 0x0A];
const MAX_SEQ: u8 = 16;

// ------------------------------------------------------------------ case

#[derive(Clone, Debug, Serialize, Deserialize)]
pub enum Len {
    Empty,
    /// 1..=16
    Tiny(u8),
    /// 17..=1400
    Small(u16),
    /// the largest size sozu can forward, minus 0..2
    NearMax(u8),
    /// above the listener's receive limit (must be dropped), or - 64 KiB limit with a PROXY prefix -
    /// within the limit but too large once prefixed (may be dropped)
    Over(u8),
    /// near 64 KiB when the listener allows it
    Big(u8),
}

#[derive(Clone, Debug, Serialize, Deserialize)]
pub struct Dg {
    /// which client, mapped onto the clients that may speak in this burst
    pub who: u32,
    pub len: Len,
    /// immediate replies of the backend (0..=2)
    pub replies: u8,
    /// one more reply that many ms later
    pub late_ms: Option<u16>,
}

#[derive(Clone, Debug, Serialize, Deserialize)]
pub enum Step {
    /// datagrams written back-to-back
    Burst(Vec<Dg>),
    Pause(u16),
    /// every client stays quiet for the longer idle timeout + 1.5 s, then every backend sends a late
    /// datagram to each upstream address it has seen
    Expire,
}

#[derive(Clone, Debug, Serialize, Deserialize)]
pub struct Case {
    pub seed: u64,
    /// 2..=3
    pub backends: u8,
    /// 0 round robin, 1 HRW, 2 Maglev, 3 random
    pub lb: u8,
    pub with_port: bool,
    pub front_s: u8,
    pub back_s: u8,
    /// 0 = automatic (large)
    pub max_flows: u32,
    /// listener receive limit 65507 instead of 1500
    pub big_rx: bool,
    pub requests: u32,
    pub responses: u32,
    pub ppv2: bool,
    pub every: bool,
    /// 2..=6
    pub clients: u8,
    pub steps: Vec<Step>,
    /// true: the PROXY v2 destination must be the listener's address, as the protocol specifies
    /// (known finding: sozu writes the backend's address). false: the backend's address is accepted
    /// too and counted in excluded_known.
    #[serde(default)]
    pub strict: bool,
    /// true: at the end the frontend is removed while flows are alive, then the listener is
    /// deactivated (which closes them); false: the listener is deactivated first.
    #[serde(default)]
    pub unroute_live: bool,
    /// order in which the worker learns the configuration (the final state is the same):
    /// 0 cluster, frontend, backends (as sozu's own tests); 1 frontend, cluster, backends;
    /// 2 cluster with other `udp` settings, frontend, backends, then the cluster again with the
    /// case's settings (an update of a cluster in service)
    #[serde(default)]
    pub config_order: u8,
}

fn dg() -> impl Strategy<Value = Dg> {
    let len = prop_oneof![
        1 => Just(Len::Empty),
        6 => any::<u8>().prop_map(Len::Tiny),
        22 => any::<u16>().prop_map(Len::Small),
        3 => any::<u8>().prop_map(Len::NearMax),
        2 => any::<u8>().prop_map(Len::Over),
        2 => any::<u8>().prop_map(Len::Big),
    ];
    (any::<u32>(), len, prop_oneof![2 => Just(0u8), 5 => Just(1u8), 2 => Just(2u8)], prop::option::weighted(0.15, 30u16..400)).prop_map(|(who, len, replies, late_ms)| Dg { who, len, replies, late_ms })
}

fn step() -> impl Strategy<Value = Step> {
    prop_oneof![
        7 => prop::collection::vec(dg(), 2..=6).prop_map(Step::Burst),
        3 => prop_oneof![4 => 1u16..40, 1 => 40u16..300].prop_map(Step::Pause),
    ]
}

pub fn strategy() -> impl Strategy<Value = Case> {
    (
        (any::<u64>(), 2u8..=3, 0u8..4, prop::bool::weighted(0.7), any::<bool>()),
        (prop_oneof![11 => Just(0u32), 5 => Just(2u32), 3 => Just(3u32), 1 => Just(4u32)], prop::bool::weighted(0.3)),
        (prop_oneof![3 => Just(0u32), 2 => Just(1u32), 2 => Just(3u32)], prop_oneof![3 => Just(0u32), 1 => Just(1u32), 1 => Just(2u32)], prop::bool::weighted(0.45), prop::bool::weighted(0.35)),
        2u8..=6,
        (prop::collection::vec(dg(), 2..=6), prop::collection::vec(step(), 1..=5), prop::bool::weighted(0.6), prop::collection::vec(step(), 1..=4)),
    )
        .prop_map(|((seed, backends, lb, with_port, front_long), (max_flows, big_rx), (requests, responses, ppv2, every), clients, (first, pre, expire, post))| {
            let mut steps = vec![Step::Burst(first)];
            steps.extend(pre);
            if expire {
                steps.push(Step::Expire);
                steps.extend(post);
            }
            Case {
                seed,
                backends,
                lb,
                with_port,
                front_s: if front_long { 2 } else { 1 },
                back_s: if front_long { 1 } else { 2 },
                max_flows,
                big_rx,
                requests,
                responses,
                ppv2,
                every,
                clients,
                steps,
                strict: false,
                unroute_live: (seed >> 23) % 2 == 1,
                config_order: ((seed >> 17) % 3) as u8,
            }
        })
}

// ------------------------------------------------------------------ concrete schedule

#[derive(Clone, Copy, Debug, PartialEq)]
enum Kind {
    /// sozu must forward it (loss apart)
    Forward,
    /// larger than the listener's receive limit: must never reach a backend
    MustDrop,
    /// empty, or too large for one datagram once prefixed: dropping it is admitted
    MayDrop,
}

#[derive(Clone, Debug)]
struct Sent {
    client: u8,
    seq: u8,
    len: usize,
    kind: Kind,
    phase: u32,
    burst: usize,
    replies: u8,
    late_ms: Option<u16>,
    /// ms since the start of the scenario, set when written
    t_ms: u64,
    /// the socket accepted it
    ok: bool,
}

enum RStep {
    Burst(Vec<usize>),
    Pause(u64),
    Expire,
}

struct Limits {
    max_rx: usize,
    /// largest client payload that fits a datagram towards the backend when it carries the prefix
    fit: usize,
    reply_max: usize,
}

fn limits(case: &Case) -> Limits {
    let max_rx = if case.big_rx { UDP_MAX } else { 1500 };
    let fit = if case.ppv2 { max_rx.min(UDP_MAX - PP2_V4_LEN) } else { max_rx };
    Limits { max_rx, fit, reply_max: max_rx.min(UDP_MAX) }
}

fn splitmix(x: &mut u64) -> u64 {
    engine::splitmix64(x)
}

fn key_byte(client: u8, seq: u8) -> u8 {
    0x80 | (client << 4) | (seq & 0x0F)
}

/// the payload of datagram (client, seq): first byte = key, then keyed pseudo-random bytes
fn payload(seed: u64, client: u8, seq: u8, len: usize) -> Vec<u8> {
    let mut v = Vec::with_capacity(len);
    if len == 0 {
        return v;
    }
    v.push(key_byte(client, seq));
    let mut st = seed ^ (u64::from(client) << 40) ^ (u64::from(seq) << 32) ^ 0xC19;
    while v.len() < len {
        let w = splitmix(&mut st).to_le_bytes();
        let take = (len - v.len()).min(8);
        v.extend_from_slice(&w[..take]);
    }
    v
}

fn build(case: &Case) -> (Vec<Sent>, Vec<RStep>) {
    let lim = limits(case);
    let n_clients = usize::from(case.clients.clamp(2, 6));
    let mut sent: Vec<Sent> = vec![];
    let mut steps = vec![];
    let mut next_seq = vec![0u8; n_clients];
    let mut phase = 0u32;
    let mut bursts_in_phase = 0usize;
    let mut burst_no = 0usize;
    let mut big_left = 2;
    let mut expired = false;
    for st in &case.steps {
        match st {
            Step::Pause(ms) => steps.push(RStep::Pause(u64::from(*ms).min(600))),
            Step::Expire => {
                if !expired && !sent.is_empty() {
                    expired = true;
                    steps.push(RStep::Expire);
                    phase += 1;
                    bursts_in_phase = 0;
                }
            }
            Step::Burst(dgs) => {
                // later bursts of a phase may bring clients that have not spoken yet
                let pool = n_clients.min(2 + bursts_in_phase);
                let mut idx = vec![];
                for d in dgs.iter().take(8) {
                    let c = engine::pick_idx(d.who, pool);
                    if next_seq[c] >= MAX_SEQ {
                        continue;
                    }
                    let (len, kind) = match &d.len {
                        Len::Empty => (0, Kind::MayDrop),
                        Len::Tiny(n) => (1 + usize::from(*n % 16), Kind::Forward),
                        Len::Small(n) => (17 + usize::from(*n % 1384), Kind::Forward),
                        Len::NearMax(n) if !case.big_rx || big_left > 0 => {
                            if case.big_rx {
                                big_left -= 1;
                            }
                            (lim.fit - usize::from(*n % 3), Kind::Forward)
                        }
                        Len::Big(n) if case.big_rx && big_left > 0 => {
                            big_left -= 1;
                            (lim.fit - usize::from(*n % 4), Kind::Forward)
                        }
                        Len::Over(n) if !case.big_rx => (lim.max_rx + 1 + usize::from(*n % 100), Kind::MustDrop),
                        Len::Over(n) if case.ppv2 && big_left > 0 => {
                            big_left -= 1;
                            (UDP_MAX - usize::from(*n % PP2_V4_LEN as u8), Kind::MayDrop)
                        }
                        _ => (1400, Kind::Forward),
                    };
                    let seq = next_seq[c];
                    next_seq[c] += 1;
                    idx.push(sent.len());
                    sent.push(Sent {
                        client: c as u8,
                        seq,
                        len,
                        kind,
                        phase,
                        burst: burst_no,
                        replies: d.replies.min(2),
                        late_ms: d.late_ms.map(|m| m.min(400)),
                        t_ms: 0,
                        ok: false,
                    });
                }
                if !idx.is_empty() {
                    steps.push(RStep::Burst(idx));
                    bursts_in_phase += 1;
                    burst_no += 1;
                }
            }
        }
    }
    (sent, steps)
}

// ------------------------------------------------------------------ own PROXY v2 reader

struct Pp2 {
    src: SocketAddr,
    dst: SocketAddr,
    len: usize,
}

/// Ok(None): the datagram does not start with the v2 signature
fn read_pp2(b: &[u8]) -> Result<Option<Pp2>, String> {
    if b.len() < 12 || b[..12] != PP2_SIG {
        return Ok(None);
    }
    if b.len() < 16 {
        return Err(format!("v2 signature but only {} bytes", b.len()));
    }
    if b[12] != 0x21 {
        return Err(format!("version/command byte {:#04x}, expected 0x21", b[12]));
    }
    let alen = usize::from(u16::from_be_bytes([b[14], b[15]]));
    if b[13] != 0x12 {
        return Err(format!("family/transport byte {:#04x}, expected 0x12 (AF_INET, DGRAM) for IPv4 peers", b[13]));
    }
    if alen != 12 || b.len() < 16 + alen {
        return Err(format!("address block length {alen} in a datagram of {} bytes, expected 12", b.len()));
    }
    let a = &b[16..28];
    let src = SocketAddr::from((Ipv4Addr::new(a[0], a[1], a[2], a[3]), u16::from_be_bytes([a[8], a[9]])));
    let dst = SocketAddr::from((Ipv4Addr::new(a[4], a[5], a[6], a[7]), u16::from_be_bytes([a[10], a[11]])));
    Ok(Some(Pp2 { src, dst, len: 28 }))
}

// ------------------------------------------------------------------ ports

/// a loopback address of this shard's range that is free for UDP (and TCP) right now
fn free_udp_addr() -> SocketAddr {
    bound_udp().0
}

fn bound_udp() -> (SocketAddr, UdpSocket) {
    for _ in 0..200 {
        let addr = lab::free_addr();
        if let Ok(s) = UdpSocket::bind(addr) {
            return (addr, s);
        }
    }
    panic!("harness: no free UDP port in this shard's range");
}

// ------------------------------------------------------------------ mock peers

#[derive(Clone, Debug)]
struct Arrival {
    order: u64,
    backend: usize,
    from: SocketAddr,
    raw: Vec<u8>,
}

#[derive(Clone, Debug)]
struct SentReply {
    order: u64,
    backend: usize,
    to: SocketAddr,
    client: u8,
    seq: u8,
    tag: u8,
}

#[derive(Clone, Debug)]
struct Received {
    from: SocketAddr,
    raw: Vec<u8>,
}

#[derive(Default)]
struct Shared {
    /// (client, seq) -> (immediate replies, late reply)
    plan: BTreeMap<(u8, u8), (u8, Option<u16>)>,
    arrivals: Vec<Arrival>,
    replies: Vec<SentReply>,
    reply_max: usize,
    errors: Vec<String>,
}

#[derive(Default)]
struct Ctl {
    stop: AtomicBool,
    order: AtomicU64,
    last_activity_ms: AtomicU64,
    probe_req: AtomicU64,
    probe_ack: AtomicU64,
    pending_late: AtomicU64,
}

fn reply_bytes(backend: usize, tag: u8, body: &[u8], reply_max: usize) -> Vec<u8> {
    let mut v = vec![b'B', b'0' + backend as u8, b':', tag];
    v.extend_from_slice(&body[..body.len().min(reply_max.saturating_sub(4))]);
    v
}

fn backend_loop(k: usize, sock: UdpSocket, sh: Arc<Mutex<Shared>>, ctl: Arc<Ctl>, t0: Instant) {
    let _ = sock.set_read_timeout(Some(Duration::from_millis(4)));
    let mut buf = vec![0u8; 70_000];
    let mut late: Vec<(Instant, SocketAddr, Vec<u8>, u8, u8)> = vec![];
    let mut probed = 0u64;
    // upstream address -> key byte of the first keyed datagram seen from it
    let mut seen: Vec<(SocketAddr, u8)> = vec![];
    let reply_max = sh.lock().unwrap().reply_max;
    let send = |to: SocketAddr, bytes: &[u8], client: u8, seq: u8, tag: u8| {
        let order = ctl.order.fetch_add(1, SeqCst);
        sh.lock().unwrap().replies.push(SentReply { order, backend: k, to, client, seq, tag });
        if let Err(e) = sock.send_to(bytes, to) {
            // a closed upstream socket answers with an ICMP error that a later call may report
            if e.kind() != std::io::ErrorKind::ConnectionRefused {
                sh.lock().unwrap().errors.push(format!("backend {k}: send_to {to}: {e}"));
            }
        }
    };
    loop {
        if ctl.stop.load(SeqCst) {
            break;
        }
        let now = Instant::now();
        let mut i = 0;
        while i < late.len() {
            if late[i].0 <= now {
                let (_, to, bytes, c, s) = late.remove(i);
                send(to, &bytes, c, s, b'L');
                ctl.pending_late.fetch_sub(1, SeqCst);
            } else {
                i += 1;
            }
        }
        let want = ctl.probe_req.load(SeqCst);
        if want > probed {
            probed = want;
            for (addr, key) in &seen {
                let bytes = reply_bytes(k, b'Z', &[*key], reply_max);
                send(*addr, &bytes, (*key >> 4) & 7, *key & 0x0F, b'Z');
            }
            ctl.probe_ack.fetch_add(1, SeqCst);
        }
        match sock.recv_from(&mut buf) {
            Ok((n, from)) => {
                let order = ctl.order.fetch_add(1, SeqCst);
                ctl.last_activity_ms.store(t0.elapsed().as_millis() as u64, SeqCst);
                let raw = buf[..n].to_vec();
                let body_at = match read_pp2(&raw) {
                    Ok(Some(p)) => p.len,
                    _ => 0,
                };
                let body = raw[body_at..].to_vec();
                let plan = {
                    let mut g = sh.lock().unwrap();
                    g.arrivals.push(Arrival { order, backend: k, from, raw });
                    body.first().filter(|b| **b & 0x80 != 0).and_then(|b| g.plan.get(&((*b >> 4) & 7, *b & 0x0F)).copied().map(|p| (*b, p)))
                };
                if let Some((key, (n_replies, late_ms))) = plan {
                    if !seen.iter().any(|(a, _)| *a == from) {
                        seen.push((from, key));
                    }
                    let (c, s) = ((key >> 4) & 7, key & 0x0F);
                    for r in 0..n_replies {
                        send(from, &reply_bytes(k, b'0' + r, &body, reply_max), c, s, b'0' + r);
                    }
                    if let Some(ms) = late_ms {
                        ctl.pending_late.fetch_add(1, SeqCst);
                        late.push((Instant::now() + Duration::from_millis(u64::from(ms)), from, reply_bytes(k, b'L', &body, reply_max), c, s));
                    }
                }
            }
            Err(e) => match e.kind() {
                std::io::ErrorKind::WouldBlock | std::io::ErrorKind::TimedOut | std::io::ErrorKind::Interrupted | std::io::ErrorKind::ConnectionRefused => {}
                _ => {
                    sh.lock().unwrap().errors.push(format!("backend {k}: recv_from: {e}"));
                    break;
                }
            },
        }
    }
}

fn client_loop(sock: UdpSocket, ctl: Arc<Ctl>, t0: Instant) -> Vec<Received> {
    let _ = sock.set_read_timeout(Some(Duration::from_millis(8)));
    let mut buf = vec![0u8; 70_000];
    let mut got = vec![];
    loop {
        match sock.recv_from(&mut buf) {
            Ok((n, from)) => {
                ctl.last_activity_ms.store(t0.elapsed().as_millis() as u64, SeqCst);
                got.push(Received { from, raw: buf[..n].to_vec() });
            }
            Err(_) => {
                if ctl.stop.load(SeqCst) {
                    break;
                }
            }
        }
    }
    got
}

/// stops and joins the peer threads when a scenario leaves early
struct Threads {
    ctl: Arc<Ctl>,
    backends: Vec<JoinHandle<()>>,
    clients: Vec<JoinHandle<Vec<Received>>>,
}

impl Threads {
    fn finish(&mut self) -> Vec<Vec<Received>> {
        self.ctl.stop.store(true, SeqCst);
        for b in self.backends.drain(..) {
            let _ = b.join();
        }
        self.clients.drain(..).map(|c| c.join().unwrap_or_default()).collect()
    }
}

impl Drop for Threads {
    fn drop(&mut self) {
        let _ = self.finish();
    }
}

// ------------------------------------------------------------------ lab

pub struct UdpLab {
    worker: LabWorker,
    counter: u64,
}

impl UdpLab {
    pub fn new() -> UdpLab {
        // max_rx_datagram_size is capped by the worker's buffer_size (lib/src/udp.rs clamp_max_rx)
        let cfg = LabConfig { buffer_size: 65_536, ..LabConfig::default() };
        UdpLab { worker: LabWorker::start("udp", cfg, Listeners::default(), &ConfigState::new()), counter: 0 }
    }
}

struct Observed {
    sent: Vec<Sent>,
    arrivals: Vec<Arrival>,
    replies: Vec<SentReply>,
    received: Vec<Vec<Received>>,
    client_addrs: Vec<SocketAddr>,
    backend_addrs: Vec<SocketAddr>,
    front: SocketAddr,
    probes_done: bool,
}

pub fn scenario(lab: &mut UdpLab, case: &Case) -> CheckResult {
    if !lab.worker.alive() {
        return Err(Failure::new("C19/worker-died", format!("the worker thread is gone before the scenario: {:?}", lab.worker.join())));
    }
    let obs = drive(lab, case)?;
    if !lab.worker.alive() {
        return Err(Failure::new("C19/worker-died", format!("the worker thread ended during the scenario: {:?}", lab.worker.join())));
    }
    judge(case, &obs)
}

fn drive(lab: &mut UdpLab, case: &Case) -> Result<Observed, Failure> {
    let lim = limits(case);
    let (mut sent, steps) = build(case);
    let n_backends = usize::from(case.backends.clamp(2, 3));
    let n_clients = usize::from(case.clients.clamp(2, 6));
    lab.counter += 1;
    let cluster = format!("udp{}", lab.counter);
    let t0 = Instant::now();

    // ---- peers
    let ctl = Arc::new(Ctl::default());
    let sh = Arc::new(Mutex::new(Shared { reply_max: lim.reply_max, ..Default::default() }));
    {
        let mut g = sh.lock().unwrap();
        for s in &sent {
            g.plan.insert((s.client, s.seq), (s.replies, s.late_ms));
        }
    }
    let mut threads = Threads { ctl: ctl.clone(), backends: vec![], clients: vec![] };
    let mut backend_addrs = vec![];
    for k in 0..n_backends {
        let (addr, sock) = bound_udp();
        backend_addrs.push(addr);
        let (sh2, ctl2) = (sh.clone(), ctl.clone());
        threads.backends.push(std::thread::Builder::new().name(format!("udp-backend-{k}")).spawn(move || backend_loop(k, sock, sh2, ctl2, t0)).expect("spawn"));
    }
    let mut client_socks = vec![];
    let mut client_addrs = vec![];
    for c in 0..n_clients {
        // distinct source addresses AND distinct source ports: one flow per client in both affinity modes
        let sock = UdpSocket::bind(SocketAddr::from(([127, 0, 0, 10 + c as u8], 0))).expect("harness: bind a client socket");
        client_addrs.push(sock.local_addr().expect("local_addr"));
        let rx = sock.try_clone().expect("clone");
        let ctl2 = ctl.clone();
        threads.clients.push(std::thread::Builder::new().name(format!("udp-client-{c}")).spawn(move || client_loop(rx, ctl2, t0)).expect("spawn"));
        client_socks.push(sock);
    }

    // ---- the worker's configuration (same order as e2e/src/tests/udp_tests.rs)
    let front = free_udp_addr();
    let w = &mut lab.worker;
    w.must(RequestType::AddUdpListener(UdpListenerConfig {
        address: front.into(),
        public_address: None,
        front_timeout: u32::from(case.front_s),
        back_timeout: u32::from(case.back_s),
        max_rx_datagram_size: lim.max_rx as u32,
        max_flows: case.max_flows,
        active: false,
    }));
    w.must(RequestType::ActivateListener(ActivateListener { address: front.into(), proxy: ListenerType::Udp.into(), from_scm: false }));
    let lb_of = |c: &mut Cluster| {
        c.load_balancing = match case.lb % 4 {
            0 => LoadBalancingAlgorithms::RoundRobin,
            1 => LoadBalancingAlgorithms::Hrw,
            2 => LoadBalancingAlgorithms::Maglev,
            _ => LoadBalancingAlgorithms::Random,
        } as i32;
    };
    let final_udp = UdpClusterConfig {
        affinity_key: Some(if case.with_port { UdpAffinityKey::SourceIpPort } else { UdpAffinityKey::SourceIp } as i32),
        responses: Some(case.responses),
        requests: Some(case.requests),
        send_proxy_protocol: Some(case.ppv2),
        proxy_protocol_every_datagram: Some(case.every),
        health: None,
    };
    // the settings a cluster in service had before its update: every knob differs from the final one
    let earlier_udp = UdpClusterConfig {
        affinity_key: Some(if case.with_port { UdpAffinityKey::SourceIp } else { UdpAffinityKey::SourceIpPort } as i32),
        responses: Some(if case.responses == 1 { 0 } else { 1 }),
        requests: Some(if case.requests == 1 { 0 } else { 1 }),
        send_proxy_protocol: Some(!case.ppv2),
        proxy_protocol_every_datagram: Some(!case.every),
        health: None,
    };
    let add_frontend = |w: &mut LabWorker| w.must(RequestType::AddUdpFrontend(RequestUdpFrontend { cluster_id: cluster.clone(), address: front.into(), ..Default::default() }));
    let add_backends = |w: &mut LabWorker| {
        for (k, addr) in backend_addrs.iter().enumerate() {
            w.add_backend(&cluster, &format!("{cluster}-{k}"), *addr);
        }
    };
    match case.config_order {
        1 => {
            add_frontend(w);
            w.add_cluster(&cluster, |c| {
                lb_of(c);
                c.udp = Some(final_udp.clone());
            });
            add_backends(w);
        }
        2 => {
            w.add_cluster(&cluster, |c| {
                lb_of(c);
                c.udp = Some(earlier_udp.clone());
            });
            add_frontend(w);
            add_backends(w);
            w.add_cluster(&cluster, |c| {
                lb_of(c);
                c.udp = Some(final_udp.clone());
            });
        }
        _ => {
            w.add_cluster(&cluster, |c| {
                lb_of(c);
                c.udp = Some(final_udp.clone());
            });
            add_frontend(w);
            add_backends(w);
        }
    }

    // ---- the schedule
    let mut probes_done = false;
    for st in &steps {
        match st {
            RStep::Pause(ms) => std::thread::sleep(Duration::from_millis(*ms)),
            RStep::Burst(idx) => {
                // payloads first, so that the writes follow each other without a pause
                let bytes: Vec<Vec<u8>> = idx.iter().map(|i| payload(case.seed, sent[*i].client, sent[*i].seq, sent[*i].len)).collect();
                for (i, b) in idx.iter().zip(bytes.iter()) {
                    let s = &mut sent[*i];
                    s.t_ms = t0.elapsed().as_millis() as u64;
                    s.ok = matches!(client_socks[usize::from(s.client)].send_to(b, front), Ok(n) if n == b.len());
                }
                std::thread::sleep(Duration::from_millis(1));
            }
            RStep::Expire => {
                std::thread::sleep(Duration::from_millis(u64::from(case.front_s.max(case.back_s)) * 1000 + 1500));
                let before = ctl.probe_ack.load(SeqCst);
                ctl.probe_req.fetch_add(1, SeqCst);
                let end = Instant::now() + Duration::from_secs(2);
                while ctl.probe_ack.load(SeqCst) < before + n_backends as u64 && Instant::now() < end {
                    std::thread::sleep(Duration::from_millis(2));
                }
                probes_done = ctl.probe_ack.load(SeqCst) >= before + n_backends as u64;
                std::thread::sleep(Duration::from_millis(150));
            }
        }
    }
    // ---- quiescence: nothing received anywhere for 250 ms and no late reply outstanding
    let end = Instant::now() + Duration::from_secs(4);
    loop {
        std::thread::sleep(Duration::from_millis(20));
        let idle = (t0.elapsed().as_millis() as u64).saturating_sub(ctl.last_activity_ms.load(SeqCst));
        let last_send = sent.iter().map(|s| s.t_ms).max().unwrap_or(0);
        let since_send = (t0.elapsed().as_millis() as u64).saturating_sub(last_send);
        if (ctl.pending_late.load(SeqCst) == 0 && idle > 250 && since_send > 250) || Instant::now() >= end {
            break;
        }
    }
    let received = threads.finish();
    let (arrivals, replies, errors) = {
        let mut g = sh.lock().unwrap();
        (std::mem::take(&mut g.arrivals), std::mem::take(&mut g.replies), std::mem::take(&mut g.errors))
    };
    if let Some(e) = errors.first() {
        panic!("harness: mock peer error: {e}");
    }

    // ---- take the configuration down again (the worker is reused)
    if lab.worker.alive() {
        // Finding C19/worker-died:flows-closed-after-unroute (repaired in sozu, 3c7e5ec): removing the frontend
        // switches the manager to the default (IP-only) affinity; flows admitted in IP+port mode that were closed
        // afterwards left their entry in the shell's shadow table (debug assertion in lib/src/udp.rs).
        // Half of the generated scenarios now remove the frontend while flows are alive.
        let unroute = RequestType::RemoveUdpFrontend(RequestUdpFrontend { cluster_id: cluster.clone(), address: front.into(), ..Default::default() });
        let deactivate = RequestType::DeactivateListener(DeactivateListener { address: front.into(), proxy: ListenerType::Udp.into(), to_scm: false });
        let mut down = if case.unroute_live { vec![unroute, deactivate] } else { vec![deactivate, unroute] };
        down.push(RequestType::RemoveListener(RemoveListener { address: front.into(), proxy: ListenerType::Udp.into() }));
        for (k, addr) in backend_addrs.iter().enumerate() {
            down.push(RequestType::RemoveBackend(RemoveBackend { cluster_id: cluster.clone(), backend_id: format!("{cluster}-{k}"), address: (*addr).into() }));
        }
        down.push(RequestType::RemoveCluster(cluster.clone()));
        for req in down {
            let dbg = engine::truncate(&format!("{req:?}"), 200);
            match lab.worker.request(req) {
                Ok(r) if r.status == ResponseStatus::Ok as i32 => {}
                Ok(r) => panic!("harness: tear-down request refused: {} - {dbg}", r.message),
                Err(e) => {
                    // the worker ends while it handles the command: that is the worker's failure, not the harness'
                    let end = Instant::now() + Duration::from_secs(2);
                    while lab.worker.alive() && Instant::now() < end {
                        std::thread::sleep(Duration::from_millis(10));
                    }
                    if lab.worker.alive() {
                        panic!("harness: tear-down request got no answer: {e:?} - {dbg}");
                    }
                    let sig = if case.unroute_live { "C19/worker-died:flows-closed-after-unroute" } else { "C19/worker-died:tear-down" };
                    return Err(Failure::new(sig, format!("the worker thread ended while handling {dbg} at the end of the scenario: {:?}", lab.worker.join())));
                }
            }
        }
    }
    Ok(Observed { sent, arrivals, replies, received, client_addrs, backend_addrs, front, probes_done })
}

// ------------------------------------------------------------------ oracle

/// one upstream source address as the backends saw it, for one client
#[derive(Clone, Debug)]
struct Life {
    from: SocketAddr,
    backend: usize,
    client: u8,
    /// (arrival order, seq, carried a PROXY prefix)
    dgs: Vec<(u64, u8, bool)>,
}

impl Life {
    fn min_seq(&self) -> u8 {
        self.dgs.iter().map(|d| d.1).min().unwrap_or(0)
    }
    fn max_seq(&self) -> u8 {
        self.dgs.iter().map(|d| d.1).max().unwrap_or(0)
    }
    fn first_order(&self) -> u64 {
        self.dgs.iter().map(|d| d.0).min().unwrap_or(0)
    }
}

fn judge(case: &Case, o: &Observed) -> CheckResult {
    let lim = limits(case);
    let mut rep = CaseReport::default();
    let min_idle_ms = u64::from(case.front_s.min(case.back_s)) * 1000;
    let by_key: BTreeMap<(u8, u8), &Sent> = o.sent.iter().map(|s| ((s.client, s.seq), s)).collect();
    let what = |c: u8, s: u8| format!("datagram {s} of client {c} ({})", o.client_addrs[usize::from(c)]);

    // ---- (2) every datagram a backend received is one a client sent: intact, at most once
    let mut arrived: BTreeMap<(u8, u8), usize> = BTreeMap::new();
    // upstream address -> arrivals in order: (order, backend, client, seq, prefixed)
    // (upstream address, backend): the kernel may hand a closed socket's port to a later one
    let mut by_from: BTreeMap<(SocketAddr, usize), Vec<(u64, u8, u8, bool)>> = BTreeMap::new();
    let mut excluded_dst = 0u64;
    let mut arrivals: Vec<&Arrival> = o.arrivals.iter().collect();
    arrivals.sort_by_key(|a| a.order);
    for a in &arrivals {
        let pp = match read_pp2(&a.raw) {
            Ok(p) => p,
            Err(why) => fail!("C19/ppv2-malformed", "backend {} received from {} a datagram starting with the PROXY v2 signature that is not a well-formed v2 DGRAM header: {why}; first bytes {:02x?}", a.backend, a.from, &a.raw[..a.raw.len().min(32)]),
        };
        if pp.is_some() && !case.ppv2 {
            fail!("C19/ppv2-unexpected", "send_proxy_protocol is off but backend {} received a datagram with a PROXY v2 prefix from {}", a.backend, a.from);
        }
        let body = &a.raw[pp.as_ref().map(|p| p.len).unwrap_or(0)..];
        if body.is_empty() {
            // an empty client datagram: sozu may drop it; forwarded as empty it is no corruption
            if !o.sent.iter().any(|s| s.len == 0 && s.ok) {
                fail!("C19/datagram-never-sent", "backend {} received an empty datagram from {} but no client sent one", a.backend, a.from);
            }
            continue;
        }
        let (c, s) = ((body[0] >> 4) & 7, body[0] & 0x0F);
        let Some(snt) = by_key.get(&(c, s)).filter(|s| s.ok && body[0] & 0x80 != 0) else {
            fail!("C19/datagram-never-sent", "backend {} received from {} a {}-byte datagram (first bytes {:02x?}) that no client sent", a.backend, a.from, body.len(), &body[..body.len().min(16)]);
        };
        let want = payload(case.seed, c, s, snt.len);
        if body != &want[..] {
            let sig = if body.len() < want.len() && want.starts_with(body) {
                "C19/payload-truncated"
            } else if body.len() > want.len() && body.starts_with(&want) {
                "C19/payloads-merged"
            } else {
                "C19/payload-altered"
            };
            let at = body.iter().zip(want.iter()).position(|(x, y)| x != y).unwrap_or(body.len().min(want.len()));
            fail!(sig, "{}: sent {} bytes, backend {} received {} bytes from {}; first difference at offset {at}", what(c, s), want.len(), a.backend, body.len(), a.from);
        }
        if snt.kind == Kind::MustDrop {
            fail!("C19/oversize-datagram-forwarded", "{} has {} bytes, above the listener's max_rx_datagram_size {}, and reached backend {}", what(c, s), snt.len, lim.max_rx, a.backend);
        }
        *arrived.entry((c, s)).or_insert(0) += 1;
        if arrived[&(c, s)] > 1 {
            fail!("C19/datagram-duplicated", "{} reached the backends {} times (last: backend {} from {})", what(c, s), arrived[&(c, s)], a.backend, a.from);
        }
        if let Some(p) = &pp {
            let client_addr = o.client_addrs[usize::from(c)];
            if p.src != client_addr {
                fail!("C19/ppv2-wrong-client", "{}: its PROXY v2 prefix names source {}, the client's address is {client_addr}", what(c, s), p.src);
            }
            if p.dst != o.front {
                // sozu documents its choice (lib/src/protocol/udp/proxy_protocol.rs: "The destination is the backend
                // address") and the property says nothing about the prefix: both the listener and the backend address
                // are admitted, any third address is not
                if p.dst == o.backend_addrs[a.backend] {
                    excluded_dst += 1;
                } else {
                    fail!(
                        "C19/ppv2-destination-not-listener",
                        "{}: its PROXY v2 prefix names destination {}; the address the client sent to is the listener {} (the backend that received it is {})",
                        what(c, s),
                        p.dst,
                        o.front,
                        o.backend_addrs[a.backend]
                    );
                }
            }
        }
        by_from.entry((a.from, a.backend)).or_default().push((a.order, c, s, pp.is_some()));
    }
    rep.class_if(case.unroute_live && !o.arrivals.is_empty(), "frontend_removed_while_flows_alive");

    // ---- (1) isolation: one upstream socket carries one client's flow
    let mut lives: Vec<Life> = vec![];
    let mut port_reused = false;
    for ((from, backend), v) in &by_from {
        let clients: BTreeSet<u8> = v.iter().map(|x| x.1).collect();
        // arrival order at one backend is taken by one thread: spans of two clients on one socket compare safely
        let mut spans: Vec<(u64, u64, u8)> = clients
            .iter()
            .map(|c| {
                let orders: Vec<u64> = v.iter().filter(|x| x.1 == *c).map(|x| x.0).collect();
                (*orders.iter().min().unwrap(), *orders.iter().max().unwrap(), *c)
            })
            .collect();
        spans.sort();
        for w in spans.windows(2) {
            if w[1].0 < w[0].1 {
                fail!(
                    "C19/upstream-socket-shared",
                    "the proxy's upstream socket {from} (to backend {backend}) carried datagrams of client {} ({}) and, in between, of client {} ({}): flows are not isolated, the backend cannot tell them apart and its replies go to one of them",
                    w[0].2,
                    o.client_addrs[usize::from(w[0].2)],
                    w[1].2,
                    o.client_addrs[usize::from(w[1].2)]
                );
            }
            port_reused = true;
        }
        port_reused |= by_from.keys().any(|(f, b)| f == from && b != backend);
        for c in &clients {
            let dgs: Vec<(u64, u8, bool)> = v.iter().filter(|x| x.1 == *c).map(|x| (x.0, x.2, x.3)).collect();
            if let Some(w) = dgs.windows(2).find(|w| w[1].1 <= w[0].1) {
                fail!("C19/datagrams-reordered", "client {c}, upstream socket {from}: datagram {} arrived after datagram {}", w[1].1, w[0].1);
            }
            lives.push(Life { from: *from, backend: *backend, client: *c, dgs });
        }
    }

    if std::env::var("VP_C19_TRACE").is_ok() {
        // debugging by hand (replays): what was written, what the backends saw
        eprintln!("-- scenario: requests {} responses {} max_flows {} ppv2 {}/{} timeouts {}/{} s", case.requests, case.responses, case.max_flows, case.ppv2, case.every, case.front_s, case.back_s);
        for s in &o.sent {
            eprintln!("   sent client {} #{} {} bytes {:?} phase {} burst {} t {} ms ok {} arrived {}", s.client, s.seq, s.len, s.kind, s.phase, s.burst, s.t_ms, s.ok, arrived.contains_key(&(s.client, s.seq)));
        }
        for l in &lives {
            eprintln!("   life client {} via {} to backend {}: (order, datagram, prefixed) {:?}", l.client, l.from, l.backend, l.dgs);
        }
        eprintln!("   replies sent {} received {:?}", o.replies.len(), o.received.iter().map(|r| r.len()).collect::<Vec<_>>());
    }

    // not arrived although written, non-empty and within the receive limit (sozu may have counted them)
    let unaccounted = |c: u8, lo: i32, hi: u8| -> usize { o.sent.iter().filter(|s| s.client == c && s.ok && s.len > 0 && s.kind != Kind::MustDrop && i32::from(s.seq) > lo && s.seq < hi && !arrived.contains_key(&(c, s.seq))).count() };

    // ---- (1) stickiness, (4) request cap, (5) idle teardown: per client, life after life
    let mut stall_excused = false;
    let mut expiry_then_new = false;
    let mut new_life_other_backend = false;
    for c in 0..o.client_addrs.len() as u8 {
        let mut ls: Vec<&Life> = lives.iter().filter(|l| l.client == c).collect();
        ls.sort_by_key(|l| l.min_seq());
        for l in &ls {
            // PROXY prefix: on the first datagram of a flow life, or on every one
            for (n, (_, seq, prefixed)) in l.dgs.iter().enumerate() {
                let expected = case.ppv2 && (case.every || n == 0);
                if *prefixed && !expected {
                    fail!("C19/ppv2-unexpected", "{}: carries a PROXY v2 prefix but is not the first datagram from the upstream socket {} (prefix on every datagram: {})", what(c, *seq), l.from, case.every);
                }
                if expected && !*prefixed {
                    // the true first datagram of the life may have been lost behind sozu
                    let prev_max = ls.iter().filter(|p| p.min_seq() < l.min_seq()).map(|p| p.max_seq()).max();
                    let lost_before = n == 0 && !case.every && o.sent.iter().any(|s| s.client == c && s.ok && s.len > 0 && s.kind != Kind::MustDrop && s.seq < *seq && prev_max.map(|m| s.seq > m).unwrap_or(true) && !arrived.contains_key(&(c, s.seq)));
                    if !lost_before {
                        fail!("C19/ppv2-missing", "{}: datagram #{n} from the upstream socket {} carries no PROXY v2 prefix (send_proxy_protocol on, every datagram: {})", what(c, *seq), l.from, case.every);
                    }
                }
            }
            if case.requests > 0 && l.dgs.len() > case.requests as usize {
                fail!("C19/requests-cap-exceeded", "requests = {}: the flow of client {c} on the upstream socket {} forwarded {} datagrams ({:?})", case.requests, l.from, l.dgs.len(), l.dgs.iter().map(|d| d.1).collect::<Vec<_>>());
            }
            let phases: BTreeSet<u32> = l.dgs.iter().map(|d| by_key[&(c, d.1)].phase).collect();
            if phases.len() > 1 {
                fail!(
                    "C19/idle-flow-not-torn-down",
                    "client {c} was silent for {} s (front_timeout {} s, back_timeout {} s) between datagram {} and datagram {}, yet both left through the same upstream socket {}: the idle flow was not closed",
                    f64::from(case.front_s.max(case.back_s)) + 1.5,
                    case.front_s,
                    case.back_s,
                    l.dgs.iter().filter(|d| by_key[&(c, d.1)].phase == *phases.iter().next().unwrap()).map(|d| d.1).max().unwrap_or(0),
                    l.dgs.iter().filter(|d| by_key[&(c, d.1)].phase != *phases.iter().next().unwrap()).map(|d| d.1).min().unwrap_or(0),
                    l.from
                );
            }
        }
        for w in ls.windows(2) {
            let (l1, l2) = (w[0], w[1]);
            if l1.max_seq() > l2.min_seq() {
                fail!("C19/flow-lives-interleaved", "client {c}: datagram {} left through the upstream socket {} after datagram {} had left through the newer socket {}", l1.max_seq(), l1.from, l2.min_seq(), l2.from);
            }
            let p1 = by_key[&(c, l1.max_seq())].phase;
            let p2 = by_key[&(c, l2.min_seq())].phase;
            new_life_other_backend |= l1.backend != l2.backend;
            if p1 != p2 {
                expiry_then_new = true;
                continue;
            }
            // why may the first life have ended?
            // datagrams that never arrived may still have been counted by sozu (lost behind it, or too
            // large to be sent once prefixed): those between the previous life and the next one count
            let prev_end = ls.iter().filter(|p| p.min_seq() < l1.min_seq()).map(|p| i32::from(p.max_seq())).max().unwrap_or(-1);
            let forwarded = l1.dgs.len() + unaccounted(c, prev_end, l2.min_seq());
            let by_requests = case.requests > 0 && forwarded >= case.requests as usize;
            let replies_before = o.replies.iter().filter(|r| r.to == l1.from && r.backend == l1.backend && r.tag != b'Z' && r.order < l2.first_order()).count();
            let by_responses = case.responses > 0 && replies_before >= case.responses as usize;
            let mut gap = 0u64;
            let ts: Vec<u64> = o.sent.iter().filter(|s| s.client == c && s.seq >= l1.max_seq() && s.seq <= l2.min_seq()).map(|s| s.t_ms).collect();
            for t in ts.windows(2) {
                gap = gap.max(t[1].saturating_sub(t[0]));
            }
            let by_idle = gap + 250 >= min_idle_ms;
            if by_idle && !by_requests && !by_responses {
                stall_excused = true;
            }
            if !(by_requests || by_responses || by_idle) {
                fail!(
                    format!("C19/flow-not-sticky:{}", if l1.backend != l2.backend { "other-backend" } else { "other-socket" }),
                    "client {c}: datagrams {:?} left through the upstream socket {} to backend {}, the following datagrams {:?} through {} to backend {}, although nothing ended the flow: requests cap {} ({} forwarded), responses cap {} ({} replies sent by the backend before), longest silence of the client {} ms (idle timeouts {} s / {} s)",
                    l1.dgs.iter().map(|d| d.1).collect::<Vec<_>>(),
                    l1.from,
                    l1.backend,
                    l2.dgs.iter().map(|d| d.1).collect::<Vec<_>>(),
                    l2.from,
                    l2.backend,
                    case.requests,
                    forwarded,
                    case.responses,
                    replies_before,
                    gap,
                    case.front_s,
                    case.back_s
                );
            }
        }
    }

    // ---- (4) cap on live flows; loss
    let n_phases = o.sent.iter().map(|s| s.phase).max().map(|p| p + 1).unwrap_or(0);
    let unlimited = case.requests == 0 && case.responses == 0;
    let small_cap = case.max_flows > 0;
    let mut accountable = 0usize;
    let mut lost = 0usize;
    let mut shed_seen = false;
    let mut strong_cap_check = false;
    for p in 0..n_phases {
        let in_phase: Vec<&Sent> = o.sent.iter().filter(|s| s.phase == p && s.ok).collect();
        let (t_first, t_last) = (in_phase.iter().map(|s| s.t_ms).min().unwrap_or(0), in_phase.iter().map(|s| s.t_ms).max().unwrap_or(0));
        let short = t_last - t_first + 250 < min_idle_ms;
        let phase_lives: Vec<&Life> = lives.iter().filter(|l| by_key[&(l.client, l.dgs[0].1)].phase == p).collect();
        let speakers: BTreeSet<u8> = in_phase.iter().filter(|s| s.kind == Kind::Forward).map(|s| s.client).collect();
        if small_cap {
            // Certainly alive at once: a flow exists from the moment sozu handles its first datagram
            // until it handles its last. One thread writes every datagram to the one listener socket,
            // so sozu handles them in the order written: positions in that order, not arrival times
            // at the backends (separate threads), delimit a life.
            let pos = |c: u8, seq: u8| o.sent.iter().position(|s| s.client == c && s.seq == seq).unwrap_or(0);
            let mut events: Vec<(usize, i32)> = vec![];
            for l in &phase_lives {
                events.push((pos(l.client, l.min_seq()), 1));
                events.push((pos(l.client, l.max_seq()) + 1, -1));
            }
            events.sort();
            let (mut cur, mut peak) = (0i32, 0i32);
            for (_, d) in events {
                cur += d;
                peak = peak.max(cur);
            }
            if peak > case.max_flows as i32 {
                fail!(
                    "C19/max-flows-exceeded",
                    "max_flows = {}: {peak} upstream sockets were in use at once (each between the first and the last datagram it carried, in the order the datagrams were written): {:?}",
                    case.max_flows,
                    phase_lives.iter().map(|l| (l.client, l.from, l.min_seq(), l.max_seq())).collect::<Vec<_>>()
                );
            }
            if unlimited && short {
                strong_cap_check = true;
                if phase_lives.len() > case.max_flows as usize {
                    fail!(
                        "C19/max-flows-exceeded",
                        "max_flows = {}, no request/response cap, all datagrams of the phase written within {} ms (idle timeouts {} s / {} s): {} upstream sockets were opened ({:?})",
                        case.max_flows,
                        t_last - t_first,
                        case.front_s,
                        case.back_s,
                        phase_lives.len(),
                        phase_lives.iter().map(|l| (l.client, l.from)).collect::<Vec<_>>()
                    );
                }
                // a datagram too large to leave once prefixed still opens a flow no backend ever sees
                let invisible = in_phase.iter().any(|s| s.kind == Kind::MayDrop && s.len > 0);
                if !invisible && phase_lives.len() < speakers.len().min(case.max_flows as usize) {
                    fail!("C19/flow-refused-under-cap", "max_flows = {}: {} clients sent datagrams, only {} flows were opened", case.max_flows, speakers.len(), phase_lives.len());
                }
                shed_seen |= !invisible && speakers.len() > phase_lives.len();
                // existing flows continue: everything an admitted client sent after its first forwarded datagram
                for l in &phase_lives {
                    for s in in_phase.iter().filter(|s| s.client == l.client && s.kind == Kind::Forward && s.seq >= l.min_seq()) {
                        accountable += 1;
                        lost += usize::from(!arrived.contains_key(&(s.client, s.seq)));
                    }
                }
            }
        } else {
            for s in in_phase.iter().filter(|s| s.kind == Kind::Forward) {
                accountable += 1;
                lost += usize::from(!arrived.contains_key(&(s.client, s.seq)));
            }
        }
    }
    if lost >= 2 && lost * 5 > accountable {
        let missing: Vec<(u8, u8)> = o.sent.iter().filter(|s| s.ok && s.kind == Kind::Forward && !arrived.contains_key(&(s.client, s.seq))).map(|s| (s.client, s.seq)).collect();
        fail!("C19/datagrams-lost", "{lost} of {accountable} datagrams that had to be forwarded never reached a backend; missing (client, datagram): {missing:?}");
    }

    // ---- (3) replies: only to the client that owns the flow, intact, at most once, in order, within the cap
    let mut seen_reply: BTreeSet<(u8, u8, u8)> = BTreeSet::new();
    // a reply belongs to the life that carried the datagram it answers
    let life_of: BTreeMap<(u8, u8), usize> = lives.iter().enumerate().flat_map(|(i, l)| l.dgs.iter().map(move |d| ((l.client, d.1), i))).collect();
    let mut per_life_replies: BTreeMap<usize, usize> = BTreeMap::new();
    let mut got_replies = 0usize;
    for (ci, recs) in o.received.iter().enumerate() {
        let ci8 = ci as u8;
        let mut last_order_per_life: BTreeMap<usize, u64> = BTreeMap::new();
        for r in recs {
            if r.raw.len() < 5 || r.raw[0] != b'B' || r.raw[2] != b':' || !(b'0'..=b'2').contains(&r.raw[1]) {
                fail!("C19/reply-altered", "client {ci} received {} bytes that are no reply of a mock backend: {:02x?}", r.raw.len(), &r.raw[..r.raw.len().min(24)]);
            }
            let (k, tag, echo) = (usize::from(r.raw[1] - b'0'), r.raw[3], &r.raw[4..]);
            let (c, s) = ((echo[0] >> 4) & 7, echo[0] & 0x0F);
            if c != ci8 {
                fail!(
                    "C19/reply-to-wrong-client",
                    "client {ci} ({}) received backend {k}'s reply '{}' to {}: a reply was returned to a client that does not own the flow",
                    o.client_addrs[ci],
                    tag as char,
                    what(c, s)
                );
            }
            if tag == b'Z' {
                fail!(
                    "C19/reply-after-flow-closed",
                    "client {ci}: backend {k} sent a datagram to the upstream socket of a flow that had been idle for {} s (front_timeout {} s, back_timeout {} s) and the client received it: the flow's upstream socket was still open and routed",
                    f64::from(case.front_s.max(case.back_s)) + 1.5,
                    case.front_s,
                    case.back_s
                );
            }
            let Some(sr) = o.replies.iter().find(|x| x.backend == k && x.client == c && x.seq == s && x.tag == tag) else {
                fail!("C19/reply-never-sent", "client {ci} received a reply '{}' of backend {k} to {} that this backend never sent", tag as char, what(c, s));
            };
            let Some(snt) = by_key.get(&(c, s)) else {
                fail!("C19/reply-never-sent", "client {ci} received a reply to a datagram nobody sent");
            };
            let want = reply_bytes(k, tag, &payload(case.seed, c, s, snt.len), lim.reply_max);
            if r.raw != want {
                fail!("C19/reply-altered", "client {ci}: reply '{}' of backend {k} to {}: {} bytes sent, {} bytes received, or bytes differ", tag as char, what(c, s), want.len(), r.raw.len());
            }
            if r.from != o.front {
                fail!("C19/reply-from-wrong-address", "client {ci} received a reply from {}, it sent its datagrams to the listener {}", r.from, o.front);
            }
            if !seen_reply.insert((c, s, tag)) {
                fail!("C19/reply-duplicated", "client {ci} received reply '{}' of backend {k} to {} twice", tag as char, what(c, s));
            }
            let Some(life) = life_of.get(&(c, s)).copied() else {
                fail!("C19/reply-never-sent", "client {ci} received a reply to {} which no backend recorded", what(c, s));
            };
            if let Some(prev) = last_order_per_life.insert(life, sr.order) {
                if prev > sr.order {
                    fail!("C19/replies-reordered", "client {ci}: replies sent by backend {k} to the upstream socket {} arrived in another order than they were sent", sr.to);
                }
            }
            *per_life_replies.entry(life).or_insert(0) += 1;
            got_replies += 1;
        }
    }
    if case.responses > 0 {
        if let Some((life, n)) = per_life_replies.iter().find(|(_, n)| **n > case.responses as usize) {
            fail!("C19/responses-cap-exceeded", "responses = {}: {n} replies sent to the upstream socket {} were returned to client {}", case.responses, lives[*life].from, lives[*life].client);
        }
    }
    if unlimited && !small_cap {
        let expected = o.replies.iter().filter(|r| r.tag != b'Z').count();
        let missing = expected.saturating_sub(got_replies);
        if missing >= 2 && missing * 5 > expected {
            fail!("C19/replies-lost", "{missing} of {expected} replies sent by the backends on live flows (no cap, idle timeouts not reached) never reached their client");
        }
    }

    // ---- measurement
    let clients_seen: BTreeSet<u8> = lives.iter().map(|l| l.client).collect();
    let mixed_burst = {
        let mut per_burst: BTreeMap<usize, BTreeSet<u8>> = BTreeMap::new();
        for s in o.sent.iter().filter(|s| s.ok) {
            per_burst.entry(s.burst).or_default().insert(s.client);
        }
        per_burst.values().any(|v| v.len() >= 2)
    };
    rep.nontrivial = clients_seen.len() >= 2 && mixed_burst;
    let (new_then_est, est_then_new) = adjacency(case, &o.sent);
    rep.class_if(new_then_est, "new_flow_then_established_in_one_burst");
    rep.class_if(est_then_new, "established_then_new_in_one_burst");
    rep.class_if(expiry_then_new, "idle_expiry_then_new_flow");
    rep.class_if(o.probes_done && o.replies.iter().any(|r| r.tag == b'Z'), "late_backend_datagram_to_expired_flow");
    rep.class_if(case.ppv2 && lives.iter().any(|l| l.dgs.iter().any(|d| d.2)), "proxy_protocol");
    rep.class_if(case.ppv2 && case.every, "proxy_protocol_every_datagram");
    rep.class_if(case.config_order == 1, "frontend_added_before_cluster");
    rep.class_if(case.config_order == 2, "cluster_settings_updated_in_service");
    rep.class_if(case.requests == 1, "requests_cap_1");
    rep.class_if(case.requests > 1, "requests_cap_3");
    rep.class_if(case.responses > 0, "responses_cap");
    rep.class(format!("backends_{}", o.backend_addrs.len()));
    rep.class(format!("backends_used_{}", lives.iter().map(|l| l.backend).collect::<BTreeSet<_>>().len()));
    rep.class_if(small_cap, "max_flows_small");
    rep.class_if(strong_cap_check, "max_flows_counted");
    rep.class_if(shed_seen, "new_flow_shed_at_cap");
    rep.class_if(!case.with_port, "affinity_source_ip");
    rep.class_if(new_life_other_backend, "new_life_on_other_backend");
    rep.class_if(stall_excused, "flow_ended_by_measured_silence");
    rep.class_if(port_reused, "upstream_port_reused");
    rep.class_if(got_replies > 0, "replies_returned");
    rep.class_if(o.replies.iter().any(|r| r.tag == b'L') && seen_reply.iter().any(|r| r.2 == b'L'), "late_reply_returned");
    rep.class_if(o.sent.iter().any(|s| s.ok && s.len > 60_000 && arrived.contains_key(&(s.client, s.seq))), "64KiB_datagram_forwarded");
    rep.class_if(o.sent.iter().any(|s| s.ok && s.kind == Kind::MustDrop), "oversize_datagram_dropped");
    rep.class_if(excluded_dst > 0, "ppv2_destination_is_backend_address");
    rep.class_if(lost > 0, "some_datagram_lost");
    rep.inner_evaluations = (o.arrivals.len() + got_replies) as u64;
    Ok(rep)
}

/// (a new flow's first datagram directly followed by a datagram of an established flow of another
/// client, the reverse) in one burst, by a plain model of which client holds a flow
fn adjacency(case: &Case, sent: &[Sent]) -> (bool, bool) {
    let mut live: BTreeMap<u8, u32> = BTreeMap::new();
    let mut phase = 0;
    let (mut a, mut b) = (false, false);
    // (burst, client, was new)
    let mut prev: Option<(usize, u8, bool)> = None;
    for s in sent.iter().filter(|s| s.ok && s.kind == Kind::Forward) {
        if s.phase != phase {
            phase = s.phase;
            live.clear();
            prev = None;
        }
        let is_new = !live.contains_key(&s.client);
        if is_new && case.max_flows > 0 && live.len() >= case.max_flows as usize {
            // shed: neither new nor established
            prev = None;
            continue;
        }
        let n = live.entry(s.client).or_insert(0);
        *n += 1;
        if case.requests > 0 && *n >= case.requests {
            live.remove(&s.client);
        }
        if let Some((burst, pc, pnew)) = prev {
            if burst == s.burst && pc != s.client {
                a |= pnew && !is_new;
                b |= !pnew && is_new;
            }
        }
        prev = Some((s.burst, s.client, is_new));
    }
    (a, b)
}

pub fn rule() -> &'static str {
    "a live worker with one UDP listener (front/back idle timeouts 1 s / 2 s or 2 s / 1 s, max_rx_datagram_size 1500 or 65507, max_flows automatic or 2..4), one UDP cluster (round robin / HRW / Maglev / random; affinity by source IP or IP+port; requests cap 0/1/3, responses cap 0/1/2, PROXY v2 prefix off / first datagram / every datagram) and 2..3 mock UDP backends on real loopback sockets; the configuration reaches the worker in one of three orders with the same final state (cluster, frontend, backends; frontend before cluster; cluster with every `udp` setting different, frontend, backends, then the cluster again with the final settings); 2..6 clients, each its own socket on its own 127.0.0.x address, send keyed datagrams (first byte = client and sequence number, then keyed bytes; 1..1400 bytes, some empty, at the receive limit, above it, near 64 KiB) in bursts written back-to-back by one thread, clients mixed, later bursts bringing clients that have not spoken yet (a new flow's first datagram next to a datagram of an established flow), pauses of 1..300 ms, and (60%) one silence of max(front, back) + 1.5 s after which every backend sends a datagram to each upstream address it has seen and the clients speak again. Each backend records (source address = the proxy's upstream socket, bytes) of every datagram and answers by plan: 0..2 immediate replies 'B<k>:<n>' + payload, optionally one more 30..400 ms later. Oracle, from what backends and clients saw: every datagram at a backend is byte-identical to one a client sent (own PROXY v2 reader: well-formed DGRAM/IPv4 header, source = the client's real address, destination = the listener; present exactly on the first datagram of an upstream socket, or on every one), at most once, in sending order per upstream socket, never one above the receive limit; one upstream socket carries datagrams of one client only ; a client moves to another upstream socket only when the requests cap was reached, the backend had sent `responses` replies before, or the client had been silent (measured) for the shorter idle timeout - 250 ms; never more datagrams per upstream socket than the requests cap, never more replies returned per upstream socket than the responses cap; max_flows: never more upstream sockets in use at once than the cap (each between the first and the last datagram it carried, in the order the single writer thread wrote the datagrams, which is the order sozu handles them), and with no other cap and a phase shorter than the idle timeouts exactly min(cap, clients) sockets, the admitted clients keep being served; after the silence no datagram leaves through an old upstream socket and the backends' late datagrams reach no client; every datagram a client receives comes from the listener's address, is a reply the backend of its own flow sent to one of its own datagrams, intact, at most once, in the order sent; more than 20% of the datagrams (or, without caps, replies) missing is a failure, less is UDP; the worker is alive. A failure is re-run twice on a fresh worker and reported only if it reproduces. Non-trivial: datagrams of >= 2 clients forwarded and a burst that mixes clients."
}

/// child-process entry: run this shard's scenarios
pub fn child(args: &Args, total: u64) -> Stats {
    lab::init_ports(args.shard.map(|s| s.0).unwrap_or(0));
    if std::env::var("VP_LAB_LOG").is_ok() {
        // debugging by hand: show where a worker thread panics (the engine's hook keeps that per thread)
        engine::install_panic_hook();
        engine::QUIET_PANICS.store(false, SeqCst);
    }
    let labcell: RefCell<Option<UdpLab>> = RefCell::new(None);
    let flaky = std::cell::Cell::new(0u64);
    let run_on = |fresh: bool, case: &Case| -> CheckResult {
        let mut lab = match (fresh, labcell.borrow_mut().take()) {
            (false, Some(l)) => l,
            (_, old) => {
                drop(old);
                UdpLab::new()
            }
        };
        let r = scenario(&mut lab, case);
        // a worker that saw a failure is not reused
        *labcell.borrow_mut() = if r.is_ok() { Some(lab) } else { None };
        r
    };
    let check = |case: &Case| -> CheckResult {
        let first = run_on(false, case);
        let Err(f) = first else { return first };
        for _ in 0..2 {
            if let Err(f2) = run_on(true, case) {
                return Err(if f2.signature == f.signature { f2 } else { f });
            }
        }
        flaky.set(flaky.get() + 1);
        engine::note_flaky("C19", &f, &serde_json::to_string(case).unwrap_or_default());
        let mut rep = CaseReport::default();
        rep.class("flaky_unconfirmed");
        Ok(rep)
    };
    let mut st = engine::run_lab_shard(args, "C19", SUB, total, strategy(), check, 32);
    st.flaky_unconfirmed += flaky.get();
    st
}
