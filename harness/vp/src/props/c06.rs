//! C06 — applying the computed difference always reaches the target configuration (DESIGN §4 C06).

use proptest::prelude::*;
use serde::{Deserialize, Serialize};
use sozu_command_lib::{proto::command::Request, state::ConfigState};

use crate::{
    engine::{self, Args, CaseReport, CheckResult, Evidence},
    gens::cmd,
    model::state::{first_diff, projection},
};

#[derive(Clone, Debug, Serialize, Deserialize)]
pub struct Case {
    pub prefix: Vec<Request>,
    pub a: Vec<Request>,
    pub b: Vec<Request>,
}

pub fn strategy() -> impl Strategy<Value = Case> {
    (cmd::history(25), cmd::history(12), cmd::history(12)).prop_map(|(prefix, a, b)| Case { prefix, a, b })
}

fn build(prefix: &[Request], suffix: &[Request]) -> ConfigState {
    let mut s = ConfigState::new();
    for r in prefix.iter().chain(suffix) {
        let _ = s.dispatch(r);
    }
    s
}

fn top_key(d: &str) -> String {
    d.trim_start_matches('/')
        .split(|c| c == '/' || c == ':' || c == '[')
        .next()
        .unwrap_or("?")
        .to_string()
}

pub fn check(case: &Case) -> CheckResult {
    let mut rep = CaseReport::default();
    let a = build(&case.prefix, &case.a);
    let b = build(&case.prefix, &case.b);

    // diff(A, A) is empty
    let same = a.diff(&a);
    if !same.is_empty() {
        fail!(
            format!("C06/self-diff-not-empty:{}", cmd::verb(&same[0])),
            "diff of a configuration with itself has {} requests, first: {}",
            same.len(),
            engine::truncate(&format!("{:?}", same[0]), 500)
        );
    }

    let d = a.diff(&b);
    let mut applied = a.clone();
    for (i, r) in d.iter().enumerate() {
        if let Err(e) = applied.dispatch(r) {
            fail!(
                format!("C06/diff-request-rejected:{}", cmd::verb(r)),
                "request #{i}/{} of diff(A,B) ({}) is rejected by an instance holding A: {e}; request: {}",
                d.len(),
                cmd::verb(r),
                engine::truncate(&format!("{r:?}"), 600)
            );
        }
    }
    let want = projection(&b, true);
    let got = projection(&applied, true);
    if let Some(diff) = first_diff(&want, &got) {
        fail!(
            format!("C06/target-not-reached:{}", top_key(&diff)),
            "after applying the {} requests of diff(A,B) to A the configuration is not B (left = B): {diff}",
            d.len()
        );
    }
    // and the other direction, for free
    let d2 = b.diff(&a);
    let mut back = b.clone();
    for r in &d2 {
        if let Err(e) = back.dispatch(r) {
            fail!(
                format!("C06/diff-request-rejected:{}", cmd::verb(r)),
                "diff(B,A): request {} rejected by an instance holding B: {e}",
                engine::truncate(&format!("{r:?}"), 600)
            );
        }
    }
    if let Some(diff) = first_diff(&projection(&a, true), &projection(&back, true)) {
        fail!(
            format!("C06/target-not-reached:{}", top_key(&diff)),
            "after applying diff(B,A) to B the configuration is not A (left = A): {diff}"
        );
    }

    let pa = projection(&a, true);
    let pb = projection(&b, true);
    let differs = pa != pb;
    let has_remove = d.iter().any(|r| cmd::verb(r).starts_with("Remove"));
    // an object present in both and changed: approximated by a Remove followed by an Add of the same verb family, or an AddCluster upsert
    let changed_shared = d.iter().any(|r| cmd::verb(r) == "AddCluster" && {
        if let Some(sozu_command_lib::proto::command::request::RequestType::AddCluster(c)) = &r.request_type {
            a.clusters.contains_key(&c.cluster_id)
        } else {
            false
        }
    }) || {
        let rl = d.iter().filter(|r| cmd::verb(r) == "RemoveListener").count();
        rl > 0 && d.iter().any(|r| cmd::verb(r).starts_with("Add") && cmd::verb(r).ends_with("Listener"))
    } || {
        d.iter().any(|r| cmd::verb(r) == "RemoveBackend") && d.iter().any(|r| cmd::verb(r) == "AddBackend")
    };
    rep.nontrivial = differs && has_remove && changed_shared;
    rep.class_if(differs, "A!=B");
    rep.class_if(has_remove, "diff_has_remove");
    rep.class_if(changed_shared, "shared_object_changed");
    rep.class_if(d.len() >= 10, "diff_10+_requests");
    rep.class_if(d.iter().any(|r| cmd::verb(r).contains("Certificate")), "diff_touches_certificates");
    rep.class_if(d.iter().any(|r| cmd::verb(r).contains("ivateListener")), "diff_toggles_activation");
    rep.inner_evaluations = 3;
    Ok(rep)
}

pub fn run(args: &Args) -> i32 {
    let mut ev = Evidence::new(args, "exploration");
    ev.rule(
        "diff",
        "pair (A,B) = common G-cmd prefix (0..25 commands) plus two independent suffixes (0..12 each), so A and B share objects that differ in single fields; d = A.diff(&B) is dispatched request by request onto a clone of A (each must be Ok) and the projection (empty buckets normalised) must equal B's; same for diff(B,A); diff(A,A) must be empty. Non-trivial: A != B, the diff removes something and changes an object present in both; distinct by case hash.",
    );
    ev.floor("diff", "A!=B", 0.5);
    ev.floor("diff", "shared_object_changed", 0.05);
    let cases = args.cases(160_000, 2_400_000);
    engine::run_pbt(&mut ev, args, "diff", cases, strategy, check);
    ev.finish()
}
