//! C17 — wire lab (sub-check `handshake`): a live worker with one HTTPS listener, a generated history
//! of certificate commands sent over the real command channel and, after every command, real TLS
//! handshakes from a rustls client that records the leaf certificate the server presented; then one
//! HTTP/1.1 request per established connection to observe the SNI ↔ authority binding (421).
//! The reference model (which certificate may be served for a name) is the one of the in-process
//! sub-check `resolver` (`c17.rs`); this module only adds the wire.

use std::{
    cell::RefCell,
    collections::{BTreeMap, BTreeSet},
    io::Write,
    net::{SocketAddr, TcpStream},
    sync::{
        Arc, Mutex,
        atomic::{AtomicBool, Ordering},
    },
    time::{Duration, Instant},
};

use proptest::prelude::*;
use rustls::{
    ClientConfig, ClientConnection, DigitallySignedStruct, SignatureScheme, StreamOwned,
    client::danger::{HandshakeSignatureValid, ServerCertVerified, ServerCertVerifier},
    pki_types::{CertificateDer, ServerName, UnixTime},
};
use serde::{Deserialize, Serialize};
use sha2::{Digest, Sha256};
use sozu_command_lib::{
    config::ListenerBuilder,
    proto::command::{
        ActivateListener, AddCertificate, ListenerType, PathRule, RemoveCertificate, ReplaceCertificate, RequestHttpFrontend, ResponseStatus, RulePosition,
        UpdateHttpsListenerConfig, request::RequestType,
    },
    scm_socket::Listeners,
    state::ConfigState,
};

use super::c17::{self, Bad, CertSpec, Model, Op};
use crate::{
    engine::{self, Args, CaseReport, CheckResult, Failure, Stats},
    gens::certs,
    lab::{
        self, LabConfig, LabWorker,
        h1::{self, Acceptor, H1Conn, Kind, ReadOutcome},
        httplab,
    },
};

pub const SUB: &str = "handshake";

// ------------------------------------------------------------------ alphabets

/// HTTPS frontends of the lab: hostname -> cluster. Names the bank's certificates cover exactly, one
/// label under each wildcard of the bank / the override pool (`q.<rest>`), and names that only look
/// covered: two labels under a wildcard (`p.q.x.com`) and names that end in a wildcard's suffix
/// without a label boundary (`ax.com`, `myx.com` against `*.x.com`).
const HOSTS: &[(&str, usize)] = &[
    ("a.x.com", 0),
    ("b.x.com", 1),
    ("c.x.com", 0),
    ("x.com", 1),
    ("z.b.x.com", 0),
    ("a.b.x.com", 1),
    ("a.x.net", 0),
    ("localhost", 1),
    ("default.test", 0),
    ("q.x.com", 1),
    ("xn--bcher-kva.x.com", 0),
    ("q.b.x.com", 1),
    ("q.a.x.com", 0),
    ("q.com", 1),
    ("p.q.x.com", 0),
    ("ax.com", 1),
    ("myx.com", 0),
    ("x.net", 1),
];

/// server names without a frontend
const UNROUTED: &[&str] = &["unknown.test", "com", "sub.localhost"];

/// names no certificate of the bank covers (an override may)
const UNCOVERED: &[&str] = &["unknown.test", "p.q.x.com", "ax.com", "myx.com", "com", "sub.localhost", "x.net", "q.com"];

/// (old, new, probe name): both certificates cover the name (as loaded with their own names)
const WINDOW_PAIRS: &[(&str, &str, &str)] = &[
    ("c01", "c02", "a.x.com"),
    ("c02", "c01", "a.x.com"),
    ("c01", "c04", "a.x.com"),
    ("c04", "c09", "b.x.com"),
    ("c08", "c09", "b.x.com"),
    ("c09", "c08", "b.x.com"),
    ("c03", "c11", "q.x.com"),
    ("c11", "c03", "q.x.com"),
    ("c05", "c12", "q.b.x.com"),
    ("c12", "c05", "q.b.x.com"),
    ("c01", "c03", "a.x.com"),
    ("c11", "c02", "a.x.com"),
    ("c02", "c02", "a.x.com"),
];

// ------------------------------------------------------------------ case

#[derive(Clone, Debug, Serialize, Deserialize)]
pub struct Probe {
    /// server name the client asks for, as the client spells it (None: no SNI extension at all)
    pub sni: Option<String>,
    /// value of the `Host` header of the request sent on the established connection
    pub host: String,
    /// offer TLS 1.2 only (else the client's defaults: TLS 1.3 is negotiated)
    pub tls12: bool,
}

#[derive(Clone, Debug, Serialize, Deserialize)]
pub struct Step {
    pub op: Op,
    pub probes: Vec<Probe>,
}

#[derive(Clone, Debug, Serialize, Deserialize)]
pub struct Window {
    pub old: String,
    pub new: String,
    pub name: String,
    /// the replacement is sent this long after the client threads started
    pub delay_ms: u8,
}

#[derive(Clone, Debug, Serialize, Deserialize)]
pub struct Case {
    /// `HttpsListenerConfig.strict_sni_binding` during this scenario
    pub strict_binding: bool,
    pub steps: Vec<Step>,
    pub window: Option<Window>,
}

type RawProbe = (u8, u32, u8, u32, bool);

fn raw_probe() -> impl Strategy<Value = RawProbe> {
    (0u8..20, any::<u32>(), 0u8..20, any::<u32>(), prop::bool::weighted(0.25))
}

/// a spelling of `name` that DNS compares equal to it
fn respell(name: &str, how: u32) -> String {
    match how % 3 {
        0 => name.to_ascii_uppercase(),
        1 => {
            // mixed case
            name.char_indices().map(|(i, c)| if i % 2 == 1 { c.to_ascii_uppercase() } else { c }).collect()
        }
        _ => format!("{name}."),
    }
}

/// names a certificate specification is loaded for, in DNS form, a wildcard replaced by one name under it
fn spec_probe_names(spec: &CertSpec) -> Vec<String> {
    let raw: Vec<String> = if spec.names.is_empty() { c17::fixture(spec).names.iter().map(|s| s.to_string()).collect() } else { spec.names.clone() };
    raw.iter()
        .map(|n| {
            let n = c17::norm(n);
            match n.strip_prefix("*.") {
                Some(rest) => format!("q.{rest}"),
                None => n,
            }
        })
        .collect()
}

fn resolve_probe(raw: RawProbe, touched: &[String]) -> Probe {
    let (kind, pick, hmode, hpick, tls12) = raw;
    let pool_name = |x: u32| -> String {
        let n = HOSTS.len() + UNROUTED.len();
        let i = engine::pick_idx(x, n);
        if i < HOSTS.len() { HOSTS[i].0.to_string() } else { UNROUTED[i - HOSTS.len()].to_string() }
    };
    let touched_name = |x: u32| -> String { if touched.is_empty() { pool_name(x) } else { touched[engine::pick_idx(x, touched.len())].clone() } };
    let sni: Option<String> = match kind {
        0..=7 => Some(touched_name(pick)),
        8..=11 => Some(pool_name(pick)),
        12..=14 => Some(respell(&touched_name(pick), pick)),
        15 | 16 => Some(UNCOVERED[engine::pick_idx(pick, UNCOVERED.len())].to_string()),
        17 | 18 => Some(pool_name(pick.rotate_left(7))),
        _ => None,
    };
    let base = sni.as_deref().map(c17::norm);
    let any_host = |x: u32| HOSTS[engine::pick_idx(x, HOSTS.len())].0.to_string();
    let decorate = |h: String, x: u32| -> String {
        match x % 4 {
            0 => h.to_ascii_uppercase(),
            1 => format!("{h}:443"),
            2 => format!("{h}:8443"),
            _ => format!("{h}."),
        }
    };
    let host = match (hmode, &base) {
        (0..=7, Some(b)) => b.clone(),
        (8..=12, _) | (_, None) => any_host(hpick),
        (13..=15, Some(b)) => {
            // neighbours of the server name: siblings under the same parent, the parent, two labels
            // under it, and names that end in the parent's bytes without a label boundary
            match b.split_once('.') {
                Some((_, rest)) if !rest.is_empty() => match engine::pick_idx(hpick, 8) {
                    0 => format!("a.{rest}"),
                    1 => format!("q.{rest}"),
                    2 => rest.to_string(),
                    3 | 4 => format!("a{rest}"),
                    5 | 6 => format!("my{rest}"),
                    _ => format!("p.q.{rest}"),
                },
                _ => any_host(hpick),
            }
        }
        (16, Some(b)) => decorate(b.clone(), hpick),
        (_, Some(_)) => decorate(any_host(hpick), hpick >> 8),
    };
    Probe { sni, host, tls12 }
}

pub fn strategy() -> impl Strategy<Value = Case> {
    (
        any::<bool>(),
        c17::ops_strategy(1..13),
        prop::collection::vec(prop::collection::vec(raw_probe(), 2..7), 12),
        prop::option::weighted(0.75, (any::<u32>(), 0u8..70)),
        prop::collection::vec(0u8..12, 12),
    )
        .prop_map(|(strict_binding, ops, raw_probes, window, mangle)| {
            let mut touched: Vec<String> = vec![];
            let mut steps = vec![];
            for ((op, raws), mangle) in ops.into_iter().zip(raw_probes).zip(mangle) {
                // over the wire a RemoveCertificate may also name something that is no fingerprint at all
                let op = match (op, mangle) {
                    (Op::Remove(fp), 0) if !fp.is_empty() => Op::Remove(fp[..fp.len() - 1].to_string()),
                    (Op::Remove(fp), 1) => Op::Remove(format!("0x{fp}")),
                    (op, _) => op,
                };
                let spec = match &op {
                    Op::Add(s) => Some(s),
                    Op::Replace { new, .. } => Some(new),
                    Op::Remove(_) => None,
                };
                if let Some(s) = spec {
                    for n in spec_probe_names(s) {
                        if !touched.contains(&n) {
                            touched.push(n);
                        }
                    }
                }
                let probes = raws.into_iter().map(|r| resolve_probe(r, &touched)).collect();
                steps.push(Step { op, probes });
            }
            let window = window.map(|(x, delay_ms)| {
                let (old, new, name) = WINDOW_PAIRS[engine::pick_idx(x, WINDOW_PAIRS.len())];
                Window { old: old.to_string(), new: new.to_string(), name: name.to_string(), delay_ms }
            });
            Case { strict_binding, steps, window }
        })
}

// ------------------------------------------------------------------ TLS client

#[derive(Debug)]
struct AcceptAny;

impl ServerCertVerifier for AcceptAny {
    fn verify_server_cert(&self, _e: &CertificateDer<'_>, _i: &[CertificateDer<'_>], _n: &ServerName<'_>, _o: &[u8], _t: UnixTime) -> Result<ServerCertVerified, rustls::Error> {
        Ok(ServerCertVerified::assertion())
    }
    fn verify_tls12_signature(&self, _m: &[u8], _c: &CertificateDer<'_>, _d: &DigitallySignedStruct) -> Result<HandshakeSignatureValid, rustls::Error> {
        Ok(HandshakeSignatureValid::assertion())
    }
    fn verify_tls13_signature(&self, _m: &[u8], _c: &CertificateDer<'_>, _d: &DigitallySignedStruct) -> Result<HandshakeSignatureValid, rustls::Error> {
        Ok(HandshakeSignatureValid::assertion())
    }
    fn supported_verify_schemes(&self) -> Vec<SignatureScheme> {
        rustls::crypto::ring::default_provider().signature_verification_algorithms.supported_schemes()
    }
}

type Tls = StreamOwned<ClientConnection, TcpStream>;

/// One full TLS handshake (no resumption: a fresh client configuration per connection), ALPN
/// http/1.1. Returns the connection and the hex SHA-256 of the leaf certificate the server presented.
fn handshake(addr: SocketAddr, sni: Option<&str>, tls12: bool) -> Result<(Tls, String), String> {
    let builder = ClientConfig::builder_with_provider(Arc::new(rustls::crypto::ring::default_provider()));
    let builder = if tls12 { builder.with_protocol_versions(&[&rustls::version::TLS12]) } else { builder.with_safe_default_protocol_versions() }.map_err(|e| format!("client configuration: {e}"))?;
    let mut cfg = builder.dangerous().with_custom_certificate_verifier(Arc::new(AcceptAny)).with_no_client_auth();
    cfg.alpn_protocols = vec![b"http/1.1".to_vec()];
    cfg.enable_sni = sni.is_some();
    cfg.resumption = rustls::client::Resumption::disabled();
    let name = ServerName::try_from(sni.unwrap_or("no-sni.invalid").to_string()).map_err(|e| format!("harness: {sni:?} is not a server name: {e}"))?;
    let conn = ClientConnection::new(Arc::new(cfg), name).map_err(|e| format!("client connection: {e}"))?;
    let sock = TcpStream::connect_timeout(&addr, Duration::from_secs(2)).map_err(|e| format!("TCP connect: {e}"))?;
    let _ = sock.set_nodelay(true);
    let _ = sock.set_read_timeout(Some(Duration::from_millis(50)));
    let _ = sock.set_write_timeout(Some(Duration::from_secs(10)));
    let mut tls = StreamOwned::new(conn, sock);
    let started = Instant::now();
    while tls.conn.is_handshaking() {
        match tls.conn.complete_io(&mut tls.sock) {
            Ok(_) => {}
            Err(e) if matches!(e.kind(), std::io::ErrorKind::WouldBlock | std::io::ErrorKind::TimedOut | std::io::ErrorKind::Interrupted) => {
                // sozu's own front timeout in the lab is 4 s: it would have closed the connection by then
                if started.elapsed() > Duration::from_secs(8) {
                    return Err("no progress: the handshake did not finish within 8 s".into());
                }
            }
            Err(e) => return Err(format!("{e}")),
        }
    }
    let leaf = match tls.conn.peer_certificates() {
        Some(chain) if !chain.is_empty() => hex::encode(Sha256::digest(chain[0].as_ref())),
        _ => return Err("handshake finished but the server presented no certificate".into()),
    };
    match tls.conn.alpn_protocol() {
        Some(b"http/1.1") | None => {}
        Some(other) => return Err(format!("the client offered ALPN http/1.1 only, the server selected {:?}", String::from_utf8_lossy(other))),
    }
    Ok((tls, leaf))
}

// ------------------------------------------------------------------ lab

pub struct CertLab {
    worker: LabWorker,
    addr: SocketAddr,
    shared: Arc<Mutex<httplab::Shared>>,
    _backends: Vec<Acceptor>,
    strict_binding: bool,
    /// what the listener presents when no loaded certificate covers the server name
    default_fp: String,
    default_names: Vec<String>,
}

/// sozu's built-in fallback certificate (lib/assets/certificate.pem, CN lolcatho.st, no SAN)
const BUILTIN_DEFAULT_FP: &str = "1017a1ad24539ea73c6d72581ae99201f33b649070022e0b1b56d3e63c5c356a";

fn pem_fingerprint(pem: &str) -> String {
    use rustls::pki_types::pem::PemObject;
    let der = CertificateDer::from_pem_slice(pem.as_bytes()).expect("fixture PEM");
    hex::encode(Sha256::digest(der.as_ref()))
}

impl CertLab {
    pub fn new(strict_binding: bool) -> CertLab {
        let mut worker = LabWorker::start("c17", LabConfig::default(), Listeners::default(), &ConfigState::new());
        let shared = Arc::new(Mutex::new(httplab::Shared::default()));
        let addr = lab::free_addr();
        {
            let mut b = ListenerBuilder::new_https(addr.into());
            b.with_front_timeout(Some(worker.lab.front_timeout))
                .with_back_timeout(Some(worker.lab.back_timeout))
                .with_connect_timeout(Some(worker.lab.connect_timeout))
                .with_request_timeout(Some(worker.lab.request_timeout));
            let mut l = b.to_tls(None).expect("https listener config");
            l.certificate = Some(certs::LAB_CERT.to_string());
            l.key = Some(certs::LAB_KEY.to_string());
            l.alpn_protocols = vec!["h2".into(), "http/1.1".into()];
            l.strict_sni_binding = Some(strict_binding);
            worker.must(RequestType::AddHttpsListener(l));
            worker.must(RequestType::ActivateListener(ActivateListener { address: addr.into(), proxy: ListenerType::Https.into(), from_scm: false }));
        }
        let mut backends = vec![];
        for i in 0..2usize {
            let cluster = format!("c{i}");
            worker.add_cluster(&cluster, |_| {});
            let (baddr, listener) = lab::bound_listener();
            worker.add_backend(&cluster, &format!("{cluster}-0"), baddr);
            let sh = shared.clone();
            backends.push(Acceptor::spawn(listener, move |conn, stream| httplab::serve_conn(i, conn, stream, sh.clone())));
        }
        for (host, cluster) in HOSTS {
            worker.must(RequestType::AddHttpsFrontend(RequestHttpFrontend {
                cluster_id: Some(format!("c{cluster}")),
                address: addr.into(),
                hostname: host.to_string(),
                path: PathRule::prefix("/".to_string()),
                position: RulePosition::Tree.into(),
                ..Default::default()
            }));
        }
        // the default certificate is whatever the listener presents while nothing is loaded
        let default_fp = match handshake(addr, Some("nobody.invalid"), false) {
            Ok((_, fp)) => fp,
            Err(e) => panic!("harness: the fresh HTTPS listener does not complete a handshake: {e}"),
        };
        let default_names: Vec<String> = if default_fp == BUILTIN_DEFAULT_FP {
            vec!["lolcatho.st".into()]
        } else if default_fp == pem_fingerprint(certs::LAB_CERT) {
            vec!["*.lab".into(), "lab".into(), "localhost".into()]
        } else {
            panic!("harness: the listener's default certificate {default_fp} is neither sozu's built-in one nor the lab certificate");
        };
        if certs::by_fingerprint(&default_fp).is_some() {
            panic!("harness: the default certificate is a certificate of the bank");
        }
        CertLab { worker, addr, shared, _backends: backends, strict_binding, default_fp, default_names }
    }

    fn set_strict(&mut self, v: bool) {
        if self.strict_binding != v {
            self.worker.must(RequestType::UpdateHttpsListener(UpdateHttpsListenerConfig { address: self.addr.into(), strict_sni_binding: Some(v), ..Default::default() }));
            self.strict_binding = v;
        }
    }

    /// send one certificate command, Ok(true) = answered OK, Ok(false) = answered Failure
    fn command(&mut self, req: RequestType) -> Result<(bool, String), Failure> {
        match self.worker.request(req) {
            Ok(r) if r.status == ResponseStatus::Ok as i32 => Ok((true, r.message)),
            Ok(r) if r.status == ResponseStatus::Failure as i32 => Ok((false, r.message)),
            Ok(r) => Err(Failure::new("C17/command-unanswered", format!("unexpected final status {} ({})", r.status, r.message))),
            Err(e) => {
                let alive = self.worker.alive();
                let end = if alive { Ok(false) } else { self.worker.join() };
                Err(Failure::new(if alive { "C17/command-unanswered" } else { "C17/worker-died" }, format!("no answer to a certificate command: {e:?}; worker ended: {end:?}")))
            }
        }
    }
}

// ------------------------------------------------------------------ oracle helpers

/// `Host` value -> the name it designates: port dropped, DNS comparison form
fn host_key(host: &str) -> String {
    let h = match host.rsplit_once(':') {
        Some((h, port)) if !port.is_empty() && port.bytes().all(|b| b.is_ascii_digit()) => h,
        _ => host,
    };
    c17::norm(h)
}

/// does a certificate loaded for `names` (DNS form) cover `name` (DNS form): the name itself, or
/// `*.` + everything after its left-most label (the wildcard stands for exactly one whole label)
fn covers(names: &[String], name: &str) -> bool {
    let w = c17::wildcard_for(name);
    names.iter().any(|n| n == name || Some(n) == w.as_ref())
}

#[derive(Clone, Debug, PartialEq)]
enum Outcome {
    Presented(String),
    Refused(String),
}

#[derive(Default)]
struct Seen {
    cmd: BTreeSet<String>,
    effective_remove: bool,
    effective_replace: bool,
    two_covering: bool,
    exact: bool,
    wildcard: bool,
    exact_over_wildcard: bool,
    longest_lived: bool,
    uncovered: bool,
    no_sni_refused: bool,
    no_sni_default: bool,
    variant: bool,
    tls12: bool,
    http_200: bool,
    http_421: bool,
    http_no_frontend: bool,
    coalesced: bool,
    boundary_421: bool,
    depth_421: bool,
    host_variant_200: bool,
    remove_unparsable: bool,
    host_variant: bool,
    cross_host_served_lax: bool,
    default_same_host_served: bool,
    failure_rechecked: bool,
    fallback_after_removal: bool,
    window: bool,
    window_both: bool,
}

struct Run<'a> {
    lab: &'a mut CertLab,
    strict_binding: bool,
    model: Model,
    /// bumped by every command answered OK
    version: u64,
    /// last observation per server name: (version, outcome)
    last: BTreeMap<String, (u64, Outcome)>,
    next_req: usize,
    seen: Seen,
    handshakes: u64,
}

fn describe(m: &Model) -> String {
    let v: Vec<String> = m.loaded.iter().map(|l| format!("{}{:?}@{}", l.fixture, l.names, l.expiry)).collect();
    if v.is_empty() { "nothing".into() } else { v.join(", ") }
}

impl Run<'_> {
    /// One handshake for `sni`, judged against the model. Returns the connection and the index of the
    /// loaded certificate that was presented (None = default certificate); Ok(None) = refused no-SNI handshake.
    fn probe_tls(&mut self, ctx: &str, sni: Option<&str>, tls12: bool) -> Result<Option<(Tls, Option<usize>)>, Failure> {
        self.handshakes += 1;
        let res = handshake(self.lab.addr, sni, tls12);
        let outcome = match &res {
            Ok((_, fp)) => Outcome::Presented(fp.clone()),
            Err(e) => Outcome::Refused(e.clone()),
        };
        // the same name asked twice while no command was applied in between gets the same answer
        // (in particular: a command answered Failure changes nothing)
        let key = sni.map(c17::norm).unwrap_or_else(|| "<no SNI>".into());
        if let Some((v, before)) = self.last.get(&key) {
            let same = match (before, &outcome) {
                (Outcome::Presented(a), Outcome::Presented(b)) => a == b,
                (Outcome::Refused(_), Outcome::Refused(_)) => true,
                _ => false,
            };
            if *v == self.version && !same {
                fail!(
                    "C17/changed-without-applied-command",
                    "{ctx}: server name {key:?} got {before:?} and now {outcome:?} although no certificate command was answered OK in between; loaded: {}",
                    describe(&self.model)
                );
            }
        }
        self.last.insert(key.clone(), (self.version, outcome));
        let (tls, fp) = match res {
            Ok(x) => x,
            Err(e) => {
                if sni.is_none() {
                    // the property quantifies over server names; a handshake without SNI may be refused
                    self.seen.no_sni_refused = true;
                    return Ok(None);
                }
                fail!("C17/handshake-failed", "{ctx}: the handshake for server name {:?} (TLS 1.2 only: {tls12}) failed: {e}; loaded: {}", sni.unwrap(), describe(&self.model));
            }
        };
        self.seen.tls12 |= tls12;
        let served: Option<usize> = if fp == self.lab.default_fp {
            None
        } else {
            match self.model.loaded.iter().position(|l| l.fingerprint == fp) {
                Some(i) => Some(i),
                None => {
                    let (sig, what) = if self.model.removed.contains(&fp) {
                        ("C17/removed-cert-served", "was removed (answered OK) and is not loaded")
                    } else if certs::by_fingerprint(&fp).is_some() {
                        ("C17/unloaded-cert-served", "is not loaded by the commands answered OK")
                    } else {
                        ("C17/unloaded-cert-served", "is no certificate of the bank nor the default certificate")
                    };
                    fail!(
                        sig,
                        "{ctx}: server name {:?} is presented certificate {} ({fp}) which {what}; loaded: {}",
                        sni,
                        certs::by_fingerprint(&fp).map(|f| f.id).unwrap_or("?"),
                        describe(&self.model)
                    );
                }
            }
        };
        let Some(name) = sni else {
            // no SNI: only the default certificate is admissible
            if let Some(i) = served {
                fail!("C17/certificate-without-sni", "{ctx}: a handshake without SNI is presented {} {:?}", self.model.loaded[i].fixture, self.model.loaded[i].names);
            }
            self.seen.no_sni_default = true;
            return Ok(Some((tls, served)));
        };
        let (exact, wild) = self.model.tiers(name);
        if let Some((sig, what)) = c17::verdict(&self.model, served, &exact, &wild) {
            fail!(sig, "{ctx}: server name {name:?} {what}; loaded: {}", describe(&self.model));
        }
        let tier = if !exact.is_empty() { &exact } else { &wild };
        self.seen.variant |= c17::norm(name) != name;
        self.seen.two_covering |= exact.len() + wild.len() >= 2;
        match served {
            None => self.seen.uncovered = true,
            Some(i) => {
                self.seen.exact |= !exact.is_empty();
                self.seen.wildcard |= exact.is_empty();
                self.seen.exact_over_wildcard |= !exact.is_empty() && !wild.is_empty();
                let e = self.model.loaded[i].expiry;
                self.seen.longest_lived |= tier.iter().any(|&j| self.model.loaded[j].expiry != e);
            }
        }
        Ok(Some((tls, served)))
    }

    /// one request on the established connection, judged against the binding rule
    fn probe_http(&mut self, ctx: &str, tls: Tls, sni: Option<&str>, served: Option<usize>, host: &str) -> Result<(), Failure> {
        let n = self.next_req;
        self.next_req += 1;
        let mut tls = tls;
        let req = format!("GET /c17/{n} HTTP/1.1\r\nHost: {host}\r\nx-lab-req: {n}\r\nUser-Agent: vp-c17\r\n\r\n");
        if let Err(e) = tls.write_all(req.as_bytes()).and_then(|_| tls.flush()) {
            fail!("C17/request-not-answered", "{ctx}: cannot send the request on the established connection: {e}");
        }
        let mut conn = H1Conn::new(tls);
        let outcome = conn.next_message(Kind::Response { head_request: false }, Instant::now() + Duration::from_secs(6));
        let status = match &outcome {
            ReadOutcome::Message(m) => m.status(),
            _ => None,
        };
        let Some(status) = status else {
            fail!("C17/request-not-answered", "{ctx}: request with Host {host:?} on the connection for server name {sni:?}: {}", h1::describe(&outcome));
        };
        drop(conn);
        let reached: Vec<usize> = self.lab.shared.lock().unwrap().recorded.iter().filter(|r| r.lab_req == Some(n)).map(|r| r.backend).collect();

        let hk = host_key(host);
        let front: Option<usize> = HOSTS.iter().find(|(h, _)| *h == hk).map(|(_, c)| *c);
        let sni_key = sni.map(c17::norm);
        let same_as_sni = sni_key.as_deref() == Some(hk.as_str());
        let (served_names, served_what): (&[String], String) = match served {
            Some(i) => (&self.model.loaded[i].names, format!("{} {:?}", self.model.loaded[i].fixture, self.model.loaded[i].names)),
            None => (&self.lab.default_names, format!("the default certificate {:?}", self.lab.default_names)),
        };
        let covered = covers(served_names, &hk);
        // the default certificate was presented for a server name nobody covers and the request is for
        // that very name: nothing crosses a boundary, the request is served
        let own_name_on_default = served.is_none() && sni.is_some() && same_as_sni;
        let must_refuse = self.strict_binding && !covered && !own_name_on_default;
        // On a default-certificate connection sozu refuses every authority but the server name itself
        // (compared without port and case, but a trailing dot counts), also one the default certificate
        // covers: the property only forbids routing what the certificate does not cover, so apart from
        // the connection's own name spelled as the server name both answers are admitted there.
        let may_refuse = self.strict_binding && served.is_none() && !(own_name_on_default && hk == host);
        let situation = format!(
            "{ctx}: strict_sni_binding {}, server name {sni:?} was presented {served_what}, request Host {host:?} (name {hk:?}, frontend: {}) answered {status}, reached backends {reached:?}",
            self.strict_binding,
            front.map(|c| format!("cluster c{c}")).unwrap_or("none".into())
        );
        // near misses of a wildcard of the presented certificate: the authority ends in the wildcard's
        // suffix bytes without a label boundary (`ax.com` / `*.x.com`), or with one but at the wrong
        // depth (the parent itself, two labels under it)
        let suffixes: Vec<&str> = served_names.iter().filter_map(|n| n.strip_prefix("*.")).collect();
        let no_boundary = !covered && suffixes.iter().any(|s| hk.len() > s.len() && hk.ends_with(s) && !hk.ends_with(&format!(".{s}")));
        let wrong_depth = !covered && suffixes.iter().any(|s| hk == *s || hk.ends_with(&format!(".{s}")));
        if must_refuse {
            if !reached.is_empty() || (200..400).contains(&status) {
                fail!(
                    if no_boundary {
                        "C17/uncovered-authority-routed:no-label-boundary"
                    } else if wrong_depth {
                        "C17/uncovered-authority-routed:wildcard-depth"
                    } else {
                        "C17/uncovered-authority-routed"
                    },
                    "{situation}: the certificate does not cover the authority, the request must not be routed"
                );
            }
            if status != 421 {
                fail!(format!("C17/uncovered-authority-not-421:{status}"), "{situation}: expected 421 Misdirected Request");
            }
            self.seen.http_421 = true;
            self.seen.boundary_421 |= no_boundary;
            self.seen.depth_421 |= wrong_depth;
            return Ok(());
        }
        if status == 421 {
            if may_refuse {
                self.seen.http_421 = true;
                if !reached.is_empty() {
                    fail!("C17/uncovered-authority-routed", "{situation}: answered 421 but a backend received the request");
                }
                return Ok(());
            }
            fail!(
                if self.strict_binding { "C17/covered-authority-421" } else { "C17/421-without-strict-binding" },
                "{situation}: the request must be served ({})",
                if !self.strict_binding { "the binding is switched off" } else if covered { "the presented certificate covers the authority" } else { "the authority is the connection's own server name" }
            );
        }
        // served: by the right cluster, or by nobody when the name has no frontend
        if reached.iter().any(|b| Some(*b) != front) || reached.len() > 1 {
            fail!("C17/wrong-backend", "{situation}");
        }
        let canonical = hk == host;
        match front {
            Some(_) if canonical => {
                if status != 200 || reached.len() != 1 {
                    fail!(format!("C17/covered-authority-not-served:{status}"), "{situation}: expected 200 from the frontend's cluster");
                }
                self.seen.http_200 = true;
            }
            Some(_) => {
                // a spelling variant of a configured host (upper case, port, trailing dot): how the router
                // treats the spelling is C05's subject; here it must not be refused as misdirected (above)
                self.seen.host_variant = true;
                self.seen.http_200 |= status == 200;
                self.seen.host_variant_200 |= status == 200;
            }
            None => self.seen.http_no_frontend = true,
        }
        if status == 200 {
            self.seen.coalesced |= self.strict_binding && !same_as_sni && served.is_some();
            self.seen.cross_host_served_lax |= !self.strict_binding && !covered && !same_as_sni;
            self.seen.default_same_host_served |= self.strict_binding && own_name_on_default;
        }
        Ok(())
    }

    /// run harness-made commands (clean-up, replace window) without counting them as part of the generated history
    fn unmeasured<T>(&mut self, f: impl FnOnce(&mut Self) -> Result<T, Failure>) -> Result<T, Failure> {
        let saved = (self.seen.cmd.clone(), self.seen.effective_remove, self.seen.effective_replace);
        let r = f(self);
        (self.seen.cmd, self.seen.effective_remove, self.seen.effective_replace) = saved;
        r
    }

    fn probe(&mut self, ctx: &str, p: &Probe) -> Result<(), Failure> {
        if let Some((tls, served)) = self.probe_tls(ctx, p.sni.as_deref(), p.tls12)? {
            self.probe_http(ctx, tls, p.sni.as_deref(), served, &p.host)?;
        }
        Ok(())
    }

    /// send `op`, check its verdict against the reference semantics and apply it to the model when answered OK
    fn apply(&mut self, ctx: &str, op: &Op) -> Result<bool, Failure> {
        let addr = self.lab.addr;
        let (req, kind): (RequestType, &str) = match op {
            Op::Add(spec) => (RequestType::AddCertificate(AddCertificate { address: addr.into(), certificate: c17::certificate_and_key(spec), expired_at: spec.expired_at }), "add"),
            Op::Remove(fp) => (RequestType::RemoveCertificate(RemoveCertificate { address: addr.into(), fingerprint: fp.clone() }), "remove"),
            Op::Replace { old, new } => (
                RequestType::ReplaceCertificate(ReplaceCertificate { address: addr.into(), new_certificate: c17::certificate_and_key(new), old_fingerprint: old.clone(), new_expired_at: new.expired_at }),
                "replace",
            ),
        };
        let (ok, message) = self.lab.command(req)?;
        self.seen.cmd.insert(format!("cmd_{kind}_{}", if ok { "ok" } else { "failure" }));
        // expected verdict by the reference semantics (None: the history says nothing)
        let expected: Option<bool> = match op {
            Op::Add(spec) => Some(spec.bad == Bad::No),
            Op::Remove(fp) => c17::hex_bytes(fp).map(|_| true),
            Op::Replace { new, .. } => Some(new.bad == Bad::No),
        };
        if let Some(e) = expected {
            if e != ok {
                fail!(
                    format!("C17/op-verdict:{kind}"),
                    "{ctx}: answered {} ({message:?}), the reference semantics say {}; loaded: {}",
                    if ok { "OK" } else { "Failure" },
                    if e { "OK" } else { "Failure (and nothing changes)" },
                    describe(&self.model)
                );
            }
        }
        if !ok {
            self.seen.remove_unparsable |= matches!(op, Op::Remove(fp) if c17::hex_bytes(fp).is_none());
            return Ok(false);
        }
        self.version += 1;
        match op {
            Op::Add(spec) => {
                let was_loaded = self.model.get(c17::fixture(spec).fingerprint).is_some();
                let _ = self.model.add(spec);
                if was_loaded {
                    self.seen.cmd.insert("add_already_loaded".into());
                } else if !spec.names.is_empty() {
                    self.seen.cmd.insert("add_override_names".into());
                }
            }
            Op::Remove(fp) => {
                let Some(canonical) = c17::hex_bytes(fp).map(hex::encode) else {
                    // answered OK for something that is no fingerprint: nothing may change
                    self.seen.remove_unparsable = true;
                    return Ok(true);
                };
                if self.model.remove(&canonical) {
                    self.seen.effective_remove = true;
                } else {
                    self.seen.cmd.insert("remove_not_loaded".into());
                }
            }
            Op::Replace { old, new } => {
                let e = self.model.replace(old, new);
                if e.idempotent {
                    self.seen.cmd.insert("replace_same".into());
                } else {
                    if e.new_was_loaded {
                        self.seen.cmd.insert("replace_new_already_loaded".into());
                    }
                    match (e.old_parsable, e.removed) {
                        (false, _) => {
                            self.seen.cmd.insert("replace_old_unparsable".into());
                        }
                        (true, Some(_)) => self.seen.effective_replace = true,
                        (true, None) => {
                            self.seen.cmd.insert("replace_old_not_loaded".into());
                        }
                    }
                }
            }
        }
        Ok(true)
    }
}

// ------------------------------------------------------------------ replace window

fn plain_spec(id: &str) -> CertSpec {
    CertSpec { fixture: id.to_string(), bad: Bad::No, names: vec![], expired_at: None }
}

fn replace_window(run: &mut Run, w: &Window) -> Result<(), Failure> {
    let (old, new) = (plain_spec(&w.old), plain_spec(&w.new));
    let (old_fp, new_fp) = (c17::fixture(&old).fingerprint.to_string(), c17::fixture(&new).fingerprint.to_string());
    let ctx = format!("replace window {} -> {} for {:?}", w.old, w.new, w.name);
    run.apply(&format!("{ctx}: Add({})", w.old), &Op::Add(old.clone()))?;
    if let Some((tls, _)) = run.probe_tls(&format!("{ctx}: before the replacement"), Some(&w.name), false)? {
        drop(tls);
    }
    let stop = Arc::new(AtomicBool::new(false));
    let addr = run.lab.addr;
    let started = Instant::now();
    let mut threads = vec![];
    for t in 0..4usize {
        let (stop, name) = (stop.clone(), w.name.clone());
        threads.push(std::thread::spawn(move || {
            // (start, result) of every handshake of this thread, in order
            let mut seen: Vec<(Instant, Result<String, String>)> = vec![];
            while !stop.load(Ordering::SeqCst) {
                let at = Instant::now();
                let r = handshake(addr, Some(&name), t % 2 == 1).map(|(tls, fp)| {
                    drop(tls);
                    fp
                });
                seen.push((at, r));
            }
            seen
        }));
    }
    std::thread::sleep(Duration::from_millis(w.delay_ms as u64));
    let op = Op::Replace { old: old_fp.clone(), new: new.clone() };
    let applied = run.apply(&format!("{ctx}: Replace"), &op);
    let answered = Instant::now();
    // keep the clients going for the rest of the 150 ms
    let rest = Duration::from_millis(150).saturating_sub(started.elapsed());
    std::thread::sleep(rest);
    stop.store(true, Ordering::SeqCst);
    let logs: Vec<Vec<(Instant, Result<String, String>)>> = threads.into_iter().map(|t| t.join().expect("window client thread")).collect();
    applied?;
    let (mut saw_old, mut saw_new) = (false, false);
    for (t, log) in logs.iter().enumerate() {
        let mut new_seen_at: Option<usize> = None;
        for (k, (at, r)) in log.iter().enumerate() {
            run.handshakes += 1;
            let fp = match r {
                Ok(fp) => fp,
                Err(e) => fail!("C17/replace-window:handshake-failed", "{ctx}: handshake {k} of client thread {t} failed while the replacement was in flight: {e}"),
            };
            if *fp == run.lab.default_fp {
                fail!("C17/replace-window:default-certificate", "{ctx}: handshake {k} of client thread {t} was presented the default certificate although both the old and the new certificate cover the name");
            }
            if *fp != old_fp && *fp != new_fp {
                fail!("C17/replace-window:other-certificate", "{ctx}: handshake {k} of client thread {t} was presented {fp} ({:?}), neither the old nor the new certificate", certs::by_fingerprint(fp).map(|f| f.id));
            }
            if old_fp != new_fp {
                if *fp == old_fp && *at > answered {
                    fail!("C17/removed-cert-served", "{ctx}: handshake {k} of client thread {t} started after the replacement was answered OK and was presented the old certificate");
                }
                if *fp == old_fp {
                    if let Some(j) = new_seen_at {
                        fail!("C17/replace-window:old-after-new", "{ctx}: client thread {t} was presented the new certificate in handshake {j} and the old one again in handshake {k}");
                    }
                }
                if *fp == new_fp && new_seen_at.is_none() {
                    new_seen_at = Some(k);
                }
            }
            saw_old |= *fp == old_fp;
            saw_new |= *fp == new_fp;
        }
    }
    run.seen.window = true;
    run.seen.window_both = saw_old && saw_new && old_fp != new_fp;
    // after the window: the model's verdict for the name (the old certificate is gone)
    if let Some((tls, _)) = run.probe_tls(&format!("{ctx}: after the replacement"), Some(&w.name), false)? {
        drop(tls);
    }
    for fp in [old_fp, new_fp] {
        run.apply(&format!("{ctx}: clean-up Remove"), &Op::Remove(fp))?;
    }
    if let Some((tls, _)) = run.probe_tls(&format!("{ctx}: after the clean-up"), Some(&w.name), false)? {
        drop(tls);
    }
    Ok(())
}

// ------------------------------------------------------------------ scenario

pub fn scenario(lab: &mut CertLab, case: &Case) -> CheckResult {
    let mut rep = CaseReport::default();
    if !lab.worker.alive() {
        return Err(Failure::new("C17/worker-died", format!("the worker thread is gone: {:?}", lab.worker.join())));
    }
    lab.set_strict(case.strict_binding);
    {
        let mut g = lab.shared.lock().unwrap();
        g.actions.clear();
        g.recorded.clear();
        g.raw.clear();
    }
    let mut run = Run { lab, strict_binding: case.strict_binding, model: Model::default(), version: 0, last: BTreeMap::new(), next_req: 0, seen: Seen::default(), handshakes: 0 };
    let mut touched: BTreeSet<String> = BTreeSet::new();
    let mut prev_names: Vec<Option<String>> = vec![];
    for (k, step) in case.steps.iter().enumerate() {
        let ctx = format!("step {k} {:?}", step.op);
        match &step.op {
            Op::Add(s) | Op::Replace { new: s, .. } => {
                touched.insert(c17::fixture(s).fingerprint.to_string());
            }
            Op::Remove(_) => {}
        }
        let names_before: Vec<(String, Option<String>)> = {
            // what each of the names this step will ask for was served before the command (measurement)
            step.probes.iter().filter_map(|p| p.sni.as_deref()).map(|n| (c17::norm(n), run.last.get(&c17::norm(n)).and_then(|(_, o)| if let Outcome::Presented(fp) = o { Some(fp.clone()) } else { None }))).collect()
        };
        let loaded_before: BTreeSet<String> = run.model.loaded.iter().map(|l| l.fingerprint.clone()).collect();
        let ok = run.apply(&ctx, &step.op)?;
        if !ok && !prev_names.is_empty() {
            // a command answered Failure changes nothing: ask again for what the previous step asked
            for name in prev_names.clone() {
                if let Some((tls, _)) = run.probe_tls(&format!("{ctx} (answered Failure; same probes as before it)"), name.as_deref(), false)? {
                    drop(tls);
                }
            }
            run.seen.failure_rechecked = true;
        }
        for p in &step.probes {
            run.probe(&ctx, p)?;
        }
        // a removal made a name fall back to another loaded certificate (measurement)
        for (name, before) in names_before {
            if let (Some(b), Some((_, Outcome::Presented(now)))) = (before, run.last.get(&name)) {
                if loaded_before.contains(&b) && run.model.get(&b).is_none() && run.model.get(now).is_some() {
                    run.seen.fallback_after_removal = true;
                }
            }
        }
        prev_names = step.probes.iter().map(|p| p.sni.clone()).collect();
    }
    // leave the listener as it was found: remove whatever the history may have loaded (part of the
    // history as far as the oracle goes: afterwards only the default certificate may be presented)
    run.unmeasured(|run| {
        for fp in &touched {
            run.apply(&format!("clean-up Remove({fp})"), &Op::Remove(fp.clone()))?;
        }
        Ok(())
    })?;
    for name in ["a.x.com", "q.x.com", "q.b.x.com", "b.x.com", "localhost"] {
        if let Some((tls, _)) = run.probe_tls("after removing every certificate of the history", Some(name), false)? {
            drop(tls);
        }
    }
    if let Some(w) = &case.window {
        run.unmeasured(|run| replace_window(run, w))?;
    }

    let s = &run.seen;
    rep.nontrivial = (s.effective_remove || s.effective_replace) && s.two_covering;
    for c in &s.cmd {
        rep.class(c.clone());
    }
    rep.class(if case.strict_binding { "strict_on" } else { "strict_off" });
    rep.class_if(s.effective_remove, "effective_remove");
    rep.class_if(s.effective_replace, "effective_replace");
    rep.class_if(s.two_covering, "probe_name_covered_by_2+_loaded");
    rep.class_if(s.exact, "probe_exact");
    rep.class_if(s.wildcard, "probe_wildcard");
    rep.class_if(s.exact_over_wildcard, "probe_exact_over_wildcard");
    rep.class_if(s.longest_lived, "probe_longest_lived_among_unequal");
    rep.class_if(s.uncovered, "probe_uncovered_default");
    rep.class_if(s.no_sni_refused, "probe_no_sni_refused");
    rep.class_if(s.no_sni_default, "probe_no_sni_default");
    rep.class_if(s.variant, "probe_case_variant");
    rep.class_if(s.tls12, "probe_tls12");
    rep.class_if(s.http_200, "http_200");
    rep.class_if(s.http_421, "http_421_seen");
    rep.class_if(s.boundary_421, "http_421_wildcard_suffix_without_label_boundary");
    rep.class_if(s.depth_421, "http_421_wildcard_parent_or_two_labels");
    rep.class_if(s.host_variant_200, "http_host_spelling_variant_200");
    rep.class_if(s.remove_unparsable, "remove_unparsable_fingerprint");
    rep.class_if(s.coalesced, "http_other_name_covered_by_certificate_served");
    rep.class_if(s.cross_host_served_lax, "http_uncovered_host_served_with_binding_off");
    rep.class_if(s.default_same_host_served, "http_own_name_on_default_certificate_served");
    rep.class_if(s.host_variant, "http_host_spelling_variant");
    rep.class_if(s.http_no_frontend, "http_host_without_frontend");
    rep.class_if(s.failure_rechecked, "failure_then_same_probes");
    rep.class_if(s.fallback_after_removal, "removal_falls_back_to_other_cert");
    rep.class_if(s.window, "replace_window");
    rep.class_if(s.window_both, "replace_window_old_and_new_seen");
    rep.inner_evaluations = run.handshakes;
    Ok(rep)
}

pub fn rule() -> &'static str {
    "one live worker with one HTTPS listener (default certificate, 18 HTTPS frontends on two clusters with HTTP/1.1 mock backends). Scenario: strict_sni_binding on/off; a history of 1..12 certificate commands (the generator of the resolver sub-check: AddCertificate of a bank certificate with optional names / expiry override or a bad PEM / key; RemoveCertificate by fingerprint loaded earlier | other | unknown | not hex at all (no verdict expected, nothing may change); ReplaceCertificate old loaded | not loaded | == new | unparsable, new good | already loaded | bad) sent over the command channel, each verdict compared with the reference semantics and applied to the reference model only when answered OK; after each command 2..6 full TLS handshakes (rustls client, no resumption, TLS 1.3 or 1.2 only) for names of the certificates touched so far, names one label under their wildcards, spelling variants (upper / mixed case, trailing dot), names nobody covers, and no SNI. Oracle per handshake: it completes, and the SHA-256 of the presented leaf is a certificate the model holds loaded in the exact tier of the name, else the wildcard tier, with maximal expiry in its tier (ties: any), the default certificate iff both tiers are empty; never a certificate whose removal was answered OK; the same name asked again without an OK command in between gets the same certificate (after every Failure the previous step's names are asked again). Then one GET on the connection: with the binding on, a Host the presented certificate's names do not cover (whole-label wildcard rule; port, case, trailing dot ignored) gets 421 and reaches no backend; a covered Host, or the connection's own name on the default certificate, or any Host with the binding off, is not refused and a canonical configured Host gets 200 from its frontend's cluster. At the end every certificate is removed (handshakes must show the default certificate again) and, in 3 of 4 scenarios, a replace window: Add(old), 4 client threads handshake in a loop for 150 ms while Replace(old -> new) is sent; every handshake completes with old or new, never old after new in a thread nor after the OK answer. A failing scenario is re-run twice on a fresh worker. Non-trivial: a Remove / Replace took a loaded certificate away and some probed name was covered by two loaded certificates. Distinct by case hash."
}

/// child-process entry: run this shard's scenarios
pub fn child(args: &Args, total: u64) -> Stats {
    lab::init_ports(args.shard.map(|s| s.0).unwrap_or(0));
    let labcell: RefCell<Option<CertLab>> = RefCell::new(None);
    let flaky = std::cell::Cell::new(0u64);
    let run_on = |fresh: bool, case: &Case| -> CheckResult {
        let mut lab = match (fresh, labcell.borrow_mut().take()) {
            (false, Some(l)) => l,
            (_, old) => {
                drop(old);
                CertLab::new(case.strict_binding)
            }
        };
        let r = scenario(&mut lab, case);
        // a lab that saw a failure (its certificates may still be loaded) is not reused
        *labcell.borrow_mut() = if r.is_ok() { Some(lab) } else { None };
        r
    };
    let check = |case: &Case| -> CheckResult {
        let first = run_on(false, case);
        let Err(f) = first else { return first };
        for _ in 0..2 {
            if let Err(f2) = run_on(true, case) {
                return Err(if f2.signature == f.signature { f2 } else { f });
            }
        }
        flaky.set(flaky.get() + 1);
        engine::note_flaky("C17", &f, &serde_json::to_string(case).unwrap_or_default());
        let mut rep = CaseReport::default();
        rep.class("flaky_unconfirmed");
        Ok(rep)
    };
    let mut st = engine::run_lab_shard(args, "C17", SUB, total, strategy(), check, 24);
    st.flaky_unconfirmed += flaky.get();
    st
}
