//! C16 (c) — wire lab `admission`: connection storms above `max_connections` against a live worker
//! configured with a small limit, per-(cluster, client address) limits changed at runtime, and the
//! admission clauses of the property judged from what clients see and from the gauges the worker
//! reports while the storm is going on (DESIGN §4 C16).

use std::{
    cell::RefCell,
    collections::{BTreeMap, BTreeSet, HashMap},
    io::{Read, Write},
    net::{Ipv4Addr, SocketAddr, TcpStream},
    os::fd::{AsRawFd, FromRawFd, OwnedFd},
    sync::{
        Arc, Mutex,
        atomic::{AtomicBool, AtomicU8, AtomicU64, Ordering},
    },
    time::{Duration, Instant},
};

use proptest::prelude::*;
use serde::{Deserialize, Serialize};
use sozu_command_lib::{
    config::ListenerBuilder,
    proto::command::{ActivateListener, AddCertificate, CertificateAndKey, ListenerType, PathRule, RequestHttpFrontend, RulePosition, request::RequestType},
    scm_socket::Listeners,
    state::ConfigState,
};

use super::c16_lab::{Gauges, drift, query_gauges, serve_echo, set_linger0, underflows};
use crate::{
    engine::{self, Args, CaseReport, CheckResult, Failure, Stats},
    gens::certs,
    lab::{
        self, LabConfig, LabWorker,
        h1::Acceptor,
        h2::{self, Frame, H2Conn, H2Event, Settings},
    },
};

pub const SUB: &str = "admission";

// timeouts of the lab worker (seconds)
const FRONT_S: u32 = 2;
const BACK_S: u32 = 6;
const CONNECT_S: u32 = 1;
const REQUEST_S: u32 = 2;
/// margin added to the worker's own timeouts before the harness calls something overdue
const MARGIN: Duration = Duration::from_secs(6);
/// a served connection's request is answered (or the connection closed) within connect retries + back timeout + margin
const ANSWER_BOUND: Duration = Duration::from_secs(3 * CONNECT_S as u64 + BACK_S as u64 + 6);
/// quiescence deadline once every harness socket is closed
const QUIESCE: Duration = Duration::from_secs(FRONT_S as u64 + 4);
const TICK: Duration = Duration::from_millis(25);
/// read timeout of client sockets = granularity of "is my connection still open"
const POLL_MS: u64 = 10;
/// the end of a "served and open" interval is moved back by this much (time for a FIN to be noticed)
const SAFETY_US: u64 = 40_000;
const MAX_CLIENTS: usize = 36;
const HOST: &str = "d0.lab";
const HOST_LIMITED: &str = "dl.lab";

// ------------------------------------------------------------------ case

#[derive(Clone, Copy, Debug, Serialize, Deserialize, PartialEq, Eq)]
pub enum Listener {
    Http,
    Https,
    Tcp,
}

#[derive(Clone, Debug, Serialize, Deserialize, PartialEq, Eq)]
pub enum Kind {
    /// HTTP/1.1 (plain or TLS): 1..3 requests answered at once, spread over the hold time, idle in between
    H1Idle { tls: bool, requests: u8 },
    /// HTTP/1.1 (plain or TLS): one request whose backend answer takes the hold time
    H1Slow { tls: bool },
    /// TLS handshake completed (ALPN http/1.1 or h2; h2: preface and SETTINGS exchanged), then idle
    TlsIdle { h2: bool },
    /// HTTP/2 connection with 1..2 open streams whose backend answers take the hold time
    H2Stream { streams: u8 },
    /// TCP listener: some bytes echoed, idle, one more byte echoed before closing
    Tcp { bytes: u8 },
    /// connects and sends nothing
    Silent { listener: Listener },
    /// HTTP/1.1 (plain or TLS) from client address 127.0.0.(2 + ip) to the cluster with a per-address limit:
    /// 1..3 keep-alive requests spread over the hold time
    Limited { tls: bool, ip: u8, requests: u8 },
}

impl Kind {
    fn label(&self) -> &'static str {
        match self {
            Kind::H1Idle { tls: false, .. } => "h1_keepalive_idle",
            Kind::H1Idle { tls: true, .. } => "tls_h1_keepalive_idle",
            Kind::H1Slow { tls: false } => "h1_slow_backend",
            Kind::H1Slow { tls: true } => "tls_h1_slow_backend",
            Kind::TlsIdle { h2: false } => "tls_handshake_then_idle",
            Kind::TlsIdle { h2: true } => "h2_settings_then_idle",
            Kind::H2Stream { .. } => "h2_open_stream",
            Kind::Tcp { .. } => "tcp_session",
            Kind::Silent { .. } => "silent",
            Kind::Limited { .. } => "per_ip_limited",
        }
    }
    fn listener(&self) -> Listener {
        match self {
            Kind::H1Idle { tls, .. } | Kind::H1Slow { tls } | Kind::Limited { tls, .. } => {
                if *tls {
                    Listener::Https
                } else {
                    Listener::Http
                }
            }
            Kind::TlsIdle { .. } | Kind::H2Stream { .. } => Listener::Https,
            Kind::Tcp { .. } => Listener::Tcp,
            Kind::Silent { listener } => *listener,
        }
    }
}

#[derive(Clone, Debug, Serialize, Deserialize, PartialEq, Eq)]
pub struct Client {
    pub kind: Kind,
    /// connects this many ms after the start of its wave
    pub at: u16,
    /// ms the connection is kept once it is being served (silent clients: since they connected)
    pub hold: u16,
    /// ms an unserved client waits before it gives up and closes; None = waits until it is served or closed
    pub patience: Option<u16>,
    /// closes with RST instead of FIN
    pub reset: bool,
}

#[derive(Clone, Copy, Debug, Serialize, Deserialize, PartialEq, Eq)]
pub enum CmdKind {
    /// SetMaxConnectionsPerIp(n): the global per-address limit (0 disables it and wipes the slot table)
    Global(u8),
    /// the limited cluster's own limit: None inherits the global one, Some(0) unlimited
    Override(Option<u8>),
}

#[derive(Clone, Copy, Debug, Serialize, Deserialize, PartialEq, Eq)]
pub struct Cmd {
    pub at: u16,
    pub what: CmdKind,
}

#[derive(Clone, Debug, Serialize, Deserialize, PartialEq, Eq)]
pub struct Wave {
    pub clients: Vec<Client>,
    pub commands: Vec<Cmd>,
}

#[derive(Clone, Debug, Serialize, Deserialize)]
pub struct Case {
    pub max_connections: u8,
    /// seconds
    pub accept_queue_timeout: u8,
    pub evict_on_queue_full: bool,
    /// per-address limits at the start: global, and the limited cluster's own
    pub global_limit: u8,
    pub override_limit: Option<u8>,
    pub waves: Vec<Wave>,
    /// reproducer mode: connections whose per-address slot was wiped by SetMaxConnectionsPerIp(0) are still
    /// counted as holders (known finding C16/per-ip-undercount-after-disable)
    #[serde(default)]
    pub strict: bool,
}

fn kind() -> impl Strategy<Value = Kind> {
    prop_oneof![
        3 => (any::<bool>(), 1u8..=3).prop_map(|(tls, requests)| Kind::H1Idle { tls, requests }),
        3 => any::<bool>().prop_map(|tls| Kind::H1Slow { tls }),
        2 => any::<bool>().prop_map(|h2| Kind::TlsIdle { h2 }),
        2 => (1u8..=2).prop_map(|streams| Kind::H2Stream { streams }),
        3 => (1u8..=8).prop_map(|bytes| Kind::Tcp { bytes }),
        2 => prop_oneof![Just(Listener::Http), Just(Listener::Https), Just(Listener::Tcp)].prop_map(|listener| Kind::Silent { listener }),
        6 => (any::<bool>(), prop_oneof![3 => Just(0u8), 1 => Just(1u8), 1 => Just(2u8)], 1u8..=3).prop_map(|(tls, ip, requests)| Kind::Limited { tls, ip, requests }),
    ]
}

/// (client, phase 0..1000): the phase becomes the arrival time once the wave's pattern is known
fn raw_client() -> impl Strategy<Value = (Client, u16)> {
    (
        kind(),
        // most connections are held shorter than the front timeout; some outlive it (the proxy closes them)
        prop_oneof![7 => 100u16..1500, 1 => 2300u16..2900],
        prop_oneof![3 => Just(None), 2 => (50u16..1500).prop_map(Some)],
        prop::bool::weighted(0.25),
        0u16..1000,
    )
        .prop_map(|(kind, hold, patience, reset, phase)| (Client { kind, at: 0, hold, patience, reset }, phase))
}

fn cmd() -> impl Strategy<Value = Cmd> {
    (
        0u16..2000,
        prop_oneof![
            2 => (0u8..=3).prop_map(CmdKind::Global),
            2 => prop_oneof![1 => Just(None), 3 => (0u8..=3).prop_map(Some)].prop_map(CmdKind::Override),
        ],
    )
        .prop_map(|(at, what)| Cmd { at, what })
}

/// (arrival pattern, load in percent of max_connections, clients, commands)
fn raw_wave() -> impl Strategy<Value = (u8, u16, Vec<(Client, u16)>, Vec<Cmd>)> {
    (
        0u8..4,
        prop_oneof![1 => 50u16..100, 2 => 100u16..200, 3 => 200u16..=300],
        prop::collection::vec(raw_client(), MAX_CLIENTS),
        prop_oneof![2 => Just(vec![]), 3 => prop::collection::vec(cmd(), 1..=3)],
    )
}

fn shape_wave(max: u8, (pattern, load, raw, mut commands): (u8, u16, Vec<(Client, u16)>, Vec<Cmd>)) -> Wave {
    let n = ((max as usize * load as usize) / 100).clamp(2, MAX_CLIENTS);
    let clients = raw
        .into_iter()
        .take(n)
        .map(|(mut c, phase)| {
            c.at = match pattern {
                // one burst
                0 => phase / 25,
                // a trickle over 1.5 s
                1 => phase + phase / 2,
                // two bursts 0.8 s apart
                2 => (phase % 2) * 800 + phase / 25,
                // a burst, then a trickle
                _ => {
                    if phase % 3 == 0 {
                        phase / 25
                    } else {
                        200 + phase
                    }
                }
            };
            c
        })
        .collect();
    commands.sort_by_key(|c| c.at);
    Wave { clients, commands }
}

pub fn strategy() -> impl Strategy<Value = Case> {
    (
        // 1..3: the integer resume threshold (90 %) rounds down hard there (max_connections = 1 never resumed; repaired in sozu)
        prop_oneof![1 => 1u8..4, 9 => 4u8..12],
        1u8..=2,
        prop::bool::weighted(0.2),
        // a limit is in force for the limited cluster at the start, through its own setting or the global one
        prop_oneof![
            3 => (Just(0u8), (1u8..=3).prop_map(Some)),
            1 => (1u8..=3, Just(None)),
            1 => (1u8..=3, (1u8..=3).prop_map(Some)),
        ],
        raw_wave(),
        proptest::option::weighted(0.35, raw_wave()),
    )
        .prop_map(|(max_connections, accept_queue_timeout, evict_on_queue_full, (global_limit, override_limit), w1, w2)| {
            let mut waves = vec![shape_wave(max_connections, w1)];
            if let Some(w2) = w2 {
                waves.push(shape_wave(max_connections, w2));
            }
            Case { max_connections, accept_queue_timeout, evict_on_queue_full, global_limit, override_limit, waves, strict: false }
        })
}

// ------------------------------------------------------------------ lab

fn us_since(epoch: Instant) -> u64 {
    epoch.elapsed().as_micros() as u64
}

fn header_value<'a>(head: &'a str, name: &str) -> Option<&'a str> {
    head.lines().skip(1).find_map(|l| {
        let (n, v) = l.split_once(':')?;
        n.trim().eq_ignore_ascii_case(name).then(|| v.trim())
    })
}

fn find(hay: &[u8], needle: &[u8]) -> Option<usize> {
    hay.windows(needle.len()).position(|w| w == needle)
}

/// HTTP/1.1 mock backend: answers 200 `x-delay-ms` after the request head arrived, and tells the harness
/// when the request carrying `x-lab-id` arrived
fn serve_delay(mut stream: TcpStream, arrivals: Arc<Mutex<HashMap<u64, u64>>>, stop: Arc<AtomicBool>, epoch: Instant) {
    let mut buf: Vec<u8> = vec![];
    let mut tmp = [0u8; 4096];
    let mut idle_since = Instant::now();
    loop {
        if let Some(pos) = find(&buf, b"\r\n\r\n") {
            let head = String::from_utf8_lossy(&buf[..pos]).to_string();
            buf.drain(..pos + 4);
            let id = header_value(&head, "x-lab-id").and_then(|v| v.parse::<u64>().ok());
            let delay = header_value(&head, "x-delay-ms").and_then(|v| v.parse::<u64>().ok()).unwrap_or(0);
            if let Some(id) = id {
                arrivals.lock().unwrap().insert(id, us_since(epoch));
            }
            let end = Instant::now() + Duration::from_millis(delay);
            while Instant::now() < end {
                if stop.load(Ordering::SeqCst) {
                    return;
                }
                std::thread::sleep(Duration::from_millis(5).min(end.saturating_duration_since(Instant::now())));
            }
            if stream.write_all(b"HTTP/1.1 200 OK\r\nContent-Length: 2\r\n\r\nok").is_err() {
                return;
            }
            idle_since = Instant::now();
            continue;
        }
        match stream.read(&mut tmp) {
            Ok(0) => return,
            Ok(n) => {
                buf.extend_from_slice(&tmp[..n]);
                idle_since = Instant::now();
            }
            Err(e) if matches!(e.kind(), std::io::ErrorKind::WouldBlock | std::io::ErrorKind::TimedOut | std::io::ErrorKind::Interrupted) => {
                if stop.load(Ordering::SeqCst) || idle_since.elapsed() > Duration::from_secs(20) {
                    return;
                }
            }
            Err(_) => return,
        }
    }
}

#[derive(Clone)]
struct Env {
    http: SocketAddr,
    https: SocketAddr,
    tcp: SocketAddr,
    arrivals: Arc<Mutex<HashMap<u64, u64>>>,
    epoch: Instant,
}

pub struct AdmLab {
    worker: LabWorker,
    key: (u8, u8, bool),
    env: Env,
    stop: Arc<AtomicBool>,
    _backends: Vec<Acceptor>,
    baseline: Gauges,
    baseline_underflows: u64,
    scenarios: u64,
}

impl Drop for AdmLab {
    fn drop(&mut self) {
        self.stop.store(true, Ordering::SeqCst);
    }
}

fn limited_cluster(worker: &mut LabWorker, limit: Option<u8>) {
    worker.add_cluster("dl", |c| c.max_connections_per_ip = limit.map(|l| l as u64));
}

impl AdmLab {
    pub fn new(case: &Case) -> AdmLab {
        let cfg = LabConfig {
            max_connections: case.max_connections as u64,
            accept_queue_timeout: case.accept_queue_timeout as u32,
            evict_on_queue_full: case.evict_on_queue_full,
            front_timeout: FRONT_S,
            back_timeout: BACK_S,
            connect_timeout: CONNECT_S,
            request_timeout: REQUEST_S,
            // sessions are reclaimed by their own paths, not by the safety net
            zombie_check_interval: 600,
            ..LabConfig::default()
        };
        let mut worker = LabWorker::start("c16adm", cfg, Listeners::default(), &ConfigState::new());
        let http = lab::free_addr();
        worker.add_http_listener(http, |_| {});
        let https = lab::free_addr();
        {
            let mut b = ListenerBuilder::new_https(https.into());
            b.with_front_timeout(Some(FRONT_S)).with_back_timeout(Some(BACK_S)).with_connect_timeout(Some(CONNECT_S)).with_request_timeout(Some(REQUEST_S));
            let mut l = b.to_tls(None).expect("https listener config");
            l.certificate = Some(certs::LAB_CERT.to_string());
            l.key = Some(certs::LAB_KEY.to_string());
            l.alpn_protocols = vec!["h2".into(), "http/1.1".into()];
            worker.must(RequestType::AddHttpsListener(l));
            worker.must(RequestType::AddCertificate(AddCertificate {
                address: https.into(),
                certificate: CertificateAndKey { certificate: certs::LAB_CERT.to_string(), certificate_chain: vec![], key: certs::LAB_KEY.to_string(), versions: vec![], names: vec![] },
                expired_at: None,
            }));
            worker.must(RequestType::ActivateListener(ActivateListener { address: https.into(), proxy: ListenerType::Https.into(), from_scm: false }));
        }
        let tcp = lab::free_addr();
        worker.add_tcp_listener(tcp, |_| {});

        let epoch = Instant::now();
        let arrivals: Arc<Mutex<HashMap<u64, u64>>> = Arc::new(Mutex::new(HashMap::new()));
        let stop = Arc::new(AtomicBool::new(false));
        let mut backends = vec![];
        // d0: never limited per address (its own setting 0 = unlimited whatever the global one is); dl: the limited cluster
        worker.add_cluster("d0", |c| c.max_connections_per_ip = Some(0));
        limited_cluster(&mut worker, case.override_limit);
        for cluster in ["d0", "dl"] {
            let (addr, listener) = lab::bound_listener();
            worker.add_backend(cluster, &format!("{cluster}-0"), addr);
            let (a, s) = (arrivals.clone(), stop.clone());
            backends.push(Acceptor::spawn(listener, move |_idx, stream| serve_delay(stream, a.clone(), s.clone(), epoch)));
            let host = format!("{cluster}.lab");
            worker.add_http_frontend(cluster, http, &host, "/");
            worker.must(RequestType::AddHttpsFrontend(RequestHttpFrontend {
                cluster_id: Some(cluster.to_string()),
                address: https.into(),
                hostname: host,
                path: PathRule::prefix("/".to_string()),
                position: RulePosition::Tree.into(),
                ..Default::default()
            }));
        }
        // t0: TCP echo
        worker.add_cluster("t0", |c| c.max_connections_per_ip = Some(0));
        worker.add_tcp_frontend("t0", tcp);
        let (eaddr, elistener) = lab::bound_listener();
        worker.add_backend("t0", "t0-0", eaddr);
        backends.push(Acceptor::spawn(elistener, |_idx, stream| serve_echo(stream)));

        let env = Env { http, https, tcp, arrivals, epoch };
        let mut lab = AdmLab {
            worker,
            key: (case.max_connections, case.accept_queue_timeout, case.evict_on_queue_full),
            env,
            stop,
            _backends: backends,
            baseline: Gauges::new(),
            baseline_underflows: 0,
            scenarios: 0,
        };
        // warm-up: lazily created gauges exist and one-time allocations are done before the baseline is read
        for (what, r) in lab.probes() {
            if let Err(e) = r {
                panic!("harness: warm-up on {what} failed: {e}");
            }
        }
        let deadline = Instant::now() + Duration::from_secs(8);
        let mut prev: Option<Gauges> = None;
        loop {
            std::thread::sleep(Duration::from_millis(100));
            let g = query_gauges(&mut lab.worker).unwrap_or_else(|e| panic!("harness: cannot read the worker's metrics: {e}"));
            let idle = g.get("client.connections").copied().unwrap_or(0) == 0;
            if idle && prev.as_ref() == Some(&g) {
                lab.baseline = g;
                break;
            }
            if Instant::now() >= deadline {
                panic!("harness: the worker's gauges did not settle after the warm-up: {:?}", prev.map(|p| drift(&p, &g)));
            }
            prev = Some(g);
        }
        lab.baseline_underflows = underflows();
        if std::env::var("VP_C16_DUMP").is_ok() {
            eprintln!("baseline gauges: {:#?}", lab.baseline);
        }
        lab
    }

    /// one exchange per way in: (what, result)
    fn probes(&mut self) -> Vec<(&'static str, Result<(), String>)> {
        let env = self.env.clone();
        vec![
            ("http", probe_h1(&env, false, HOST, None).and_then(expect_200)),
            ("https", probe_h1(&env, true, HOST, None).and_then(expect_200)),
            ("https-h2", probe_h2(&env)),
            ("tcp", probe_tcp(&env)),
            ("http-limited-cluster", probe_h1(&env, false, HOST_LIMITED, Some(0)).and_then(expect_200)),
        ]
    }

    /// (sent, acknowledged); a worker that died is a finding, anything else that goes wrong a harness problem
    fn command(&mut self, what: CmdKind) -> Result<(u64, u64), Failure> {
        if !self.worker.alive() {
            return Err(Failure::new("C16/worker-died", format!("the worker thread died: {:?}", self.worker.join())));
        }
        let sent = us_since(self.env.epoch);
        match what {
            CmdKind::Global(n) => {
                self.worker.must(RequestType::SetMaxConnectionsPerIp(n as u64));
            }
            CmdKind::Override(l) => limited_cluster(&mut self.worker, l),
        }
        Ok((sent, us_since(self.env.epoch)))
    }
}

// ------------------------------------------------------------------ client plumbing

fn src_addr(ip: u8) -> Ipv4Addr {
    Ipv4Addr::new(127, 0, 0, 2 + ip)
}

/// TCP connection to `dst`, from the loopback address `src` when given
fn connect_from(src: Option<Ipv4Addr>, dst: SocketAddr) -> std::io::Result<TcpStream> {
    let SocketAddr::V4(dst4) = dst else { return Err(std::io::Error::other("lab addresses are IPv4")) };
    unsafe {
        let fd = libc::socket(libc::AF_INET, libc::SOCK_STREAM | libc::SOCK_CLOEXEC, 0);
        if fd < 0 {
            return Err(std::io::Error::last_os_error());
        }
        let owned = OwnedFd::from_raw_fd(fd);
        let sa = |ip: Ipv4Addr, port: u16| libc::sockaddr_in { sin_family: libc::AF_INET as libc::sa_family_t, sin_port: port.to_be(), sin_addr: libc::in_addr { s_addr: u32::from_ne_bytes(ip.octets()) }, sin_zero: [0; 8] };
        let len = std::mem::size_of::<libc::sockaddr_in>() as u32;
        if let Some(ip) = src {
            let a = sa(ip, 0);
            if libc::bind(fd, &a as *const _ as *const libc::sockaddr, len) != 0 {
                return Err(std::io::Error::last_os_error());
            }
        }
        // connect() gives up after 3 s (SO_SNDTIMEO bounds it on Linux)
        let tv = libc::timeval { tv_sec: 3, tv_usec: 0 };
        libc::setsockopt(fd, libc::SOL_SOCKET, libc::SO_SNDTIMEO, &tv as *const _ as *const libc::c_void, std::mem::size_of::<libc::timeval>() as u32);
        let a = sa(*dst4.ip(), dst4.port());
        if libc::connect(fd, &a as *const _ as *const libc::sockaddr, len) != 0 {
            return Err(std::io::Error::last_os_error());
        }
        let s = TcpStream::from(owned);
        s.set_nodelay(true)?;
        s.set_read_timeout(Some(Duration::from_millis(POLL_MS)))?;
        s.set_write_timeout(Some(Duration::from_secs(10)))?;
        Ok(s)
    }
}

type Tls = rustls::StreamOwned<rustls::ClientConnection, TcpStream>;

enum Wire {
    Plain(TcpStream),
    Tls(Box<Tls>),
}

enum Polled {
    Data(usize),
    Idle,
    Closed,
}

fn soft(e: &std::io::Error) -> bool {
    matches!(e.kind(), std::io::ErrorKind::WouldBlock | std::io::ErrorKind::TimedOut | std::io::ErrorKind::Interrupted)
}

impl Wire {
    fn sock(&self) -> &TcpStream {
        match self {
            Wire::Plain(s) => s,
            Wire::Tls(t) => &t.sock,
        }
    }
    /// wait up to POLL_MS for bytes
    fn poll(&mut self, buf: &mut [u8]) -> Polled {
        let r = match self {
            Wire::Plain(s) => s.read(buf),
            Wire::Tls(t) => t.read(buf),
        };
        match r {
            Ok(0) => Polled::Closed,
            Ok(n) => Polled::Data(n),
            Err(e) if soft(&e) => Polled::Idle,
            Err(_) => Polled::Closed,
        }
    }
    fn send(&mut self, bytes: &[u8]) -> bool {
        match self {
            Wire::Plain(s) => s.write_all(bytes).and_then(|_| s.flush()).is_ok(),
            Wire::Tls(t) => t.write_all(bytes).and_then(|_| t.flush()).is_ok(),
        }
    }
}

/// minimal HTTP/1.1 response reader: status line, Content-Length body (the lab's backend and the proxy's own answers)
#[derive(Default)]
struct Resp {
    buf: Vec<u8>,
}

impl Resp {
    fn feed(&mut self, b: &[u8]) {
        self.buf.extend_from_slice(b);
    }
    /// a complete response at the front of the buffer: (status, "Connection: close" present)
    fn take(&mut self) -> Option<(u16, bool)> {
        let pos = find(&self.buf, b"\r\n\r\n")?;
        let head = String::from_utf8_lossy(&self.buf[..pos]).to_string();
        let status = head.split_whitespace().nth(1).and_then(|s| s.parse::<u16>().ok())?;
        let len = header_value(&head, "content-length").and_then(|v| v.parse::<usize>().ok()).unwrap_or(0);
        if self.buf.len() < pos + 4 + len {
            return None;
        }
        let close = header_value(&head, "connection").map(|v| v.eq_ignore_ascii_case("close")).unwrap_or(false);
        self.buf.drain(..pos + 4 + len);
        Some((status, close))
    }
}

// ------------------------------------------------------------------ what a client saw

const ST_IDLE: u8 = 0;
/// connected, no sign of service yet
const ST_WAITING: u8 = 1;
/// being served (or a silent client holding its socket)
const ST_ACTIVE: u8 = 2;
const ST_ENDED: u8 = 3;

#[derive(Clone, Debug, PartialEq)]
enum EndHow {
    NotRun,
    ConnectFailed(String),
    /// the harness closed (FIN) after the hold time
    Closed,
    /// the harness closed with RST
    Reset,
    /// the proxy closed
    PeerClosed,
    /// the harness closed a connection that never got any service (patience over, or the wave was called off)
    GaveUp,
    /// served, then neither an answer nor a close within the bound
    Stuck(String),
}

#[derive(Clone, Debug)]
struct Answer {
    sent: u64,
    recv: Option<u64>,
    status: Option<u16>,
}

#[derive(Clone, Debug)]
struct Trace {
    wave: usize,
    idx: usize,
    label: &'static str,
    listener: Listener,
    /// client address index of a connection to the limited cluster
    limited_ip: Option<u8>,
    connected: Option<u64>,
    /// first sign of service: a byte from the proxy, or the request seen by the backend
    evidence: Option<u64>,
    /// last moment the connection was seen open (a read that found neither bytes nor the end)
    last_alive: Option<u64>,
    ended: Option<u64>,
    end: EndHow,
    answers: Vec<Answer>,
}

struct Shared {
    give_up: AtomicBool,
    last_change: AtomicU64,
    states: Vec<AtomicU8>,
}

enum Xchg {
    /// answered: "Connection: close" announced
    Status(bool),
    Closed,
    GaveUp,
    Stuck,
}

struct Runner<'a> {
    env: &'a Env,
    sh: &'a Shared,
    spec: &'a Client,
    tr: Trace,
    id_base: u64,
    buf: Vec<u8>,
    /// when the read in progress was started
    t0: u64,
}

impl Runner<'_> {
    fn now(&self) -> u64 {
        us_since(self.env.epoch)
    }
    fn state(&self, s: u8) {
        self.sh.states[self.tr.idx].store(s, Ordering::SeqCst);
        self.sh.last_change.store(self.now(), Ordering::SeqCst);
    }
    fn evidence_at(&mut self, t: u64) {
        if self.tr.evidence.is_none() {
            self.tr.evidence = Some(t);
            self.state(ST_ACTIVE);
        }
    }
    /// the connection was open when the read that has just found neither bytes nor the end was started
    /// (the moment BEFORE the read: a harness thread that loses the CPU after it cannot postdate the claim)
    fn alive(&mut self) {
        self.tr.last_alive = Some(self.t0);
    }
    fn poll(&mut self, wire: &mut Wire, buf: &mut [u8]) -> Polled {
        self.t0 = self.now();
        wire.poll(buf)
    }
    fn called_off(&self) -> bool {
        self.sh.give_up.load(Ordering::SeqCst)
    }
    /// an unserved client keeps waiting
    fn patient(&self) -> bool {
        if self.called_off() {
            return false;
        }
        match (self.spec.patience, self.tr.connected) {
            (Some(p), Some(c)) => self.now() < c + p as u64 * 1000,
            _ => true,
        }
    }
    /// the hold time (counted from the first sign of service) is over
    fn hold_over(&self) -> bool {
        self.called_off() || self.now() >= self.tr.evidence.or(self.tr.connected).unwrap_or(0) + self.spec.hold as u64 * 1000
    }
    fn overdue(&self, since: u64, extra_ms: u64) -> bool {
        self.now() > since.max(self.tr.evidence.unwrap_or(0)) + extra_ms * 1000 + ANSWER_BOUND.as_micros() as u64
    }
    fn finish(mut self, end: EndHow) -> Trace {
        self.tr.ended = Some(self.now());
        self.tr.end = end;
        self.state(ST_ENDED);
        self.tr
    }
    fn close(self, wire: Wire) -> Trace {
        let reset = self.spec.reset;
        if reset {
            set_linger0(wire.sock());
        }
        // the time of the close is taken before the socket goes
        let mut me = self;
        me.tr.ended = Some(me.now());
        drop(wire);
        me.tr.end = if reset { EndHow::Reset } else { EndHow::Closed };
        me.state(ST_ENDED);
        me.tr
    }

    /// one request, its answer awaited
    fn exchange(&mut self, wire: &mut Wire, host: &str, delay_ms: u64) -> Xchg {
        let k = self.tr.answers.len() as u64;
        let id = self.id_base + k;
        let req = format!("GET /w{}/c{}/r{k} HTTP/1.1\r\nHost: {host}\r\nx-lab-id: {id}\r\nx-delay-ms: {delay_ms}\r\n\r\n", self.tr.wave, self.tr.idx);
        let sent = self.now();
        if !wire.send(req.as_bytes()) {
            return Xchg::Closed;
        }
        self.tr.answers.push(Answer { sent, recv: None, status: None });
        let mut rd = Resp::default();
        let mut buf = std::mem::take(&mut self.buf);
        let out = loop {
            match self.poll(wire, &mut buf) {
                Polled::Data(n) => {
                    let t = self.now();
                    self.evidence_at(t);
                    self.alive();
                    rd.feed(&buf[..n]);
                    if let Some((status, close)) = rd.take() {
                        let a = self.tr.answers.last_mut().unwrap();
                        a.recv = Some(t);
                        a.status = Some(status);
                        break Xchg::Status(close);
                    }
                }
                Polled::Idle => {
                    self.alive();
                    if self.tr.evidence.is_none() {
                        let arrived = self.env.arrivals.lock().unwrap().get(&id).copied();
                        if let Some(a) = arrived {
                            self.evidence_at(a);
                        }
                    }
                    if self.tr.evidence.is_none() {
                        if !self.patient() {
                            break Xchg::GaveUp;
                        }
                    } else if self.called_off() {
                        break Xchg::GaveUp;
                    } else if self.overdue(sent, delay_ms) {
                        break Xchg::Stuck;
                    }
                }
                Polled::Closed => break Xchg::Closed,
            }
        };
        self.buf = buf;
        out
    }

    /// stay idle until the hold time is over: false = the proxy closed meanwhile
    fn idle(&mut self, wire: &mut Wire, until: impl Fn(&Self) -> bool) -> bool {
        let mut buf = std::mem::take(&mut self.buf);
        let mut open = true;
        while !until(self) {
            match self.poll(wire, &mut buf) {
                Polled::Data(_) | Polled::Idle => self.alive(),
                Polled::Closed => {
                    open = false;
                    break;
                }
            }
        }
        self.buf = buf;
        open
    }

    /// TLS handshake driven to its end while the client waits for the proxy's attention
    fn handshake(&mut self, sock: TcpStream, alpn: &[&str]) -> Result<Box<Tls>, EndHow> {
        let mut tls = Box::new(h2::tls_client(sock, HOST, alpn).map_err(|e| EndHow::ConnectFailed(format!("TLS client: {e}")))?);
        let started = self.now();
        loop {
            self.t0 = self.now();
            match tls.conn.complete_io(&mut tls.sock) {
                Ok(_) => {}
                Err(e) if soft(&e) => {}
                Err(_) => return Err(EndHow::PeerClosed),
            }
            if !tls.conn.is_handshaking() {
                let t = self.now();
                self.evidence_at(t);
                self.alive();
                return Ok(tls);
            }
            let mut one = [0u8; 1];
            match tls.sock.peek(&mut one) {
                Ok(0) => return Err(EndHow::PeerClosed),
                Ok(_) => {
                    let t = self.now();
                    self.evidence_at(t);
                }
                Err(e) if soft(&e) => {
                    if self.tr.evidence.is_none() {
                        if !self.patient() {
                            return Err(EndHow::GaveUp);
                        }
                    } else if self.called_off() {
                        return Err(EndHow::GaveUp);
                    } else if self.overdue(started, 0) {
                        return Err(EndHow::Stuck("the TLS handshake the proxy had started answering never completed".into()));
                    }
                }
                Err(_) => return Err(EndHow::PeerClosed),
            }
        }
    }
}

fn run_client(env: &Env, sh: &Shared, wave: usize, wave_start: Instant, idx: usize, spec: &Client, id_base: u64) -> Trace {
    let limited_ip = match spec.kind {
        Kind::Limited { ip, .. } => Some(ip),
        _ => None,
    };
    let tr = Trace { wave, idx, label: spec.kind.label(), listener: spec.kind.listener(), limited_ip, connected: None, evidence: None, last_alive: None, ended: None, end: EndHow::NotRun, answers: vec![] };
    let mut r = Runner { env, sh, spec, tr, id_base, buf: vec![0u8; 16384], t0: 0 };
    let at = wave_start + Duration::from_millis(spec.at as u64);
    while Instant::now() < at {
        if r.called_off() {
            return r.finish(EndHow::NotRun);
        }
        std::thread::sleep(Duration::from_millis(2).min(at.saturating_duration_since(Instant::now())));
    }
    let dst = match spec.kind.listener() {
        Listener::Http => env.http,
        Listener::Https => env.https,
        Listener::Tcp => env.tcp,
    };
    let sock = match connect_from(limited_ip.map(src_addr), dst) {
        Ok(s) => s,
        Err(e) => return r.finish(EndHow::ConnectFailed(e.to_string())),
    };
    r.tr.connected = Some(r.now());
    r.state(if matches!(spec.kind, Kind::Silent { .. }) { ST_ACTIVE } else { ST_WAITING });

    match spec.kind.clone() {
        Kind::Silent { .. } => {
            let mut wire = Wire::Plain(sock);
            if r.idle(&mut wire, |r| r.hold_over()) { r.close(wire) } else { r.finish(EndHow::PeerClosed) }
        }
        Kind::Tcp { bytes } => {
            let mut wire = Wire::Plain(sock);
            let payload: Vec<u8> = (0..bytes).map(|i| b'a' + i % 26).collect();
            if !wire.send(&payload) {
                return r.finish(EndHow::PeerClosed);
            }
            // the echo
            let mut got = 0usize;
            let sent = r.now();
            let mut buf = vec![0u8; 256];
            while got < payload.len() {
                match r.poll(&mut wire, &mut buf) {
                    Polled::Data(n) => {
                        let t = r.now();
                        r.evidence_at(t);
                        r.alive();
                        got += n;
                    }
                    Polled::Idle => {
                        r.alive();
                        if r.tr.evidence.is_none() {
                            if !r.patient() {
                                return r.finish_unserved(wire);
                            }
                        } else if r.called_off() {
                            return r.close(wire);
                        } else if r.overdue(sent, 0) {
                            return r.finish(EndHow::Stuck(format!("{got} of {} bytes echoed, then nothing", payload.len())));
                        }
                    }
                    Polled::Closed => return r.finish(EndHow::PeerClosed),
                }
            }
            if !r.idle(&mut wire, |r| r.hold_over()) {
                return r.finish(EndHow::PeerClosed);
            }
            // still relayed at the end of the hold time?
            if !r.called_off() {
                let sent = r.now();
                if !wire.send(b"z") {
                    return r.finish(EndHow::PeerClosed);
                }
                loop {
                    match r.poll(&mut wire, &mut buf) {
                        Polled::Data(_) => break,
                        Polled::Idle => {
                            r.alive();
                            if r.called_off() {
                                break;
                            }
                            if r.overdue(sent, 0) {
                                return r.finish(EndHow::Stuck("a byte sent on a TCP session that had echoed before is neither echoed nor is the session closed".into()));
                            }
                        }
                        Polled::Closed => return r.finish(EndHow::PeerClosed),
                    }
                }
            }
            r.close(wire)
        }
        Kind::H1Idle { tls, requests } | Kind::Limited { tls, requests, .. } => {
            let host = if limited_ip.is_some() { HOST_LIMITED } else { HOST };
            let mut wire = if tls {
                match r.handshake(sock, &["http/1.1"]) {
                    Ok(t) => Wire::Tls(t),
                    Err(e) => return r.finish(e),
                }
            } else {
                Wire::Plain(sock)
            };
            for k in 0..requests {
                match r.exchange(&mut wire, host, 0) {
                    Xchg::Status(close) => {
                        if close {
                            // the proxy announced it closes: wait for it (bounded by the hold time)
                            let open = r.idle(&mut wire, |r| r.hold_over());
                            return if open { r.close(wire) } else { r.finish(EndHow::PeerClosed) };
                        }
                    }
                    Xchg::Closed => return r.finish(EndHow::PeerClosed),
                    Xchg::GaveUp => return r.finish_unserved(wire),
                    Xchg::Stuck => return r.finish(EndHow::Stuck(format!("request {} of {requests} on a connection that {} is neither answered nor is the connection closed", k + 1, if k == 0 { "the proxy had started serving" } else { "was answered before" }))),
                }
                // idle for a share of the hold time
                let share = r.tr.evidence.unwrap_or(0) + (spec.hold as u64 * 1000) * (k as u64 + 1) / requests as u64;
                if !r.idle(&mut wire, |r| r.called_off() || r.now() >= share) {
                    return r.finish(EndHow::PeerClosed);
                }
            }
            r.close(wire)
        }
        Kind::H1Slow { tls } => {
            let mut wire = if tls {
                match r.handshake(sock, &["http/1.1"]) {
                    Ok(t) => Wire::Tls(t),
                    Err(e) => return r.finish(e),
                }
            } else {
                Wire::Plain(sock)
            };
            match r.exchange(&mut wire, HOST, spec.hold as u64) {
                Xchg::Status(..) => r.close(wire),
                Xchg::Closed => r.finish(EndHow::PeerClosed),
                Xchg::GaveUp => r.finish_unserved(wire),
                Xchg::Stuck => r.finish(EndHow::Stuck(format!("a request the backend received and answered after {} ms got neither an answer nor a close", spec.hold))),
            }
        }
        Kind::TlsIdle { h2: false } => {
            let mut wire = match r.handshake(sock, &["http/1.1"]) {
                Ok(t) => Wire::Tls(t),
                Err(e) => return r.finish(e),
            };
            if r.idle(&mut wire, |r| r.hold_over()) { r.close(wire) } else { r.finish(EndHow::PeerClosed) }
        }
        Kind::TlsIdle { h2: true } | Kind::H2Stream { .. } => {
            let streams = match spec.kind {
                Kind::H2Stream { streams } => streams,
                _ => 0,
            };
            let tls = match r.handshake(sock, &["h2"]) {
                Ok(t) => t,
                Err(e) => return r.finish(e),
            };
            if tls.conn.alpn_protocol() != Some(b"h2") {
                return r.finish(EndHow::ConnectFailed("ALPN did not negotiate h2".into()));
            }
            let mut c = H2Conn::new(*tls, false, Settings::default());
            if c.start().is_err() {
                return r.finish(EndHow::PeerClosed);
            }
            let started = r.now();
            let ids: Vec<u32> = (0..streams as u32).map(|k| 1 + 2 * k).collect();
            let mut opened = false;
            let mut settings_seen = false;
            let over = |c: &H2Conn<Tls>, sid: u32| c.streams.get(&sid).map(|s| s.end_stream || s.reset.is_some()).unwrap_or(false);
            loop {
                if settings_seen && !opened {
                    opened = true;
                    for (k, sid) in ids.iter().enumerate() {
                        let headers = vec![
                            (":method".to_string(), "GET".to_string()),
                            (":scheme".to_string(), "https".to_string()),
                            (":authority".to_string(), HOST.to_string()),
                            (":path".to_string(), format!("/w{wave}/c{idx}/s{k}")),
                            ("x-lab-id".to_string(), (id_base + k as u64).to_string()),
                            ("x-delay-ms".to_string(), spec.hold.to_string()),
                        ];
                        let sent = r.now();
                        if c.send_headers(*sid, &headers, true, None).is_err() {
                            return r.finish(EndHow::PeerClosed);
                        }
                        r.tr.answers.push(Answer { sent, recv: None, status: None });
                    }
                }
                if opened {
                    for (k, sid) in ids.iter().enumerate() {
                        if r.tr.answers[k].recv.is_none() && over(&c, *sid) {
                            r.tr.answers[k].recv = Some(r.now());
                            r.tr.answers[k].status = c.streams.get(sid).and_then(|s| h2::hdr(&s.headers, ":status")).and_then(|s| s.parse().ok());
                        }
                    }
                    let all_over = ids.iter().all(|s| over(&c, *s));
                    if (streams > 0 && all_over) || (streams == 0 && r.hold_over()) || r.called_off() {
                        break;
                    }
                    if streams > 0 && r.overdue(started, spec.hold as u64) {
                        return r.finish(EndHow::Stuck(format!("{streams} HTTP/2 stream(s) whose backend answers after {} ms: neither answered, reset, nor is the connection closed", spec.hold)));
                    }
                } else if r.called_off() {
                    break;
                } else if r.overdue(started, 0) {
                    return r.finish(EndHow::Stuck("no SETTINGS frame on an HTTP/2 connection whose TLS handshake completed".into()));
                }
                r.t0 = r.now();
                match c.next_frame(Instant::now() + Duration::from_millis(POLL_MS)) {
                    H2Event::Frame(f) => {
                        r.alive();
                        if f.typ == h2::SETTINGS && f.flags & h2::F_ACK == 0 {
                            settings_seen = true;
                        }
                    }
                    H2Event::Timeout => r.alive(),
                    H2Event::Eof | H2Event::Reset => return r.finish(EndHow::PeerClosed),
                }
            }
            let _ = c.send(&Frame::goaway(0, h2::NO_ERROR));
            r.close(Wire::Tls(Box::new(c.s)))
        }
    }
}

impl Runner<'_> {
    /// the harness closes a connection that never got any service
    fn finish_unserved(self, wire: Wire) -> Trace {
        if self.tr.evidence.is_some() {
            // called off while being served: an ordinary close
            return self.close(wire);
        }
        let mut me = self;
        me.tr.ended = Some(me.now());
        drop(wire);
        me.tr.end = EndHow::GaveUp;
        me.state(ST_ENDED);
        me.tr
    }
}

// ------------------------------------------------------------------ probes (harness-driven, sequential)

fn expect_200(st: Option<u16>) -> Result<(), String> {
    if st == Some(200) { Ok(()) } else { Err(format!("expected the backend's 200, got {st:?}")) }
}

/// one request on a fresh connection; the answer's status (None: closed without an answer). Err: not served within the bound
fn probe_h1(env: &Env, tls: bool, host: &str, ip: Option<u8>) -> Result<Option<u16>, String> {
    let sock = connect_from(ip.map(src_addr), if tls { env.https } else { env.http }).map_err(|e| format!("connect: {e}"))?;
    let deadline = Instant::now() + MARGIN;
    let mut wire = if tls {
        let mut t = Box::new(h2::tls_client(sock, host, &["http/1.1"]).map_err(|e| format!("TLS client: {e}"))?);
        while t.conn.is_handshaking() {
            match t.conn.complete_io(&mut t.sock) {
                Ok(_) => {}
                Err(e) if soft(&e) => {
                    if Instant::now() > deadline {
                        return Err(format!("no TLS handshake within {} s", MARGIN.as_secs()));
                    }
                }
                Err(e) => return Err(format!("TLS handshake: {e}")),
            }
        }
        Wire::Tls(t)
    } else {
        Wire::Plain(sock)
    };
    if !wire.send(format!("GET /probe HTTP/1.1\r\nHost: {host}\r\n\r\n").as_bytes()) {
        return Ok(None);
    }
    let mut rd = Resp::default();
    let mut buf = vec![0u8; 4096];
    loop {
        match wire.poll(&mut buf) {
            Polled::Data(n) => {
                rd.feed(&buf[..n]);
                if let Some((st, _)) = rd.take() {
                    return Ok(Some(st));
                }
            }
            Polled::Idle => {
                if Instant::now() > deadline {
                    return Err(format!("connected, request sent, neither an answer nor a close within {} s", MARGIN.as_secs()));
                }
            }
            Polled::Closed => return Ok(None),
        }
    }
}

fn probe_h2(env: &Env) -> Result<(), String> {
    let (tls, _) = h2::tls_connect(env.https, HOST, &["h2"]).map_err(|e| format!("TLS connect: {e}"))?;
    let mut c = H2Conn::new(tls, false, Settings::default());
    c.start().map_err(|e| format!("preface: {e}"))?;
    let headers = vec![(":method".to_string(), "GET".to_string()), (":scheme".to_string(), "https".to_string()), (":authority".to_string(), HOST.to_string()), (":path".to_string(), "/probe".to_string())];
    c.send_headers(1, &headers, true, None).map_err(|e| format!("HEADERS: {e}"))?;
    let deadline = Instant::now() + MARGIN;
    loop {
        if let Some(s) = c.streams.get(&1) {
            if s.end_stream || s.reset.is_some() {
                let (st, reset) = (h2::hdr(&s.headers, ":status"), s.reset);
                let _ = c.send(&Frame::goaway(0, h2::NO_ERROR));
                return if st.as_deref() == Some("200") { Ok(()) } else { Err(format!("stream ended with status {st:?}, reset {reset:?}")) };
            }
        }
        match c.next_frame(Instant::now() + Duration::from_millis(20)) {
            H2Event::Frame(_) => {}
            H2Event::Timeout => {
                if Instant::now() > deadline {
                    return Err("no answer on the HTTP/2 stream".into());
                }
            }
            other => return Err(format!("connection ended: {other:?}")),
        }
    }
}

fn probe_tcp(env: &Env) -> Result<(), String> {
    let mut s = connect_from(None, env.tcp).map_err(|e| format!("connect: {e}"))?;
    s.write_all(b"probe").map_err(|e| format!("write: {e}"))?;
    let deadline = Instant::now() + MARGIN;
    let mut got = vec![];
    let mut buf = [0u8; 64];
    while got.len() < 5 {
        match s.read(&mut buf) {
            Ok(0) => return Err(format!("closed after echoing {:?}", String::from_utf8_lossy(&got))),
            Ok(n) => got.extend_from_slice(&buf[..n]),
            Err(e) if soft(&e) => {
                if Instant::now() > deadline {
                    return Err(format!("connected, 5 bytes sent, {} echoed within {} s, not closed", got.len(), MARGIN.as_secs()));
                }
            }
            Err(e) => return Err(format!("read: {e}")),
        }
    }
    Ok(())
}

// ------------------------------------------------------------------ observations of one scenario

#[derive(Clone, Copy, Debug)]
struct Sample {
    sent: u64,
    recv: u64,
    connections: u64,
    queued: u64,
}

#[derive(Clone, Copy, Debug)]
struct CmdRec {
    sent: u64,
    acked: u64,
    what: CmdKind,
    /// (global, override) once applied
    after: (u8, Option<u8>),
}

#[derive(Default)]
struct Obs {
    traces: Vec<Trace>,
    samples: Vec<Sample>,
    cmds: Vec<CmdRec>,
    /// per wave: moment every connection of the earlier waves was proven gone (gauges at the baseline)
    clean_points: Vec<u64>,
}

fn limit_of((global, over): (u8, Option<u8>)) -> u8 {
    over.unwrap_or(global)
}

impl Obs {
    /// limits that may have been in force for the limited cluster at some moment of [s, r]
    fn limits_possible(&self, initial: (u8, Option<u8>), s: u64, r: u64) -> BTreeSet<u8> {
        let mut out = BTreeSet::new();
        // state j holds from (somewhere in) command j's window to (somewhere in) command j+1's window
        let mut state = initial;
        let mut from = 0u64;
        for c in &self.cmds {
            let until = c.acked;
            if from <= r && until >= s {
                out.insert(limit_of(state));
            }
            state = c.after;
            from = c.sent;
        }
        if from <= r {
            out.insert(limit_of(state));
        }
        out
    }

    /// a SetMaxConnectionsPerIp(0) (the slot table is wiped) may have run after `tracked_since` and before `r`
    fn wiped_between(&self, tracked_since: u64, r: u64) -> bool {
        self.cmds.iter().any(|c| c.what == CmdKind::Global(0) && c.acked > tracked_since && c.sent < r)
    }
}

fn ms(us: u64) -> String {
    format!("{:.1}", us as f64 / 1000.0)
}

fn opt_ms(t: Option<u64>) -> String {
    t.map(ms).unwrap_or_else(|| "-".into())
}

fn describe(t: &Trace) -> String {
    let answers: Vec<String> = t.answers.iter().map(|a| format!("{}@{}→{}", a.status.map(|s| s.to_string()).unwrap_or_else(|| "none".into()), ms(a.sent), opt_ms(a.recv))).collect();
    format!(
        "w{}#{} {}{}: connected {}, first service {}, last seen open {}, ended {} ({:?}){}",
        t.wave,
        t.idx,
        t.label,
        t.limited_ip.map(|i| format!(" from {}", src_addr(i))).unwrap_or_default(),
        opt_ms(t.connected),
        opt_ms(t.evidence),
        opt_ms(t.last_alive),
        opt_ms(t.ended),
        t.end,
        if answers.is_empty() { String::new() } else { format!(", answers [{}]", answers.join(", ")) }
    )
}

// ------------------------------------------------------------------ scenario

enum Settled {
    Back,
    Off(Vec<(String, u64, u64)>),
}

fn settle(lab: &mut AdmLab, max: Duration, what: &str) -> Result<Settled, Failure> {
    let deadline = Instant::now() + max;
    loop {
        if !lab.worker.alive() {
            return Err(Failure::new("C16/worker-died", format!("the worker thread died ({:?}); {what}", lab.worker.join())));
        }
        let now = query_gauges(&mut lab.worker).map_err(|e| Failure::new("C16/metrics-unanswered", format!("the worker does not answer QueryMetrics: {e}; {what}")))?;
        let mut off = drift(&lab.baseline, &now);
        if off.is_empty() {
            return Ok(Settled::Back);
        }
        if Instant::now() >= deadline {
            const FIRST: [&str; 6] = ["client.connections", "accept_queue.connections", "slab.entries", "buffer.in_use", "backend.connections", "http.active_requests"];
            off.sort_by_key(|(n, _, _)| (FIRST.iter().position(|f| f == n).unwrap_or(FIRST.len()), n.clone()));
            return Ok(Settled::Off(off));
        }
        std::thread::sleep(Duration::from_millis(100));
    }
}

/// what the stall detector saw when a wave had to be called off
struct Stall {
    waiting: Vec<usize>,
    since: u64,
    at: u64,
}

fn run_wave(lab: &mut AdmLab, case: &Case, widx: usize, wave: &Wave, limits: &mut (u8, Option<u8>), obs: &mut Obs) -> Result<Option<Stall>, Failure> {
    let env = lab.env.clone();
    let n = wave.clients.len();
    let sh = Shared { give_up: AtomicBool::new(false), last_change: AtomicU64::new(us_since(env.epoch)), states: (0..n).map(|_| AtomicU8::new(ST_IDLE)).collect() };
    let bound_us = (case.accept_queue_timeout as u64 * 1_000_000) + MARGIN.as_micros() as u64;
    let id_root = (lab.scenarios << 24) | ((widx as u64) << 16);
    let wave_start = Instant::now() + Duration::from_millis(20);
    let hard_deadline = wave_start + Duration::from_secs(60);
    let mut stall: Option<Stall> = None;
    let mut failure: Option<Failure> = None;
    let mut pending: Vec<Cmd> = wave.commands.clone();
    let traces: Vec<Trace> = std::thread::scope(|sc| {
        let handles: Vec<_> = wave
            .clients
            .iter()
            .enumerate()
            .map(|(i, spec)| {
                let (env, sh) = (&env, &sh);
                std::thread::Builder::new().stack_size(512 << 10).spawn_scoped(sc, move || run_client(env, sh, widx, wave_start, i, spec, id_root | ((i as u64) << 4))).expect("harness: spawn client thread")
            })
            .collect();
        loop {
            let tick = Instant::now();
            // commands that are due
            while let Some(c) = pending.first().copied() {
                if Instant::now() < wave_start + Duration::from_millis(c.at as u64) {
                    break;
                }
                pending.remove(0);
                match c.what {
                    CmdKind::Global(n) => limits.0 = n,
                    CmdKind::Override(o) => limits.1 = o,
                }
                match lab.command(c.what) {
                    Ok((sent, acked)) => obs.cmds.push(CmdRec { sent, acked, what: c.what, after: *limits }),
                    Err(f) => {
                        failure = Some(f);
                        sh.give_up.store(true, Ordering::SeqCst);
                        break;
                    }
                }
            }
            if failure.is_some() {
                break;
            }
            // the worker's view
            if !lab.worker.alive() {
                failure = Some(Failure::new("C16/worker-died", format!("the worker thread died during the storm: {:?}", lab.worker.join())));
                sh.give_up.store(true, Ordering::SeqCst);
                break;
            }
            let sent = us_since(env.epoch);
            match query_gauges(&mut lab.worker) {
                Ok(g) => obs.samples.push(Sample { sent, recv: us_since(env.epoch), connections: g.get("client.connections").copied().unwrap_or(0), queued: g.get("accept_queue.connections").copied().unwrap_or(0) }),
                Err(e) => {
                    failure = Some(Failure::new("C16/metrics-unanswered", format!("the worker does not answer QueryMetrics during the storm: {e}")));
                    sh.give_up.store(true, Ordering::SeqCst);
                    break;
                }
            }
            let states: Vec<u8> = sh.states.iter().map(|s| s.load(Ordering::SeqCst)).collect();
            if states.iter().all(|s| *s == ST_ENDED) {
                break;
            }
            // stalled: whoever is left is connected and unserved, and nothing has changed for accept_queue_timeout + margin
            let now = us_since(env.epoch);
            let since = sh.last_change.load(Ordering::SeqCst);
            if states.iter().all(|s| *s == ST_ENDED || *s == ST_WAITING) && pending.is_empty() && now > since + bound_us {
                stall = Some(Stall { waiting: states.iter().enumerate().filter(|(_, s)| **s == ST_WAITING).map(|(i, _)| i).collect(), since, at: now });
                sh.give_up.store(true, Ordering::SeqCst);
                break;
            }
            if Instant::now() > hard_deadline {
                sh.give_up.store(true, Ordering::SeqCst);
                panic!("harness: a wave did not end within 60 s (client states {states:?})");
            }
            std::thread::sleep(TICK.saturating_sub(tick.elapsed()));
        }
        handles.into_iter().map(|h| h.join().expect("harness: client thread panicked")).collect()
    });
    obs.traces.extend(traces);
    match failure {
        Some(f) => Err(f),
        None => Ok(stall),
    }
}

pub fn scenario(lab: &mut AdmLab, case: &Case) -> CheckResult {
    let mut rep = CaseReport::default();
    if !lab.worker.alive() {
        return Err(Failure::new("C16/worker-died", format!("the worker thread is gone: {:?}", lab.worker.join())));
    }
    lab.scenarios += 1;
    lab.env.arrivals.lock().unwrap().clear();
    let max = case.max_connections as u64;
    // documented hysteresis: accepting resumes below 90% of max_connections
    let resume_below = max * 90 / 100;
    let initial = (case.global_limit, case.override_limit);
    let mut limits = initial;
    lab.command(CmdKind::Override(case.override_limit))?;
    lab.command(CmdKind::Global(case.global_limit))?;
    let mut obs = Obs::default();
    let dump = std::env::var("VP_C16_DUMP").is_ok();
    let summary = |obs: &Obs| -> String {
        let kinds: BTreeSet<&str> = obs.traces.iter().map(|t| t.label).collect();
        format!(
            "max_connections {max}, accept_queue_timeout {} s, evict_on_queue_full {}, {} wave(s) of {:?} clients ({}), per-address limits at the start: global {}, limited cluster {:?}, commands {:?}",
            case.accept_queue_timeout,
            case.evict_on_queue_full,
            case.waves.len(),
            case.waves.iter().map(|w| w.clients.len()).collect::<Vec<_>>(),
            kinds.into_iter().collect::<Vec<_>>().join(", "),
            case.global_limit,
            case.override_limit,
            obs.cmds.iter().map(|c| format!("{:?}@{}..{}", c.what, ms(c.sent), ms(c.acked))).collect::<Vec<_>>()
        )
    };

    let mut stalled: Option<(usize, Stall)> = None;
    // gauges of the admission state itself that stayed off the baseline after a wave was called off
    let mut stalled_drift = String::new();
    for (widx, wave) in case.waves.iter().enumerate() {
        obs.clean_points.push(us_since(lab.env.epoch));
        let stall = run_wave(lab, case, widx, wave, &mut limits, &mut obs)?;
        if dump {
            for t in obs.traces.iter().filter(|t| t.wave == widx) {
                eprintln!("{}", describe(t));
            }
        }
        // every harness socket is closed: the worker is back to its idle footprint, exactly
        let what = format!("after wave {widx} of: {}", summary(&obs));
        if let Settled::Off(off) = settle(lab, QUIESCE, &what)? {
            let (name, base, now) = off[0].clone();
            let all: Vec<String> = off.iter().map(|(n, b, v)| format!("{n}: baseline {b}, now {v}")).collect();
            if let (Some(s), true) = (&stall, off.iter().all(|(n, _, _)| n.starts_with("accept_queue."))) {
                // no session resource is held: what is off is the paused state of accepting itself, the stall says it better
                stalled_drift = format!("; {} s after every client socket was closed: {}", QUIESCE.as_secs(), all.join("; "));
                stalled = Some((widx, Stall { waiting: s.waiting.clone(), since: s.since, at: s.at }));
                break;
            }
            return Err(Failure::new(
                format!("C16/not-back-to-baseline:{name}"),
                format!(
                    "{} s after every client socket of the storm was closed, gauge {name} is at {now}, its value after set-up was {base} ({}); all gauges off their baseline: {}{}; {what}",
                    QUIESCE.as_secs(),
                    if now > base { "leak" } else { "negative drift" },
                    all.join("; "),
                    if stall.is_some() { "; the wave had been called off because waiting clients were never served" } else { "" }
                ),
            ));
        }
        if let Some(s) = stall {
            stalled = Some((widx, s));
            break;
        }
    }
    let under = underflows();
    if under != lab.baseline_underflows {
        let times = under - lab.baseline_underflows;
        lab.baseline_underflows = under;
        return Err(Failure::new("C16/gauge-underflow", format!("a gauge was decremented below zero (clamped by the metrics drain) {times} time(s) during the storm; {}", summary(&obs))));
    }

    // ---- (3) waiting clients that were never served although the load had dropped
    if let Some((widx, s)) = stalled {
        let window: Vec<&Sample> = obs.samples.iter().filter(|x| x.sent >= s.since && x.recv <= s.at).collect();
        let busiest = window.iter().map(|x| x.connections).max().unwrap_or(0);
        let waiting: Vec<String> = s.waiting.iter().filter_map(|i| obs.traces.iter().find(|t| t.wave == widx && t.idx == *i)).map(describe).collect();
        let listeners: BTreeSet<String> = s.waiting.iter().filter_map(|i| obs.traces.iter().find(|t| t.wave == widx && t.idx == *i)).map(|t| format!("{:?}", t.listener).to_lowercase()).collect();
        // max_connections * 90 / 100 == 0 (max_connections = 1): known finding, its own key
        let sig = if busiest < resume_below.max(1) {
            if resume_below == 0 { "C16/accept-never-resumes:resume-threshold-zero" } else { "C16/accept-never-resumes" }
        } else {
            "C16/waiting-clients-never-served"
        };
        return Err(Failure::new(
            sig,
            format!(
                "every other client of wave {widx} had ended at {} ms; for the next {} ms (accept_queue_timeout {} s + {} s) {} connected client(s) on the {} listener(s) kept waiting and got neither a byte nor a close, while client.connections was at most {busiest} in {} samples (max_connections {max}, accepting resumes below {resume_below}): {}; {}",
                ms(s.since),
                ms(s.at - s.since),
                case.accept_queue_timeout,
                MARGIN.as_secs(),
                waiting.len(),
                listeners.into_iter().collect::<Vec<_>>().join("+"),
                window.len(),
                waiting.join(" | "),
                format!("{}{stalled_drift}", summary(&obs))
            ),
        ));
    }

    // ---- (1) never more than max_connections served at a time: the worker's own gauge ...
    // VP_C16_ADM_SKIP=gauge (diagnosis only): leave the judgement to what the clients saw
    let skip_gauge = std::env::var("VP_C16_ADM_SKIP").map(|v| v == "gauge").unwrap_or(false);
    if let Some(x) = obs.samples.iter().find(|x| x.connections > max && !skip_gauge) {
        return Err(Failure::new(
            "C16/max-connections-exceeded:gauge",
            format!("client.connections = {} at {} ms with max_connections {max}; {}", x.connections, ms(x.recv), summary(&obs)),
        ));
    }
    // ... and what the clients saw: connections that had received service and were still open
    let mut edges: Vec<(u64, i32, usize)> = vec![];
    for (k, t) in obs.traces.iter().enumerate() {
        if let (Some(a), Some(b)) = (t.evidence, t.last_alive) {
            let b = b.saturating_sub(SAFETY_US);
            if b > a {
                edges.push((a, 1, k));
                edges.push((b, -1, k));
            }
        }
    }
    edges.sort_by_key(|(t, d, _)| (*t, *d));
    let mut open: BTreeSet<usize> = BTreeSet::new();
    let mut peak_served = 0usize;
    for (t, d, k) in &edges {
        if *d > 0 {
            open.insert(*k);
        } else {
            open.remove(k);
        }
        peak_served = peak_served.max(open.len());
        if open.len() as u64 > max {
            let who: Vec<String> = open.iter().map(|k| describe(&obs.traces[*k])).collect();
            return Err(Failure::new(
                "C16/max-connections-exceeded:clients-served",
                format!("at {} ms {} client connections had received service (a response, TLS handshake bytes, an echoed byte, or their request had reached the backend) and were still open, with max_connections {max}: {}; {}", ms(*t), open.len(), who.join(" | "), summary(&obs)),
            ));
        }
    }

    // ---- (2) served, then stuck
    if let Some(t) = obs.traces.iter().find(|t| matches!(t.end, EndHow::Stuck(_))) {
        let EndHow::Stuck(why) = &t.end else { unreachable!() };
        return Err(Failure::new(
            format!("C16/served-then-stuck:{}", t.label),
            format!("{why} within {} s (3 x connect timeout + back timeout + margin): {}; {}", ANSWER_BOUND.as_secs(), describe(t), summary(&obs)),
        ));
    }

    // ---- (4) per-address limit of the limited cluster
    let limited: Vec<&Trace> = obs.traces.iter().filter(|t| t.limited_ip.is_some()).collect();
    let mut forgotten_cases = 0u64;
    for y in &limited {
        let clean = obs.clean_points.get(y.wave).copied().unwrap_or(0);
        let peers: Vec<&&Trace> = limited.iter().filter(|z| z.limited_ip == y.limited_ip && !(z.wave == y.wave && z.idx == y.idx)).collect();
        let mut admitted_at: Option<u64> = None;
        for (k, a) in y.answers.iter().enumerate() {
            let (Some(r), Some(status)) = (a.recv, a.status) else { continue };
            let s = a.sent;
            let possible = obs.limits_possible(initial, s, r);
            match status {
                200 if admitted_at.is_none() => {
                    admitted_at = Some(s);
                    if possible.contains(&0) {
                        continue;
                    }
                    let limit = *possible.iter().max().unwrap() as usize;
                    // holders for sure: admitted (answered 200) before this request was sent, seen open after its answer
                    let mut sure = vec![];
                    let mut wiped = vec![];
                    for z in &peers {
                        let tracked = z.answers.iter().filter(|b| b.status == Some(200) && b.recv.map(|rz| rz < s).unwrap_or(false)).map(|b| b.sent).max();
                        let Some(tracked) = tracked else { continue };
                        if z.last_alive.map(|l| l.saturating_sub(SAFETY_US) > r).unwrap_or(false) {
                            if obs.wiped_between(tracked, r) { wiped.push(**z) } else { sure.push(**z) }
                        }
                    }
                    let show = |v: &[&Trace]| v.iter().map(|t| describe(t)).collect::<Vec<_>>().join(" | ");
                    if sure.len() >= limit {
                        return Err(Failure::new(
                            "C16/per-ip-limit-exceeded",
                            format!("request {} of {} was admitted (200) to the limited cluster while {} other connection(s) from the same address held a slot there (admitted earlier, still open afterwards) and the limit in force was {limit} (limits possible during the request: {possible:?}): holders: {}; {}", k + 1, describe(y), sure.len(), show(&sure), summary(&obs)),
                        ));
                    }
                    if sure.len() + wiped.len() >= limit {
                        if case.strict {
                            return Err(Failure::new(
                                "C16/per-ip-undercount-after-disable",
                                format!("request {} of {} was admitted (200) to the limited cluster with limit {limit} in force while {} connection(s) from the same address were open there, {} of them admitted before a SetMaxConnectionsPerIp(0) that wiped the slot table: {} | {}; {}", k + 1, describe(y), sure.len() + wiped.len(), wiped.len(), show(&sure), show(&wiped), summary(&obs)),
                            ));
                        }
                        forgotten_cases += 1;
                    }
                }
                429 => {
                    // a connection that holds a slot is never refused by itself
                    if let Some(since) = admitted_at {
                        if obs.wiped_between(since, r) {
                            forgotten_cases += 1;
                            if !case.strict {
                                continue;
                            }
                        }
                        return Err(Failure::new(
                            if obs.wiped_between(since, r) { "C16/per-ip-undercount-after-disable" } else { "C16/per-ip-holder-refused" },
                            format!("request {} on a keep-alive connection the limited cluster had admitted before was answered 429: one connection holds one slot per cluster, its later requests do not need another: {}; {}", k + 1, describe(y), summary(&obs)),
                        ));
                    }
                    // refused although the slots cannot have been taken
                    let candidates: Vec<&&&Trace> = peers
                        .iter()
                        .filter(|z| {
                            let first_sent = z.answers.first().map(|b| b.sent);
                            let refused_itself = z.answers.first().and_then(|b| b.status) == Some(429);
                            (z.wave == y.wave || z.ended.map(|e| e > clean).unwrap_or(true)) && first_sent.map(|fs| fs < r).unwrap_or(false) && !refused_itself
                        })
                        .collect();
                    let lowest = possible.iter().filter(|l| **l > 0).min().copied();
                    let false_refusal = match lowest {
                        None => true, // the limit was off during the whole request
                        Some(l) => candidates.len() < l as usize,
                    };
                    if false_refusal {
                        return Err(Failure::new(
                            "C16/per-ip-false-refusal",
                            format!("{} was answered 429 although at most {} other connection(s) from its address can have held a slot of the limited cluster since the worker was last idle (limits possible during the request: {possible:?}; 0 = no limit): {}; {}", describe(y), candidates.len(), candidates.iter().map(|t| describe(t)).collect::<Vec<_>>().join(" | "), summary(&obs)),
                        ));
                    }
                }
                _ => {}
            }
        }
    }
    rep.excluded_known += forgotten_cases;
    rep.class_if(forgotten_cases > 0, "known_excluded:per-ip-slots-wiped-by-disable");

    // ---- (3) a fresh connection after the storm is served, on every listener
    for (what, r) in lab.probes() {
        if let Err(e) = r {
            return Err(Failure::new(format!("C16/accept-never-resumes:{what}"), format!("after the storm, with every gauge back at its baseline, a fresh connection ({what}) is not served: {e}; {}", summary(&obs))));
        }
    }
    // ---- (4) per-address slots all released: as many simultaneous connections as the limit admits are served
    let mut limit_now = limit_of(limits);
    if limit_now == 0 {
        lab.command(CmdKind::Override(Some(2)))?;
        limit_now = 2;
    }
    {
        let mut open = vec![];
        // never more simultaneous probe connections than the worker serves at all
        let limit_now = limit_now.min(case.max_connections);
        for k in 0..limit_now {
            let sock = connect_from(Some(src_addr(0)), lab.env.http).unwrap_or_else(|e| panic!("harness: connect for the slot probe: {e}"));
            let mut wire = Wire::Plain(sock);
            wire.send(format!("GET /slot{k} HTTP/1.1\r\nHost: {HOST_LIMITED}\r\n\r\n").as_bytes());
            let mut rd = Resp::default();
            let mut buf = vec![0u8; 4096];
            let deadline = Instant::now() + MARGIN;
            let st = loop {
                match wire.poll(&mut buf) {
                    Polled::Data(n) => {
                        rd.feed(&buf[..n]);
                        if let Some((st, _)) = rd.take() {
                            break Some(st);
                        }
                    }
                    Polled::Idle => {
                        if Instant::now() > deadline {
                            break None;
                        }
                    }
                    Polled::Closed => break None,
                }
            };
            if st != Some(200) {
                return Err(Failure::new(
                    "C16/per-ip-slot-not-released",
                    format!("after the storm, every gauge back at its baseline: connection {} of {limit_now} opened at the same time from {} to the limited cluster (limit {limit_now}) was answered {st:?}; {}", k + 1, src_addr(0), summary(&obs)),
                ));
            }
            open.push(wire);
        }
    }
    let what = format!("after the probes that follow: {}", summary(&obs));
    if let Settled::Off(off) = settle(lab, QUIESCE, &what)? {
        let (name, base, now) = off[0].clone();
        return Err(Failure::new(format!("C16/not-back-to-baseline:{name}"), format!("gauge {name} is at {now}, baseline {base}; {what}")));
    }

    // ---- measurement
    let mut conn_edges: Vec<(u64, i32)> = vec![];
    for t in &obs.traces {
        if let (Some(a), Some(b)) = (t.connected, t.ended) {
            conn_edges.push((a, 1));
            conn_edges.push((b, -1));
        }
    }
    conn_edges.sort();
    let (mut cur, mut peak_open) = (0i64, 0i64);
    for (_, d) in conn_edges {
        cur += d as i64;
        peak_open = peak_open.max(cur);
    }
    let kinds: BTreeSet<&str> = obs.traces.iter().filter(|t| t.connected.is_some()).map(|t| t.label).collect();
    let served_kinds: BTreeSet<&str> = obs.traces.iter().filter(|t| t.evidence.is_some()).map(|t| t.label).collect();
    let at_limit = |a: u64, b: u64| obs.samples.iter().any(|x| x.recv >= a && x.sent <= b && x.connections >= max);
    let queued_then_served = obs.traces.iter().any(|t| matches!((t.connected, t.evidence), (Some(c), Some(e)) if e > c + 100_000 && at_limit(c, e)));
    let refused = obs.traces.iter().any(|t| t.evidence.is_none() && t.end == EndHow::PeerClosed && !matches!(t.label, "silent"));
    let statuses: Vec<u16> = limited.iter().flat_map(|t| t.answers.iter().filter_map(|a| a.status)).collect();
    rep.nontrivial = peak_open as u64 > max && kinds.len() >= 2;
    rep.class_if(peak_open as u64 > max, "storm_above_max");
    rep.class_if(peak_open as u64 >= 2 * max, "storm_2x+");
    rep.class_if(obs.samples.iter().any(|x| x.connections == max), "gauge_at_max_connections");
    rep.class_if(peak_served as u64 == max, "clients_served_at_max_connections");
    rep.class_if(obs.samples.iter().any(|x| x.queued > 0), "accept_queue_nonempty_seen");
    rep.class_if(queued_then_served, "queued_client_served_later");
    rep.class_if(refused, "refused_at_limit");
    rep.class_if(obs.traces.iter().any(|t| t.end == EndHow::GaveUp), "client_gave_up_unserved");
    rep.class_if(obs.traces.iter().any(|t| t.evidence.is_some() && t.end == EndHow::PeerClosed), "served_then_closed_by_proxy");
    rep.class_if(statuses.contains(&429), "per_ip_limit_hit");
    rep.class_if(statuses.contains(&200), "per_ip_admitted");
    rep.class_if(!obs.cmds.is_empty(), "per_ip_changed_mid_storm");
    rep.class_if(obs.cmds.iter().any(|c| c.what == CmdKind::Global(0)), "per_ip_disabled_mid_storm");
    rep.class_if(case.waves.len() > 1, "second_wave");
    rep.class_if(case.evict_on_queue_full, "evict_on_queue_full");
    rep.class_if(obs.traces.iter().any(|t| matches!(t.end, EndHow::ConnectFailed(_))), "connect_failed");
    for k in served_kinds {
        rep.class(format!("served:{k}"));
    }
    for k in kinds {
        rep.class(format!("kind:{k}"));
    }
    rep.inner_evaluations = obs.traces.len() as u64;
    if dump {
        eprintln!("peak open {peak_open}, peak served {peak_served}, samples {}, classes {:?}", obs.samples.len(), rep.classes);
    }
    Ok(rep)
}

pub fn rule() -> &'static str {
    "a live worker with max_connections 4..11 (one case in ten 1..3), accept_queue_timeout 1..2 s, evict_on_queue_full on in a fifth of the cases (front timeout 2 s, back 6 s, connect 1 s, request 2 s; zombie sweep out of the way), an HTTP, an HTTPS (ALPN h2 + http/1.1) and a TCP listener; clusters: d0 (HTTP/1.1 mock backend that answers after the delay the client asks for), dl (same backend kind, per-client-address limit: its own setting or the global one), t0 (TCP echo). One or two waves (the second after the worker is back at its baseline) of 2..36 clients = 50..300% of max_connections, arriving as one burst, a trickle, two bursts, or a burst then a trickle; kinds: HTTP/1.1 keep-alive (plain / TLS) with 1..3 requests and idle in between, HTTP/1.1 request whose backend answer is delayed, TLS handshake then idle (http/1.1 or h2 with SETTINGS), HTTP/2 connection with 1..2 open streams, TCP session, silent connection on any listener, HTTP/1.1 (plain / TLS) from 127.0.0.2..4 to the limited cluster with 1..3 keep-alive requests; each held 0.1..1.5 s (an eighth 2.3..2.9 s, beyond the front timeout) from its first sign of service, then closed or reset; an unserved client waits for ever or gives up after 50..1500 ms. During a wave 0..3 commands: SetMaxConnectionsPerIp(0..3), the limited cluster's own limit set to none / 0..3. The worker's gauges are read (QueryMetrics) every 25 ms. Oracles: (1) client.connections never exceeds max_connections at any reading, and the number of client connections that had received service (a byte from the proxy, or their request seen by the backend) and were still seen open 40 ms later never exceeds it; (2) a connection that received service gets an answer or a close for every request within 3 x connect timeout + back timeout + 6 s (never half-served then stuck); whether an excess connection is closed at once, queued by the proxy, or left in the listen backlog is free, and so is how long it waits while the worker is full; (3) when all other clients of a wave have ended and the remaining connected clients have had neither a byte nor a close for accept_queue_timeout + 6 s, that is a failure (accept-never-resumes when client.connections stayed below 90% of max_connections meanwhile); after the storm a fresh connection on every listener is served; (4) limited cluster: a first request is never admitted while as many other connections of the same address as the highest limit possibly in force hold a slot (admitted before the request was sent, seen open after its answer; no judgement while a limit of 0 may be in force); a connection that was admitted is never answered 429 later; a 429 is a failure when fewer connections of that address than the lowest limit possibly in force can hold a slot (every connection since the last idle point that sent a request and was not itself refused counts) or when the limit was off; after the storm as many simultaneous connections as the limit admits are served; connections admitted before a SetMaxConnectionsPerIp(0) do not count as holders afterwards (known finding per-ip-undercount-after-disable: counted as excluded, strict reproducer kept); (5) after each wave every gauge returns exactly to its baseline within front timeout + 4 s, no gauge underflow, worker alive. A failure is re-run twice on a fresh worker and reported only when it reproduces. Non-trivial: more client sockets open at the same time than max_connections and at least 2 kinds of clients."
}

/// child-process entry: run this shard's scenarios
pub fn child(args: &Args, total: u64) -> Stats {
    lab::init_ports(args.shard.map(|s| s.0).unwrap_or(0));
    let labcell: RefCell<Option<AdmLab>> = RefCell::new(None);
    let flaky = std::cell::Cell::new(0u64);
    let run_on = |fresh: bool, case: &Case| -> CheckResult {
        let key = (case.max_connections, case.accept_queue_timeout, case.evict_on_queue_full);
        let mut lab = match (fresh, labcell.borrow_mut().take()) {
            (false, Some(l)) if l.key == key => l,
            (_, old) => {
                drop(old);
                AdmLab::new(case)
            }
        };
        let r = scenario(&mut lab, case);
        // a lab that saw a failure is not reused
        *labcell.borrow_mut() = if r.is_ok() { Some(lab) } else { None };
        r
    };
    let check = |case: &Case| -> CheckResult {
        let first = run_on(false, case);
        let Err(f) = first else { return first };
        // confirm on a fresh worker: report only what reproduces (DESIGN §2.4)
        for _ in 0..2 {
            if let Err(f2) = run_on(true, case) {
                return Err(if f2.signature == f.signature { f2 } else { f });
            }
        }
        flaky.set(flaky.get() + 1);
        engine::note_flaky("C16", &f, &serde_json::to_string(case).unwrap_or_default());
        let mut rep = CaseReport::default();
        rep.class("flaky_unconfirmed");
        Ok(rep)
    };
    let mut st = engine::run_lab_shard(args, "C16", SUB, total, strategy(), check, 8);
    st.flaky_unconfirmed += flaky.get();
    st
}

#[allow(dead_code)]
fn _unused(_: BTreeMap<u8, u8>, s: &TcpStream) -> i32 {
    s.as_raw_fd()
}
