//! C10 — worker hand-over and soft stop lose no listener and cut no request (DESIGN §4 C10).
//!
//! Part (a), in-process: the fd hand-off codec (`ScmSocket::send_listeners` /
//! `receive_listeners`) round-trips every listener set up to the documented fd limit, keeping
//! address/kind/order and the identity of every open file, without leaking descriptors.
//! Part (b), wire lab (soft stop and hand-over under traffic), lives in `c10_lab` (sub-check `softstop`:
//! plain HTTP/1.1) and `c10_lab2` (sub-check `softstop2`: HTTP/2, HTTPS, TCP and WebSocket sessions).

use std::{
    net::SocketAddr,
    os::fd::{AsRawFd, IntoRawFd, RawFd},
    os::unix::net::UnixStream,
};

use proptest::prelude::*;
use serde::{Deserialize, Serialize};
use sozu_command_lib::scm_socket::{Listeners, ScmSocket};

use crate::engine::{self, Args, CaseReport, CheckResult, Evidence, pick_idx};

#[derive(Clone, Debug, Serialize, Deserialize)]
pub struct Case {
    /// (kind 0 http / 1 tls / 2 tcp / 3 udp, address shape selector, port)
    pub entries: Vec<(u8, u32, u16)>,
    pub send_blocking: bool,
    pub recv_blocking: bool,
    /// how many of the entries (from the front) use real bound sockets at their real address
    pub real: u8,
    /// count process fds before/after (only meaningful in the single-threaded sub-check)
    #[serde(default)]
    pub count_fds: bool,
}

/// textual shapes of every length class: short/long IPv4, short/long/longest IPv6, scoped link-local
fn address(sel: u32, port: u16) -> SocketAddr {
    const SHAPES: &[&str] = &[
        "1.2.3.4",
        "127.0.0.1",
        "255.255.255.255",
        "::1",
        "::",
        "2001:db8::5",
        "fe80::1234:5678:9abc:def0",
        "ffff:ffff:ffff:ffff:ffff:ffff:ffff:ffff",
        "2001:0db8:85a3:1111:2222:8a2e:0370:7334",
        "abcd:ef01:2345:6789:abcd:ef01:2345:6789",
    ];
    let ip: std::net::IpAddr = SHAPES[pick_idx(sel, SHAPES.len())].parse().unwrap();
    SocketAddr::new(ip, port)
}

fn entry() -> impl Strategy<Value = (u8, u32, u16)> {
    (0u8..4, any::<u32>(), prop_oneof![Just(1u16), Just(80u16), Just(65535u16), any::<u16>()])
}

pub fn strategy() -> impl Strategy<Value = Case> {
    strategy_with(false)
}

/// `over_limit`: also generate sets above the documented limit of 200 (only in the single-threaded
/// sub-check, which can find and close the descriptors an over-limit hand-off strands)
pub fn strategy_with(over_limit: bool) -> impl Strategy<Value = Case> {
    let n = prop_oneof![
        4 => 0usize..12,
        3 => 12usize..100,
        3 => 100usize..=200,
        1 => if over_limit { 201usize..260 } else { 195usize..201 },
    ];
    n.prop_flat_map(|n| {
        (
            prop::collection::vec(entry(), n..=n),
            any::<bool>(),
            any::<bool>(),
            0u8..6,
            // bias toward the longest textual addresses (the manifest size boundary)
            prop::bool::weighted(0.35),
        )
            .prop_map(|(mut entries, send_blocking, recv_blocking, real, long)| {
                if long {
                    for e in entries.iter_mut() {
                        e.1 = u32::MAX / 10 * (7 + (e.1 % 3)); // shapes 7..9: longest IPv6
                        e.2 = 65535 - (e.2 % 1000);
                    }
                }
                Case { entries, send_blocking, recv_blocking, real, count_fds: false }
            })
    })
}

fn open_fds() -> Vec<RawFd> {
    let mut v: Vec<RawFd> = std::fs::read_dir("/proc/self/fd")
        .map(|d| d.filter_map(|e| e.ok()?.file_name().to_str()?.parse().ok()).collect())
        .unwrap_or_default();
    v.sort();
    v
}

fn ino(fd: RawFd) -> Option<(u64, u64)> {
    let mut st: libc::stat = unsafe { std::mem::zeroed() };
    if unsafe { libc::fstat(fd, &mut st) } == 0 {
        Some((st.st_dev as u64, st.st_ino as u64))
    } else {
        None
    }
}

pub fn check(case: &Case) -> CheckResult {
    let mut rep = CaseReport::default();
    let fds_before = if case.count_fds { open_fds() } else { vec![] };
    let result = run_case(case, &mut rep);
    if case.count_fds {
        // (the directory handle used for the listing itself is already closed here)
        let after = open_fds();
        let stranded: Vec<RawFd> = after.iter().copied().filter(|fd| !fds_before.contains(fd)).collect();
        for fd in &stranded {
            unsafe { libc::close(*fd) };
        }
        if !stranded.is_empty() && case.entries.len() <= 200 {
            fail!(
                "C10/fd-leak",
                "the hand-off of {} listeners (within the documented limit) left {} descriptors open after everything the harness owns was closed (hand-off result: {})",
                case.entries.len(),
                stranded.len(),
                if result.is_ok() { "ok".to_string() } else { format!("{:?}", result.as_ref().err().map(|f| &f.signature)) }
            );
        }
    }
    result?;
    Ok(rep)
}

fn run_case(case: &Case, rep: &mut CaseReport) -> Result<(), engine::Failure> {
    // descriptors the harness owns (closed on drop)
    let tcp4 = std::net::TcpListener::bind("127.0.0.1:0").expect("bind tcp4");
    let tcp6 = std::net::TcpListener::bind("[::1]:0").ok();
    let udp4 = std::net::UdpSocket::bind("127.0.0.1:0").expect("bind udp4");
    let mut owned: Vec<RawFd> = vec![]; // dups to close at the end
    let mut real_listeners: Vec<std::net::TcpListener> = vec![];

    let mut listeners = Listeners::default();
    let mut sent: Vec<(u8, SocketAddr, RawFd)> = vec![];
    for (i, (kind, sel, port)) in case.entries.iter().enumerate() {
        let (addr, fd) = if i < case.real as usize && *kind != 3 {
            // a real bound socket advertised at its real address
            let l = if sel % 2 == 0 || tcp6.is_none() {
                std::net::TcpListener::bind("127.0.0.1:0").expect("bind")
            } else {
                std::net::TcpListener::bind("[::1]:0").expect("bind")
            };
            let a = l.local_addr().unwrap();
            let fd = l.as_raw_fd();
            real_listeners.push(l);
            (a, fd)
        } else {
            let src = match kind {
                3 => udp4.as_raw_fd(),
                _ if sel % 2 == 1 && tcp6.is_some() => tcp6.as_ref().unwrap().as_raw_fd(),
                _ => tcp4.as_raw_fd(),
            };
            let d = unsafe { libc::dup(src) };
            if d < 0 {
                panic!("harness: dup failed");
            }
            owned.push(d);
            (address(*sel, *port), d)
        };
        match kind {
            0 => listeners.http.push((addr, fd)),
            1 => listeners.tls.push((addr, fd)),
            2 => listeners.tcp.push((addr, fd)),
            _ => listeners.udp.push((addr, fd)),
        }
        sent.push((*kind, addr, fd));
    }
    let close_owned = |owned: &[RawFd]| {
        for fd in owned {
            unsafe { libc::close(*fd) };
        }
    };

    let (a, b) = UnixStream::pair().expect("socketpair");
    let (afd, bfd) = (a.into_raw_fd(), b.into_raw_fd());
    let close_pair = || unsafe {
        libc::close(afd);
        libc::close(bfd);
    };
    let mut tx = ScmSocket::new(afd).expect("scm tx");
    let mut rx = ScmSocket::new(bfd).expect("scm rx");
    tx.set_blocking(case.send_blocking).expect("set_blocking");
    rx.set_blocking(case.recv_blocking).expect("set_blocking");

    let total = case.entries.len();
    let manifest_bytes: usize = sent.iter().map(|(_, a, _)| a.to_string().len() + 2).sum::<usize>() + 4;
    let within_limit = total <= 200;

    let send_res = tx.send_listeners(&listeners);
    let recv_res = match &send_res {
        Ok(()) => Some(rx.receive_listeners()),
        Err(_) => None,
    };

    let outcome: Result<(), engine::Failure> = (|| {
        if !within_limit {
            // beyond the documented limit: a clean error on either side (never a panic, never a
            // truncated listener set presented as complete)
            match (&send_res, &recv_res) {
                (Err(_), _) => Ok(()),
                (Ok(()), Some(Err(_))) => Ok(()),
                (Ok(()), Some(Ok(got))) => {
                    let n = got.http.len() + got.tls.len() + got.tcp.len() + got.udp.len();
                    for (_, fd) in got.http.iter().chain(&got.tls).chain(&got.tcp).chain(&got.udp) {
                        unsafe { libc::close(*fd) };
                    }
                    Err(engine::Failure::new(
                        "C10/over-limit-accepted",
                        format!("{total} listeners (> 200) were handed over and {n} came out without an error"),
                    ))
                }
                _ => Ok(()),
            }
        } else {
            if let Err(e) = &send_res {
                fail!("C10/send-failed", "send_listeners failed for {total} listeners ({manifest_bytes} manifest bytes): {e}");
            }
            let got = match recv_res.unwrap() {
                Ok(g) => g,
                Err(e) => fail!(
                    "C10/receive-failed",
                    "receive_listeners failed for {total} listeners within the documented limit of 200 (manifest {manifest_bytes} bytes): {e}"
                ),
            };
            let lists = [(0u8, &got.http), (1, &got.tls), (2, &got.tcp), (3, &got.udp)];
            let mut it = sent.iter();
            let mut result = Ok(());
            // every descriptor that came out is closed at the end, whatever the verdict (a failing case must not
            // leak descriptors into the cases that follow and into shrinking)
            let received_fds: Vec<RawFd> = lists.iter().flat_map(|(_, l)| l.iter().map(|x| x.1)).collect();
            'outer: for (kind, list) in lists {
                let want: Vec<&(u8, SocketAddr, RawFd)> = sent.iter().filter(|s| s.0 == kind).collect();
                if list.len() != want.len() {
                    result = Err(engine::Failure::new(
                        "C10/listener-count",
                        format!("kind {kind}: sent {} listeners, received {}", want.len(), list.len()),
                    ));
                    continue;
                }
                for ((addr, fd), w) in list.iter().zip(want) {
                    if *addr != w.1 {
                        result = Err(engine::Failure::new(
                            "C10/listener-address",
                            format!("kind {kind}: sent address {} came out as {addr}", w.1),
                        ));
                        continue 'outer;
                    }
                    if ino(*fd) != ino(w.2) || ino(*fd).is_none() {
                        result = Err(engine::Failure::new(
                            "C10/listener-fd-identity",
                            format!("kind {kind} {addr}: received descriptor {fd} is not the open file that was sent ({:?} vs {:?})", ino(*fd), ino(w.2)),
                        ));
                        continue 'outer;
                    }
                }
            }
            let _ = it.next();
            // real sockets: the received descriptor is bound to the advertised address
            for (i, (kind, addr, _)) in sent.iter().enumerate() {
                if i < case.real as usize && *kind != 3 && result.is_ok() {
                    let list = match kind {
                        0 => &got.http,
                        1 => &got.tls,
                        _ => &got.tcp,
                    };
                    if let Some((_, fd)) = list.iter().find(|(a, _)| a == addr) {
                        let mut ss: libc::sockaddr_storage = unsafe { std::mem::zeroed() };
                        let mut len = std::mem::size_of::<libc::sockaddr_storage>() as libc::socklen_t;
                        let rc = unsafe { libc::getsockname(*fd, &mut ss as *mut _ as *mut libc::sockaddr, &mut len) };
                        let port = if ss.ss_family as i32 == libc::AF_INET {
                            u16::from_be(unsafe { (*(&ss as *const _ as *const libc::sockaddr_in)).sin_port })
                        } else {
                            u16::from_be(unsafe { (*(&ss as *const _ as *const libc::sockaddr_in6)).sin6_port })
                        };
                        if rc != 0 || port != addr.port() {
                            result = Err(engine::Failure::new(
                                "C10/listener-not-bound-to-its-address",
                                format!("received descriptor for {addr} is bound to port {port}"),
                            ));
                        }
                    }
                }
            }
            for fd in received_fds {
                unsafe { libc::close(fd) };
            }
            result
        }
    })();

    close_owned(&owned);
    close_pair();
    drop(real_listeners);

    let ipv6 = sent.iter().any(|s| s.1.is_ipv6());
    rep.nontrivial = total >= 50 || ipv6;
    rep.class_if(total == 0, "empty_set");
    rep.class_if(total >= 50, "50+_listeners");
    rep.class_if((190..=200).contains(&total), "190..200_listeners");
    rep.class_if(total > 200, "over_limit");
    rep.class_if(manifest_bytes > 4096, "manifest_over_4096_bytes");
    rep.class_if(ipv6, "ipv6");
    rep.class_if(!case.send_blocking || !case.recv_blocking, "non_blocking_side");
    rep.class_if(case.real > 0 && total > 0, "real_bound_sockets");
    outcome
}

pub fn run(args: &Args) -> i32 {
    if args.shard.is_some() {
        // a lab child (the only lab sub-check of this property)
        let st = if args.only.as_deref() == Some(super::c10_lab2::SUB) { super::c10_lab2::child(args, args.cases(super::c10_lab2::QUICK, super::c10_lab2::THOROUGH)) } else { super::c10_lab::child(args, args.cases(300, 3_000)) };
        return engine::shard::child_finish(args, &st);
    }
    let mut ev = Evidence::new(args, "exploration");
    ev.rule(
        "scm",
        "listener set = 0..260 entries over http/tls/tcp/udp with IPv4/IPv6 addresses of every textual length (35% of the sets use only the longest IPv6 spellings), descriptors = real bound sockets at their real address (first 0..5 entries) or dups of bound sockets; send_listeners on one end of a UnixStream pair, receive_listeners on the other, blocking and non-blocking. Oracle: within 200 entries both calls succeed and the four lists come out with the same addresses in the same order, each descriptor referring to the same open file (fstat dev/ino) and, for real sockets, bound to the advertised port; above 200 a clean error. Non-trivial: >= 50 listeners or an IPv6 address; distinct by case hash.",
    );
    ev.rule(
        "scm-leak",
        "same generator, single-threaded, with /proc/self/fd counted before and after: a successful or failed hand-off within the limit leaves no descriptor behind once the harness closed what it owns.",
    );
    ev.assume("the master-side orchestration (fork/exec) is not run; the codec and the fd identity are");
    ev.rule(super::c10_lab::SUB, super::c10_lab::rule());
    ev.assume("softstop: the harness plays the main process (ReturnListenSockets, receive_listeners, SoftStop over the real command channel and SCM socket); no successor worker is started; requests whose head is only partly received at the stop, HTTP/2 streams, TLS listeners and TCP pipes in flight are not generated");
    ev.rule(super::c10_lab2::SUB, super::c10_lab2::rule());
    ev.assume("softstop2: same harness role as softstop; four shapes sozu gets wrong are excluded by construction and counted in excluded_known (see exclude_known in props/c10_lab2.rs), the committed strict reproducers regressions/C10/softstop2-known-*.json play them: an HTTP/2 request body still to come at the stop (GOAWAY STREAM_CLOSED); a new HTTP/2 stream crossing the initial GOAWAY on a connection with open streams (connection closed, streams cut); an HTTPS HTTP/1.1 response under back-pressure at the stop (transfer never resumes, timing dependent); an HTTP/2 response of more than 65535 bytes written at once by an HTTP/1.1 backend after the stop (stalls at the exhausted stream window). Not generated: request heads only partly received at the stop, HTTP/2 clients that stop reading, UDP listeners, a successor worker, a worker killed during the hand-over");
    for (class, frac) in [("session_h2", 0.5), ("session_tlsh1", 0.35), ("session_tcp", 0.25), ("session_ws", 0.1), ("session_wss", 0.1), ("h2_backend_waiting", 0.4), ("h2_response_in_progress", 0.25), ("h2_2+_open_streams", 0.3), ("h2_backend_h1", 0.25), ("h2_backend_h2c", 0.25), ("handover", 0.2), ("2+_session_kinds", 0.5), ("2+_sessions_in_flight", 0.5), ("tlsh1_partial_body", 0.08), ("tlsh1_response_in_progress", 0.08), ("tcp_reply_pending", 0.1), ("tcp_both_ways", 0.1), ("ws_upgrade_pending", 0.03), ("wss_upgrade_pending", 0.03)] {
        ev.floor(super::c10_lab2::SUB, class, frac);
    }
    ev.floor(super::c10_lab::SUB, "2+_in_flight", 0.4);
    ev.floor(super::c10_lab::SUB, "handover", 0.25);
    ev.floor(super::c10_lab::SUB, "expect_100_continue", 0.15);
    ev.floor(super::c10_lab::SUB, "2+_listeners", 0.4);
    ev.floor(super::c10_lab::SUB, "backend_write_blocked_at_stop", 0.05);
    ev.floor("scm", "190..200_listeners", 0.005);
    ev.floor("scm", "manifest_over_4096_bytes", 0.05);
    let cases = args.cases(3_000, 60_000);
    engine::run_pbt(&mut ev, args, "scm", cases, strategy, check);
    // leak sub-check: one thread, so the process-wide descriptor count is meaningful
    let mut single = args.clone();
    single.jobs = 1;
    let cases = args.cases(400, 8_000);
    engine::run_pbt(
        &mut ev,
        &single,
        "scm-leak",
        cases,
        || strategy_with(true).prop_map(|mut c| {
            c.count_fds = true;
            c
        }),
        check,
    );
    engine::shard::run_sharded(&mut ev, args, super::c10_lab::SUB, 16, std::time::Duration::from_secs(args.tier.pick(600, 3600)));
    engine::shard::run_sharded(&mut ev, args, super::c10_lab2::SUB, 16, std::time::Duration::from_secs(args.tier.pick(900, 5400)));
    ev.finish()
}
