//! C02 — every received request gets exactly one well-formed answer (DESIGN §4 C02).
//!
//! Wire lab, fault enumeration. Built so far: HTTP/1.1 client -> HTTP/1.1 backend. One keep-alive client
//! connection sends 1..4 requests one after the other; every request carries an injected cause (routing
//! outcome, backend misbehaviour at a generated point of the response, client stopping mid-request). The
//! oracle is the property's own status table plus "an abort is a connection close, never a clean end on a
//! short body"; after a fault the next request (same connection when it is still usable, otherwise a new
//! one) and a final probe on a fresh connection must be served with their exact bodies.

use std::{
    cell::RefCell,
    collections::BTreeMap,
    io::{Read, Write},
    net::{SocketAddr, TcpStream},
    sync::{Arc, Mutex},
    time::{Duration, Instant},
};

use proptest::prelude::*;
use serde::{Deserialize, Serialize};
use sozu_command_lib::{
    proto::command::{PathRule, RequestHttpFrontend, RulePosition, request::RequestType},
    scm_socket::Listeners,
    state::ConfigState,
};

use crate::{
    engine::{self, Args, CaseReport, CheckResult, Evidence, Failure, Stats},
    lab::{
        self, LabConfig, LabWorker,
        h1::{self, Acceptor, BodyFraming, End, Framing, H1Conn, H1Message, Kind, ReadOutcome, content, first_mismatch},
    },
};

// ------------------------------------------------------------------ case

/// Where a backend stops sending its response.
#[derive(Clone, Debug, Serialize, Deserialize, PartialEq)]
pub enum CutPos {
    /// after 1..=len(status line) bytes
    StatusLine(u32),
    /// inside the header section (status line complete, blank line not yet complete)
    Headers(u32),
    /// exactly after the blank line
    HeadEnd,
    /// 1.. bytes into the body as serialised (chunk framing included), at least one byte missing
    Body(u32),
    /// one byte before the end of the serialised message
    BodyMinus1,
}

#[derive(Clone, Debug, Serialize, Deserialize, PartialEq)]
pub enum Cause {
    /// the backend answers 200 with the generated body
    Normal,
    /// unknown Host -> 404
    NoRoute,
    /// frontend without cluster -> 401
    Deny,
    /// cluster without backend -> 503
    NoBackend,
    /// the cluster's only backend address is bound but not listening -> 503 once the retry budget is spent
    BackendRefuses,
    /// the cluster's only backend accepts and closes at once, without reading -> 502 or 503
    BackendClosesAtAccept,
    /// the backend reads the request, then closes without a byte -> 502
    BackendClosesWithoutAnswer { reset: bool },
    /// the backend reads the request and never answers -> 504 within back_timeout
    BackendStalls,
    /// the backend answers completely, but only 700 ms after back_timeout -> 504 within back_timeout
    BackendAnswersLate,
    /// the backend closes as soon as it has read the request head, while the client has sent only half
    /// of the body and waits -> 502 or 503
    BackendClosesMidRequest { reset: bool },
    /// not a fault, an unusual moment: the backend answers its complete 200 as soon as it has read the
    /// request head; the client has sent half of the body, reads the response, then sends the rest
    BackendAnswersBeforeBody,
    /// the backend answers bytes that are not HTTP -> 502
    BackendGarbage { kind: u32, linger: bool },
    /// the backend sends a prefix of its response, then closes (FIN or RST), at once or 30 ms later
    /// (so that the prefix is relayed before the close is seen)
    BackendCutsResponse {
        at: CutPos,
        reset: bool,
        #[serde(default)]
        pause: bool,
    },
    /// the backend sends a prefix of its response, then goes silent
    BackendStallsMidResponse { at: CutPos },
    /// the client sends a prefix of the request head, then waits -> 408
    ClientStopsMidHead(u32),
    /// the client sends the head and a prefix of the body, then waits -> 408
    ClientStopsMidBody(u32),
    /// a second connection of the same IP to a cluster limited to one -> 429
    PerIpLimit,
}

impl Cause {
    fn label(&self) -> &'static str {
        match self {
            Cause::Normal => "normal",
            Cause::NoRoute => "no_route",
            Cause::Deny => "deny",
            Cause::NoBackend => "no_backend",
            Cause::BackendRefuses => "backend_refuses",
            Cause::BackendClosesAtAccept => "backend_closes_at_accept",
            Cause::BackendClosesWithoutAnswer { .. } => "backend_closes_without_answer",
            Cause::BackendStalls => "backend_stalls",
            Cause::BackendAnswersLate => "backend_answers_late",
            Cause::BackendClosesMidRequest { .. } => "backend_closes_mid_request",
            Cause::BackendAnswersBeforeBody => "backend_answers_before_body",
            Cause::BackendGarbage { .. } => "backend_garbage",
            Cause::BackendCutsResponse { at, .. } => {
                if matches!(at, CutPos::StatusLine(_) | CutPos::Headers(_)) { "backend_cuts_head" } else { "backend_cuts_body" }
            }
            Cause::BackendStallsMidResponse { .. } => "backend_stalls_mid_response",
            Cause::ClientStopsMidHead(_) => "client_stops_mid_head",
            Cause::ClientStopsMidBody(_) => "client_stops_mid_body",
            Cause::PerIpLimit => "per_ip_limit",
        }
    }
    fn is_fault(&self) -> bool {
        *self != Cause::Normal
    }
    fn host(&self) -> &'static str {
        match self {
            Cause::NoRoute => "nohost.lab",
            Cause::Deny => "deny.lab",
            Cause::NoBackend => "nb.lab",
            Cause::BackendRefuses => "rf.lab",
            Cause::BackendClosesAtAccept => "cb.lab",
            Cause::PerIpLimit => "lim.lab",
            _ => "c0.lab",
        }
    }
    /// the request is meant to reach the programmable backend of cluster c0
    fn uses_c0(&self) -> bool {
        self.host() == "c0.lab"
    }
}

#[derive(Clone, Debug, Serialize, Deserialize)]
pub struct Step {
    pub cause: Cause,
    /// request body (0 and not chunked = GET without body)
    pub req_len: usize,
    pub req_chunked: Option<Vec<usize>>,
    pub resp_len: usize,
    pub resp_framing: BodyFraming,
    /// the backend adds `Connection: close` to a Content-Length / chunked response (and closes after it)
    pub resp_conn_close: bool,
    /// the backend closes its keep-alive connection silently after the complete response
    pub backend_closes_after: bool,
    /// regression files only (never generated): the second half of the request body is itself a complete
    /// request `GET /smuggled` for cluster c0 (used with BackendAnswersBeforeBody and a Content-Length body)
    #[serde(default)]
    pub body_is_request: bool,
}

#[derive(Clone, Debug, Serialize, Deserialize)]
pub struct Case {
    pub seed: u64,
    /// use the listener whose 401/404/429/502/503/504 templates keep the client connection alive
    pub keepalive_answers: bool,
    pub steps: Vec<Step>,
    /// do not exclude the shapes of known findings (regression files of known findings set this)
    #[serde(default)]
    pub strict: bool,
}

fn chunk_sizes() -> impl Strategy<Value = Vec<usize>> {
    prop::collection::vec(prop_oneof![Just(1usize), 1usize..64, 64usize..5000, Just(16384), 5000usize..20000], 1..4)
}

fn body_len(max: usize) -> impl Strategy<Value = usize> {
    prop_oneof![2 => 0usize..3, 4 => 3usize..600, 2 => 600usize..max.max(601), 1 => prop_oneof![Just(16383usize), Just(16384), Just(16393), Just(16394)]]
}

fn cut_pos() -> impl Strategy<Value = CutPos> {
    prop_oneof![
        2 => any::<u32>().prop_map(CutPos::StatusLine),
        3 => any::<u32>().prop_map(CutPos::Headers),
        2 => Just(CutPos::HeadEnd),
        5 => any::<u32>().prop_map(CutPos::Body),
        2 => Just(CutPos::BodyMinus1),
    ]
}

fn fault() -> impl Strategy<Value = Cause> {
    prop_oneof![
        3 => Just(Cause::NoRoute),
        3 => Just(Cause::Deny),
        3 => Just(Cause::NoBackend),
        3 => Just(Cause::BackendRefuses),
        3 => Just(Cause::BackendClosesAtAccept),
        4 => any::<bool>().prop_map(|reset| Cause::BackendClosesWithoutAnswer { reset }),
        3 => Just(Cause::BackendStalls),
        2 => Just(Cause::BackendAnswersLate),
        4 => (any::<u32>(), any::<bool>()).prop_map(|(kind, linger)| Cause::BackendGarbage { kind, linger }),
        3 => any::<bool>().prop_map(|reset| Cause::BackendClosesMidRequest { reset }),
        3 => Just(Cause::BackendAnswersBeforeBody),
        12 => (cut_pos(), any::<bool>(), prop::bool::weighted(0.6)).prop_map(|(at, reset, pause)| Cause::BackendCutsResponse { at, reset, pause }),
        2 => cut_pos().prop_map(|at| Cause::BackendStallsMidResponse { at }),
        2 => any::<u32>().prop_map(Cause::ClientStopsMidHead),
        2 => any::<u32>().prop_map(Cause::ClientStopsMidBody),
        3 => Just(Cause::PerIpLimit),
    ]
}

fn step_with(cause: impl Strategy<Value = Cause>) -> impl Strategy<Value = Step> {
    (
        cause,
        (body_len(40_000), prop_oneof![3 => Just(None), 2 => chunk_sizes().prop_map(Some)]),
        (
            body_len(60_000),
            prop_oneof![4 => Just(BodyFraming::ContentLength), 4 => chunk_sizes().prop_map(BodyFraming::Chunked), 1 => Just(BodyFraming::CloseDelimited)],
            prop::bool::weighted(0.25),
            prop::bool::weighted(0.25),
        ),
    )
        .prop_map(|(cause, (req_len, req_chunked), (resp_len, resp_framing, resp_conn_close, backend_closes_after))| {
            normalise(Step { cause, req_len, req_chunked, resp_len, resp_framing, resp_conn_close, backend_closes_after, body_is_request: false })
        })
}

/// Make a step self-consistent (by construction, not by filtering).
fn normalise(mut s: Step) -> Step {
    match s.cause {
        Cause::Normal => {}
        Cause::BackendCutsResponse { .. } | Cause::BackendStallsMidResponse { .. } => {
            // a cut of a close-delimited response is a clean end by definition: only length-delimited framings
            if s.resp_framing == BodyFraming::CloseDelimited {
                s.resp_framing = BodyFraming::ContentLength;
            }
            s.resp_len = s.resp_len.max(2);
            s.req_len = s.req_len.min(1000);
            s.backend_closes_after = false;
        }
        Cause::ClientStopsMidBody(_) | Cause::BackendClosesMidRequest { .. } => {
            s.req_len = s.req_len.clamp(2, 1000);
            s.backend_closes_after = false;
        }
        Cause::BackendAnswersBeforeBody => {
            s.req_len = s.req_len.clamp(2, 1000);
        }
        _ => {
            // a proxy answer may close the connection while the request body is still in flight: the
            // kernel then resets and may discard the answer. Keep these requests in one small write.
            s.req_len = s.req_len.min(1000);
            s.backend_closes_after = false;
        }
    }
    if s.resp_framing == BodyFraming::CloseDelimited {
        s.resp_conn_close = false;
        s.backend_closes_after = false;
    }
    if s.resp_conn_close {
        s.backend_closes_after = false;
    }
    s
}

/// The four shapes that used to be excluded by construction are repaired in sozu (known_findings.jsonl,
/// `fixed`); generated cases now play them like the regression files do. Set VP_C02_EXCLUSIONS to get
/// the old steering back (for running against an old tree).
fn lenient(case: &Case) -> bool {
    !case.strict && std::env::var("VP_C02_EXCLUSIONS").is_ok()
}

pub fn strategy() -> impl Strategy<Value = Case> {
    (
        any::<u64>(),
        any::<bool>(),
        step_with(fault()),
        prop::collection::vec(step_with(prop_oneof![3 => Just(Cause::Normal), 2 => fault()]), 0..4),
        any::<u32>(),
    )
        .prop_map(|(seed, keepalive_answers, f, mut others, pos)| {
            let at = engine::pick_idx(pos, others.len() + 1);
            others.insert(at, f);
            Case { seed, keepalive_answers, steps: others, strict: false }
        })
}

// ------------------------------------------------------------------ lab

const FRONT_TIMEOUT: u32 = 3;
const BACK_TIMEOUT: u32 = 2;
const CONNECT_TIMEOUT: u32 = 1;
const REQUEST_TIMEOUT: u32 = 2;
/// what the property's "beyond the configured timeouts" is observed to
const SLACK: Duration = Duration::from_secs(3);

fn lab_config() -> LabConfig {
    LabConfig { front_timeout: FRONT_TIMEOUT, back_timeout: BACK_TIMEOUT, connect_timeout: CONNECT_TIMEOUT, request_timeout: REQUEST_TIMEOUT, ..LabConfig::default() }
}

/// What a programmable mock backend does with the request carrying `x-lab-req: <n>`.
#[derive(Clone, Debug)]
pub(crate) enum Act {
    Respond { bytes: Vec<u8>, cut: Option<usize>, reset: bool, pause_before_close: bool, stall_after_cut: bool, close_after: bool, delay_ms: u64 },
    CloseWithoutAnswer { reset: bool },
    Stall,
    Garbage { bytes: Vec<u8>, linger: bool },
    /// as soon as the request head is read
    CloseAtHead { reset: bool },
    /// as soon as the request head is read: the complete response; the request is read to its end afterwards
    RespondAtHead { bytes: Vec<u8>, close_after: bool },
}

#[derive(Clone, Debug)]
pub(crate) struct Rec {
    pub(crate) backend: usize,
    pub(crate) lab_req: Option<usize>,
    pub(crate) complete: bool,
    pub(crate) body: Vec<u8>,
    pub(crate) start_line: String,
    pub(crate) invalid: Option<String>,
}

#[derive(Default)]
pub(crate) struct Shared {
    pub(crate) actions: BTreeMap<usize, Act>,
    pub(crate) recorded: Vec<Rec>,
}

/// keep the connection open without sending anything until the peer closes it (or 20 s)
fn stall_until_peer_closes(s: &mut TcpStream) {
    let end = Instant::now() + Duration::from_secs(20);
    let mut tmp = [0u8; 4096];
    while Instant::now() < end {
        match s.read(&mut tmp) {
            Ok(0) => return,
            Ok(_) => {}
            Err(e) if matches!(e.kind(), std::io::ErrorKind::WouldBlock | std::io::ErrorKind::TimedOut | std::io::ErrorKind::Interrupted) => {}
            Err(_) => return,
        }
    }
}

pub(crate) fn serve(backend: usize, stream: TcpStream, shared: Arc<Mutex<Shared>>) {
    let mut w = stream.try_clone().expect("clone");
    let mut c = H1Conn::new(stream);
    loop {
        // ---- actions taken on the request head, before the body has arrived
        let mut answered_at_head: Option<bool> = None;
        let head_end = Instant::now() + Duration::from_secs(15);
        let head = loop {
            if let Some(p) = c.pending().windows(4).position(|x| x == b"\r\n\r\n") {
                break Some(String::from_utf8_lossy(&c.pending()[..p]).to_string());
            }
            if c.eof || Instant::now() >= head_end {
                break None;
            }
            let mut tmp = [0u8; 16384];
            match w.read(&mut tmp) {
                Ok(0) => c.eof = true,
                Ok(n) => {
                    c.buf.extend_from_slice(&tmp[..n]);
                    c.raw.extend_from_slice(&tmp[..n]);
                }
                Err(e) if matches!(e.kind(), std::io::ErrorKind::WouldBlock | std::io::ErrorKind::TimedOut | std::io::ErrorKind::Interrupted) => {}
                Err(_) => c.eof = true,
            }
        };
        if let Some(head) = head {
            let n = head.lines().find_map(|l| l.strip_prefix("x-lab-req: ").and_then(|v| v.trim().parse::<usize>().ok()));
            let at_head = n.and_then(|n| shared.lock().unwrap().actions.get(&n).cloned());
            match at_head {
                Some(Act::CloseAtHead { reset }) => {
                    shared.lock().unwrap().recorded.push(Rec { backend, lab_req: n, complete: false, body: vec![], start_line: head.lines().next().unwrap_or("").to_string(), invalid: None });
                    if reset {
                        drop(c);
                        h1::reset(w);
                    }
                    return;
                }
                Some(Act::RespondAtHead { bytes, close_after }) => {
                    let _ = w.write_all(&bytes);
                    let _ = w.flush();
                    answered_at_head = Some(close_after);
                }
                _ => {}
            }
        }
        let msg = match c.next_message(Kind::Request, Instant::now() + Duration::from_secs(15)) {
            ReadOutcome::Message(m) => m,
            ReadOutcome::Eof | ReadOutcome::IdleTimeout | ReadOutcome::Reset(_) => return,
            ReadOutcome::Invalid(why, bytes) => {
                // a request head that never completed is recorded as incomplete, anything else as garbage
                let text = String::from_utf8_lossy(&bytes).to_string();
                let lab_req = text.lines().find_map(|l| l.strip_prefix("x-lab-req: ").and_then(|v| v.trim().parse::<usize>().ok()));
                shared.lock().unwrap().recorded.push(Rec { backend, lab_req, complete: false, body: vec![], start_line: text.lines().next().unwrap_or("").to_string(), invalid: Some(why) });
                return;
            }
        };
        let lab_req = msg.header("x-lab-req").and_then(|v| v.trim().parse::<usize>().ok());
        let complete = msg.end == End::Clean;
        let action = {
            let mut g = shared.lock().unwrap();
            g.recorded.push(Rec { backend, lab_req, complete, body: msg.body.clone(), start_line: msg.start_line.clone(), invalid: None });
            lab_req.and_then(|n| g.actions.get(&n).cloned())
        };
        if !complete {
            return;
        }
        if let Some(close_after) = answered_at_head {
            if close_after {
                return;
            }
            continue;
        }
        let action = action.unwrap_or_else(|| Act::Respond { bytes: response_bytes(lab_req.unwrap_or(0), 0, 0, &BodyFraming::ContentLength, false).0, cut: None, reset: false, pause_before_close: false, stall_after_cut: false, close_after: false, delay_ms: 0 });
        match action {
            Act::CloseWithoutAnswer { reset } | Act::CloseAtHead { reset } => {
                if reset {
                    drop(c);
                    h1::reset(w);
                }
                return;
            }
            Act::RespondAtHead { .. } => return,
            Act::Stall => {
                stall_until_peer_closes(&mut w);
                return;
            }
            Act::Garbage { bytes, linger } => {
                let _ = w.write_all(&bytes);
                let _ = w.flush();
                if linger {
                    std::thread::sleep(Duration::from_millis(50));
                }
                return;
            }
            Act::Respond { bytes, cut, reset, pause_before_close, stall_after_cut, close_after, delay_ms } => {
                if delay_ms > 0 {
                    std::thread::sleep(Duration::from_millis(delay_ms));
                }
                let to_send = match cut {
                    Some(n) => &bytes[..n.min(bytes.len())],
                    None => &bytes[..],
                };
                let _ = w.write_all(to_send);
                let _ = w.flush();
                if cut.is_some() {
                    if stall_after_cut {
                        stall_until_peer_closes(&mut w);
                        return;
                    }
                    if pause_before_close {
                        std::thread::sleep(Duration::from_millis(30));
                    }
                    if reset {
                        drop(c);
                        h1::reset(w);
                    }
                    return;
                }
                if close_after {
                    return;
                }
            }
        }
    }
}

/// (serialised response, body) of the backend's 200 for request `n`
pub(crate) fn response_bytes(n: usize, seed: u64, len: usize, framing: &BodyFraming, conn_close: bool) -> (Vec<u8>, Vec<u8>) {
    let body = content(seed, len);
    let (extra, wire) = h1::encode_body(&body, framing, &[]);
    let mut hs: Vec<(String, String)> = vec![("x-lab-resp".into(), n.to_string())];
    hs.extend(extra);
    if conn_close && *framing != BodyFraming::CloseDelimited {
        hs.push(("Connection".into(), "close".into()));
    }
    let mut v = h1::build_head("HTTP/1.1 200 OK", &hs);
    v.extend_from_slice(&wire);
    (v, body)
}

/// an address that refuses connections for as long as the returned socket lives: bound, never listening
pub(crate) fn bound_not_listening() -> (SocketAddr, std::os::fd::OwnedFd) {
    use std::os::fd::{FromRawFd, OwnedFd};
    for _ in 0..50 {
        let addr = lab::free_addr();
        let fd = unsafe { libc::socket(libc::AF_INET, libc::SOCK_STREAM | libc::SOCK_CLOEXEC, 0) };
        assert!(fd >= 0, "harness: socket()");
        let owned = unsafe { OwnedFd::from_raw_fd(fd) };
        let sa = libc::sockaddr_in {
            sin_family: libc::AF_INET as libc::sa_family_t,
            sin_port: addr.port().to_be(),
            sin_addr: libc::in_addr { s_addr: u32::from_ne_bytes([127, 0, 0, 1]) },
            sin_zero: [0; 8],
        };
        let r = unsafe { libc::bind(fd, &sa as *const _ as *const libc::sockaddr, std::mem::size_of::<libc::sockaddr_in>() as u32) };
        if r == 0 {
            return (addr, owned);
        }
    }
    panic!("harness: could not bind a refusing address");
}

const KEEPALIVE_CODES: &[(u16, &str)] = &[(401, "Unauthorized"), (404, "Not Found"), (429, "Too Many Requests"), (502, "Bad Gateway"), (503, "Service Unavailable"), (504, "Gateway Timeout")];

fn keepalive_body(code: u16) -> String {
    format!("lab answer {code}")
}

pub struct Lab {
    pub worker: LabWorker,
    /// listener with sozu's default answers (all carry `Connection: close`)
    addr_close: SocketAddr,
    /// listener whose 401/404/429/502/503/504 templates carry a Content-Length and no `Connection: close`
    addr_keep: SocketAddr,
    _backends: Vec<Acceptor>,
    _refusing: std::os::fd::OwnedFd,
    shared: Arc<Mutex<Shared>>,
    scenario_no: usize,
}

impl Lab {
    pub fn new(name: &str) -> Lab {
        let mut worker = LabWorker::start(name, lab_config(), Listeners::default(), &ConfigState::new());
        let shared = Arc::new(Mutex::new(Shared::default()));
        let addr_close = lab::free_addr();
        worker.add_http_listener(addr_close, |_| {});
        let addr_keep = lab::free_addr();
        worker.add_http_listener(addr_keep, |l| {
            for (code, reason) in KEEPALIVE_CODES {
                let body = keepalive_body(*code);
                l.answers.insert(code.to_string(), format!("HTTP/1.1 {code} {reason}\r\nContent-Length: {}\r\nX-Lab-Answer: {code}\r\n\r\n{body}", body.len()));
            }
        });
        let mut backends = vec![];
        // c0: programmable backend 0; lim: programmable backend 1, one connection per source address
        for (i, cluster) in ["c0", "lim"].iter().enumerate() {
            worker.add_cluster(cluster, |c| {
                if *cluster == "lim" {
                    c.max_connections_per_ip = Some(1);
                }
            });
            let (addr, listener) = lab::bound_listener();
            worker.add_backend(cluster, &format!("{cluster}-0"), addr);
            let sh = shared.clone();
            backends.push(Acceptor::spawn(listener, move |_conn, stream| serve(i, stream, sh.clone())));
        }
        // cb: the backend accepts and closes at once
        worker.add_cluster("cb", |_| {});
        let (addr, listener) = lab::bound_listener();
        worker.add_backend("cb", "cb-0", addr);
        backends.push(Acceptor::spawn(listener, move |_conn, stream| drop(stream)));
        // rf: the backend address refuses connections
        worker.add_cluster("rf", |_| {});
        let (addr, refusing) = bound_not_listening();
        worker.add_backend("rf", "rf-0", addr);
        // nb: no backend at all
        worker.add_cluster("nb", |_| {});
        for listener in [addr_close, addr_keep] {
            for cluster in ["c0", "lim", "cb", "rf", "nb"] {
                worker.add_http_frontend(cluster, listener, &format!("{cluster}.lab"), "/");
            }
            // a frontend without a cluster denies
            worker.must(RequestType::AddHttpFrontend(RequestHttpFrontend {
                cluster_id: None,
                address: listener.into(),
                hostname: "deny.lab".to_string(),
                path: PathRule::prefix("/".to_string()),
                position: RulePosition::Tree.into(),
                ..Default::default()
            }));
        }
        Lab { worker, addr_close, addr_keep, _backends: backends, _refusing: refusing, shared, scenario_no: 0 }
    }

    fn recorded(&self) -> Vec<Rec> {
        self.shared.lock().unwrap().recorded.clone()
    }
}

// ------------------------------------------------------------------ client side

struct Client {
    w: TcpStream,
    conn: H1Conn<TcpStream>,
    /// requests answered so far on this connection
    served: usize,
}

fn open(addr: SocketAddr) -> Result<Client, Failure> {
    match h1::connect(addr, Duration::from_secs(2)) {
        Ok(s) => {
            let w = s.try_clone().expect("clone");
            Ok(Client { w, conn: H1Conn::new(s), served: 0 })
        }
        Err(e) => Err(Failure::new("C02/connect-refused", format!("connect to the HTTP listener {addr} failed: {e}"))),
    }
}

fn request_bytes(n: usize, host: &str, body: &[u8], chunked: &Option<Vec<usize>>) -> (Vec<u8>, usize) {
    let mut headers = vec![("Host".to_string(), host.to_string()), ("x-lab-req".to_string(), n.to_string())];
    let (method, wire) = if body.is_empty() && chunked.is_none() {
        ("GET", vec![])
    } else {
        let framing = match chunked {
            Some(sizes) => BodyFraming::Chunked(sizes.clone()),
            None => BodyFraming::ContentLength,
        };
        let (extra, wire) = h1::encode_body(body, &framing, &[]);
        headers.extend(extra);
        ("POST", wire)
    };
    let mut bytes = h1::build_head(&format!("{method} /r{n} HTTP/1.1"), &headers);
    let head_len = bytes.len();
    bytes.extend_from_slice(&wire);
    (bytes, head_len)
}

/// byte offset of a cut in a serialised response
pub(crate) fn cut_offset(bytes: &[u8], at: &CutPos) -> usize {
    let total = bytes.len();
    let sl = bytes.windows(2).position(|w| w == b"\r\n").expect("status line");
    let head_len = bytes.windows(4).position(|w| w == b"\r\n\r\n").expect("head") + 4;
    match at {
        CutPos::StatusLine(f) => 1 + engine::pick_idx(*f, sl),
        CutPos::Headers(f) => sl + 1 + engine::pick_idx(*f, head_len - sl - 1),
        CutPos::HeadEnd => head_len,
        CutPos::Body(f) => (head_len + 1 + engine::pick_idx(*f, total.saturating_sub(head_len + 1))).min(total - 1),
        CutPos::BodyMinus1 => total - 1,
    }
}

pub(crate) const GARBAGE: &[&[u8]] = &[
    b"\x00\x01\x02\x03\xff\xfe binary \r\n\r\n",
    b"SSH-2.0-OpenSSH_9.6\r\n",
    b"GET / HTTP/1.1\r\nHost: this.is.a.request\r\n\r\n",
    b"200 OK\r\nContent-Length: 0\r\n\r\n",
    b"\r\n\r\n\r\n<html>no head</html>",
    b"HTTP/1.1 two hundred OK\r\nContent-Length: 0\r\n\r\n",
];

/// How the read of one answer ended, reduced to what the oracle distinguishes.
enum Got {
    /// a complete message by its own framing
    Clean(H1Message),
    /// the connection ended before a complete message: an abort. `partial` is what was readable of the message.
    Abort { partial: Option<H1Message>, bytes_seen: usize, how: String },
    /// the deadline passed with the connection still open and no complete message
    Nothing(String),
    /// bytes that are not an HTTP/1.1 response by the strict reading, connection aside
    Invalid(String),
}

fn read_answer(c: &mut Client, deadline: Instant) -> Got {
    let before = c.conn.raw.len();
    let out = c.conn.next_message(Kind::Response { head_request: false }, deadline);
    let seen = c.conn.raw.len() - before;
    let text = h1::describe(&out);
    match out {
        ReadOutcome::Message(m) => match &m.end {
            End::Clean => Got::Clean(m),
            End::Truncated(why) => {
                if c.conn.eof {
                    Got::Abort { how: why.clone(), bytes_seen: seen, partial: Some(m) }
                } else {
                    Got::Nothing(format!("{text}; the connection is still open"))
                }
            }
        },
        ReadOutcome::Eof => Got::Abort { partial: None, bytes_seen: 0, how: "closed without a byte".into() },
        ReadOutcome::Reset(b) => Got::Abort { partial: None, bytes_seen: b.len().max(seen), how: "connection reset".into() },
        ReadOutcome::IdleTimeout => Got::Nothing(text),
        ReadOutcome::Invalid(why, _) => {
            if c.conn.eof && why.starts_with("connection closed inside a message head") {
                Got::Abort { partial: None, bytes_seen: seen, how: why }
            } else if why.starts_with("deadline passed") {
                Got::Nothing(text)
            } else {
                Got::Invalid(format!("{text}; everything received for this request: {:?}", engine::truncate(&String::from_utf8_lossy(&c.conn.raw[before..]), 900)))
            }
        }
    }
}

/// status code of a second `HTTP/1.1 <code>` status line in the bytes received for one request
fn second_status_line(raw: &[u8]) -> Option<u16> {
    let pat = b"HTTP/1.1 ";
    let mut hits = raw.windows(pat.len()).enumerate().filter(|(_, w)| w == pat).map(|(i, _)| i);
    let _first = hits.next()?;
    let second = hits.next()?;
    std::str::from_utf8(raw.get(second + pat.len()..second + pat.len() + 3)?).ok()?.parse().ok()
}

fn describe_got(g: &Got) -> String {
    match g {
        Got::Clean(m) => format!("a complete message {:?} ({} body bytes, framing {:?}, headers {:?})", m.start_line, m.body.len(), m.framing, m.headers),
        Got::Abort { partial, bytes_seen, how } => format!(
            "an abort ({how}) after {bytes_seen} bytes{}",
            partial.as_ref().map(|m| format!(" of {:?} ({} body bytes, framing {:?})", m.start_line, m.body.len(), m.framing)).unwrap_or_default()
        ),
        Got::Nothing(t) => format!("no answer before the deadline ({t})"),
        Got::Invalid(t) => format!("bytes that are not HTTP/1.1 ({t})"),
    }
}

/// A proxy-generated answer must be a well-formed HTTP/1.1 response of the given status.
fn check_proxy_answer(i: usize, cause: &str, m: &H1Message, keepalive_listener: bool) -> Result<(), Failure> {
    let code = m.status().unwrap_or(0);
    if !m.start_line.starts_with("HTTP/1.1 ") || m.start_line.len() < 12 {
        fail!("C02/proxy-answer-malformed", "request {i} ({cause}): status line {:?}", m.start_line);
    }
    if !m.complaints.is_empty() {
        fail!("C02/proxy-answer-malformed", "request {i} ({cause}): answer {:?} has framing defects: {:?}", m.start_line, m.complaints);
    }
    let announces_close = m.headers_named("connection").iter().any(|v| v.to_ascii_lowercase().split(',').any(|t| t.trim() == "close"));
    if m.framing == Framing::UntilClose && !announces_close {
        fail!("C02/proxy-answer-malformed", "request {i} ({cause}): answer {:?} has neither a length nor `Connection: close`: {:?}", m.start_line, m.headers);
    }
    if m.body.windows(9).any(|w| w == b"HTTP/1.1 ") {
        fail!("C02/second-response", "request {i} ({cause}): the body of the {code} answer contains another status line: {:?}", engine::truncate(&String::from_utf8_lossy(&m.body), 600));
    }
    if keepalive_listener && KEEPALIVE_CODES.iter().any(|(c, _)| *c == code) && m.body != keepalive_body(code).as_bytes() {
        fail!("C02/proxy-answer-malformed", "request {i} ({cause}): the listener's {code} template has the body {:?}, the client received {:?}", keepalive_body(code), engine::truncate(&String::from_utf8_lossy(&m.body), 300));
    }
    Ok(())
}

fn announces_close(m: &H1Message) -> bool {
    m.framing == Framing::UntilClose || m.headers_named("connection").iter().any(|v| v.to_ascii_lowercase().split(',').any(|t| t.trim() == "close"))
}

/// After an answer that ends the connection: nothing but the close may follow.
fn expect_nothing_more(i: usize, cause: &str, c: &mut Client, rep_classes: &mut Vec<&'static str>) -> Result<(), Failure> {
    match c.conn.next_message(Kind::Response { head_request: false }, Instant::now() + Duration::from_millis(400)) {
        ReadOutcome::Eof | ReadOutcome::Reset(_) => Ok(()),
        ReadOutcome::IdleTimeout => {
            rep_classes.push("close_announced_but_connection_left_open");
            Ok(())
        }
        other => Err(Failure::new("C02/second-response", format!("request {i} ({cause}): after the answer that ends the use of this connection, the client received more: {}", h1::describe(&other)))),
    }
}

pub fn scenario(lab: &mut Lab, case: &Case) -> CheckResult {
    let mut rep = CaseReport::default();
    if !lab.worker.alive() {
        return Err(Failure::new("C02/worker-died", format!("the worker thread is gone: {:?}", lab.worker.join())));
    }
    if case.steps.is_empty() || case.steps.len() > 8 {
        return Ok(rep);
    }
    lab.scenario_no += 1;
    let base = lab.scenario_no * 32;
    let addr = if case.keepalive_answers { lab.addr_keep } else { lab.addr_close };
    let mut classes: Vec<&'static str> = vec![];
    let mut owned_classes: Vec<String> = vec![];

    // ---- plan the backend's behaviour
    struct Plan {
        n: usize,
        resp_body: Vec<u8>,
        req_body: Vec<u8>,
        cut: Option<usize>,
        resp_total: usize,
        resp_head_len: usize,
        /// `Connection: close` on the backend's response as played
        conn_close: bool,
    }
    let mut excluded = 0u64;
    let mut plans: Vec<Plan> = vec![];
    {
        let mut actions = BTreeMap::new();
        for (i, s) in case.steps.iter().enumerate() {
            let n = base + i;
            let resp_seed = case.seed ^ (0xA000 + i as u64);
            let mut conn_close = s.resp_conn_close;
            let (mut bytes, resp_body) = response_bytes(n, resp_seed, s.resp_len, &s.resp_framing, conn_close);
            let mut req_body = content(case.seed ^ (0xB000 + i as u64), s.req_len);
            if s.body_is_request && s.req_chunked.is_none() {
                let inner = format!("GET /smuggled HTTP/1.1\r\nHost: c0.lab\r\nx-lab-req: {}\r\n\r\n", base + 24 + i).into_bytes();
                req_body = content(case.seed ^ (0xB000 + i as u64), inner.len());
                req_body.extend_from_slice(&inner);
            }
            let head_len_of = |b: &[u8]| b.windows(4).position(|w| w == b"\r\n\r\n").map(|p| p + 4).unwrap_or(b.len());
            let mut cut = None;
            if let Cause::BackendCutsResponse { at, .. } = &s.cause {
                // known findings C02/proxy-answer-appended-to-started-response and
                // C02/truncated-body-presented-complete: a response that carries `Connection: close` and is
                // cut after its head. Excluded by construction: the same cut is played without the header.
                if conn_close && lenient(case) && cut_offset(&bytes, at) >= head_len_of(&bytes) {
                    conn_close = false;
                    excluded += 1;
                    bytes = response_bytes(n, resp_seed, s.resp_len, &s.resp_framing, false).0;
                }
                cut = Some(cut_offset(&bytes, at));
            }
            if let Cause::BackendStallsMidResponse { at } = &s.cause {
                cut = Some(cut_offset(&bytes, at));
            }
            let resp_head_len = head_len_of(&bytes);
            let resp_total = bytes.len();
            let act = match &s.cause {
                Cause::BackendClosesWithoutAnswer { reset } => Some(Act::CloseWithoutAnswer { reset: *reset }),
                Cause::BackendStalls => Some(Act::Stall),
                Cause::BackendGarbage { kind, linger } => Some(Act::Garbage { bytes: GARBAGE[engine::pick_idx(*kind, GARBAGE.len())].to_vec(), linger: *linger }),
                Cause::BackendCutsResponse { reset, pause, .. } => Some(Act::Respond { bytes, cut, reset: *reset, pause_before_close: *pause, stall_after_cut: false, close_after: true, delay_ms: 0 }),
                Cause::BackendStallsMidResponse { .. } => Some(Act::Respond { bytes, cut, reset: false, pause_before_close: false, stall_after_cut: true, close_after: true, delay_ms: 0 }),
                Cause::BackendClosesMidRequest { reset } => Some(Act::CloseAtHead { reset: *reset }),
                Cause::BackendAnswersBeforeBody => Some(Act::RespondAtHead { bytes, close_after: conn_close || s.resp_framing == BodyFraming::CloseDelimited }),
                Cause::BackendAnswersLate => Some(Act::Respond {
                    bytes,
                    cut: None,
                    reset: false,
                    pause_before_close: false,
                    stall_after_cut: false,
                    close_after: conn_close || s.resp_framing == BodyFraming::CloseDelimited,
                    delay_ms: BACK_TIMEOUT as u64 * 1000 + 700,
                }),
                Cause::Normal => Some(Act::Respond {
                    bytes,
                    cut: None,
                    reset: false,
                    pause_before_close: false,
                    stall_after_cut: false,
                    close_after: s.backend_closes_after || conn_close || s.resp_framing == BodyFraming::CloseDelimited,
                    delay_ms: 0,
                }),
                // the request must not reach a programmable backend, or reaches it incomplete
                _ => None,
            };
            if let Some(a) = act {
                actions.insert(n, a);
            }
            plans.push(Plan { n, resp_body, req_body, cut, resp_total, resp_head_len, conn_close });
        }
        let mut g = lab.shared.lock().unwrap();
        g.actions = actions;
        g.recorded.clear();
    }

    // ---- play the steps
    let mut client: Option<Client> = None;
    // the previous request on this client connection left sozu with a backend keep-alive connection
    // that the backend has closed since
    let mut backend_conn_silently_closed = false;
    // the previous request on this client connection ended in a backend timeout answered with a
    // keep-alive 504: is the timed-out backend connection out of use?
    let mut after_keepalive_504 = false;
    let mut incomplete_at_backend_expected: Vec<usize> = vec![];
    let mut must_not_reach_backend: Vec<usize> = vec![];
    let mut must_reach_backend: Vec<(usize, &'static str)> = vec![];
    let mut normal_ok: Vec<usize> = vec![];

    for (i, s) in case.steps.iter().enumerate() {
        let p = &plans[i];
        let label = s.cause.label();
        let reused_connection = client.is_some();
        if client.is_none() {
            client = Some(open(addr)?);
            backend_conn_silently_closed = false;
            after_keepalive_504 = false;
        }
        let race_502 = backend_conn_silently_closed && s.cause.uses_c0();
        let mut answered_504 = false;
        let step: Result<bool, Failure> = (|| -> Result<bool, Failure> {
            let first_on_conn = client.as_ref().unwrap().served == 0;
            let (bytes, head_len) = request_bytes(p.n, s.cause.host(), &p.req_body, &s.req_chunked);

            // a connection of the same source address that holds the only slot of cluster `lim`
            let mut holder: Option<Client> = None;
            if s.cause == Cause::PerIpLimit {
                for attempt in 0..20 {
                    let mut h = open(addr)?;
                    let (hb, _) = request_bytes(base + 16 + i, "lim.lab", &[], &None);
                    let _ = h.w.write_all(&hb);
                    match read_answer(&mut h, Instant::now() + Duration::from_secs(5)) {
                        Got::Clean(m) if m.status() == Some(200) => {
                            holder = Some(h);
                            break;
                        }
                        // the slot of a connection closed a moment ago has not been released yet
                        Got::Clean(m) if m.status() == Some(429) && attempt < 19 => std::thread::sleep(Duration::from_millis(30)),
                        other => fail!("C02/per-ip-slot-not-acquired", "request {i}: the first connection to the limited cluster was not served: {}", describe_got(&other)),
                    }
                }
            }

            // what is written
            let to_write: &[u8] = match &s.cause {
                Cause::ClientStopsMidHead(f) => &bytes[..1 + engine::pick_idx(*f, head_len - 1)],
                Cause::ClientStopsMidBody(f) => &bytes[..head_len + engine::pick_idx(*f, bytes.len() - head_len)],
                Cause::BackendClosesMidRequest { .. } | Cause::BackendAnswersBeforeBody => &bytes[..head_len + (bytes.len() - head_len) / 2],
                _ => &bytes[..],
            };
            let c = client.as_mut().unwrap();
            if let Err(e) = h1::write_all(&mut c.w, to_write) {
                fail!("C02/client-write-failed", "request {i} ({label}): writing the request failed: {e} (connection reused: {reused_connection})");
            }
            let sent_at = Instant::now();
            let governing = match &s.cause {
                Cause::BackendStalls | Cause::BackendAnswersLate => Duration::from_secs(BACK_TIMEOUT as u64),
                // observed: once a response has started, the backend timeout ends the backend side only; the
                // client connection is closed by the front timeout that follows (the same holds after a cut:
                // the abort reaches the client with the front timeout)
                Cause::BackendStallsMidResponse { .. } => Duration::from_secs((BACK_TIMEOUT + FRONT_TIMEOUT) as u64),
                Cause::ClientStopsMidHead(_) => Duration::from_secs(if first_on_conn { REQUEST_TIMEOUT } else { FRONT_TIMEOUT } as u64),
                Cause::ClientStopsMidBody(_) | Cause::BackendCutsResponse { .. } => Duration::from_secs(FRONT_TIMEOUT.max(BACK_TIMEOUT) as u64),
                Cause::BackendRefuses | Cause::BackendClosesAtAccept | Cause::BackendClosesMidRequest { .. } => Duration::from_secs(CONNECT_TIMEOUT as u64),
                Cause::Normal | Cause::BackendAnswersBeforeBody => Duration::from_secs(4),
                _ => Duration::ZERO,
            };
            let raw_before = c.conn.raw.len();
            let got = read_answer(c, sent_at + governing + SLACK);
            let took = sent_at.elapsed();
            let what = describe_got(&got);
            let ctx = format!(
                "request {i} of {} ({label}{}, {} on its connection, listener with {} answers, after {:.2} s)",
                case.steps.len(),
                match &s.cause {
                    Cause::BackendCutsResponse { reset, pause, .. } => format!(
                        ": {} response{} of {} bytes cut at {} (head {} bytes), {}{}",
                        s.resp_framing_name(),
                        if p.conn_close { " with `Connection: close`" } else { "" },
                        p.resp_total,
                        p.cut.unwrap_or(0),
                        p.resp_head_len,
                        if *reset { "RST" } else { "FIN" },
                        if *pause { " 30 ms later" } else { " at once" }
                    ),
                    Cause::BackendStallsMidResponse { .. } => format!(": {} response of {} bytes stops at {} (head {} bytes)", s.resp_framing_name(), p.resp_total, p.cut.unwrap_or(0), p.resp_head_len),
                    Cause::ClientStopsMidHead(_) | Cause::ClientStopsMidBody(_) | Cause::BackendClosesMidRequest { .. } | Cause::BackendAnswersBeforeBody => {
                        format!(": {} of {} request bytes sent (head {head_len})", to_write.len(), bytes.len())
                    }
                    _ => String::new(),
                },
                if first_on_conn { "first".to_string() } else { format!("number {}", c.served + 1) },
                if case.keepalive_answers { "keep-alive" } else { "default" },
                took.as_secs_f64()
            );
            // a proxy answer written behind a response that had already started
            let appended = second_status_line(&c.conn.raw[raw_before..]);
            let raw_text = |c: &Client| engine::truncate(&String::from_utf8_lossy(&c.conn.raw[raw_before..]), 500);
            if let Got::Nothing(_) = &got {
                fail!(format!("C02/unanswered-beyond-timeout:{label}"), "{ctx}: {what}; governing timeout {} s + {} s", governing.as_secs(), SLACK.as_secs());
            }
            if let Got::Invalid(_) = &got {
                if let Some(code) = appended {
                    fail!(format!("C02/proxy-answer-appended-to-started-response:{code}"), "{ctx}: a {code} answer was written behind the response that had already started: {what}");
                }
                fail!(format!("C02/answer-not-http:{label}"), "{ctx}: {what}");
            }

            // ---- the admissible set for this cause
            let mut keep_connection = false;
            let status_of = |g: &Got| -> String {
                match g {
                    Got::Clean(m) => m.status().map(|s| s.to_string()).unwrap_or_else(|| "none".into()),
                    Got::Abort { .. } => "abort".into(),
                    _ => "none".into(),
                }
            };
            // the backend closed its idle keep-alive connection after the previous response and the proxy used
            // it again: two causes at once, a 502 for this request is admissible whatever its own cause
            if race_502 {
                if let Got::Clean(m) = &got {
                    if m.status() == Some(502) {
                        check_proxy_answer(i, label, m, case.keepalive_answers)?;
                        classes.push("close_between_keepalive->502");
                        if matches!(s.cause, Cause::ClientStopsMidHead(_) | Cause::ClientStopsMidBody(_) | Cause::BackendClosesMidRequest { .. } | Cause::BackendAnswersBeforeBody) {
                            // the connection holds half a request: the client gives it up
                            incomplete_at_backend_expected.push(i);
                            return Ok(false);
                        }
                        let keep = !announces_close(m);
                        if !keep {
                            expect_nothing_more(i, label, c, &mut classes)?;
                        }
                        return Ok(keep);
                    }
                }
            }
            match &s.cause {
                Cause::BackendAnswersBeforeBody => match &got {
                    Got::Clean(m) if m.status() == Some(200) => {
                        if m.header("x-lab-resp") != Some(p.n.to_string().as_str()) {
                            fail!("C02/response-of-another-request", "{ctx}: answered with the response of request {:?} (this one is {})", m.header("x-lab-resp"), p.n);
                        }
                        if let Some(off) = first_mismatch(&m.body, &p.resp_body) {
                            fail!("C02/relayed-body-differs", "{ctx}: the backend sent a {}-byte body ({}), the client received {} bytes ending cleanly (framing {:?}); first difference at offset {off}", p.resp_body.len(), s.resp_framing_name(), m.body.len(), m.framing);
                        }
                        keep_connection = !announces_close(m);
                        if lenient(case) {
                            // (repaired) finding C02/rest-of-request-answered-as-new-request, formerly excluded by construction:
                            // the client does not send the rest of its request and gives the connection up
                            excluded += 1;
                            classes.push("early_answer->client_gives_up(known)");
                            return Ok(false);
                        }
                        // the client now finishes its request; the proxy may close the connection (it answered
                        // before the request ended) or swallow the rest, but must not answer it as a new request
                        let rest_written = h1::write_all(&mut c.w, &bytes[to_write.len()..]).is_ok();
                        match c.conn.next_message(Kind::Response { head_request: false }, Instant::now() + Duration::from_millis(if keep_connection { 120 } else { 400 })) {
                            ReadOutcome::IdleTimeout => {
                                classes.push(if keep_connection { "early_answer->connection_kept" } else { "close_announced_but_connection_left_open" });
                            }
                            ReadOutcome::Eof | ReadOutcome::Reset(_) => {
                                classes.push("early_answer->connection_closed");
                                keep_connection = false;
                            }
                            other => {
                                std::thread::sleep(Duration::from_millis(20));
                                let seen: Vec<(String, bool, usize)> = lab.shared.lock().unwrap().recorded.iter().map(|r| (r.start_line.clone(), r.complete, r.body.len())).collect();
                                fail!(
                                    "C02/rest-of-request-answered-as-new-request",
                                    "{ctx}: the response was relayed before the request body had ended; the client then sent the remaining {} body bytes (write ok: {rest_written}) and received a second answer: {}{}",
                                    bytes.len() - to_write.len(),
                                    h1::describe(&other),
                                    if s.body_is_request { format!("; messages read by the backend (start line, complete, body bytes): {seen:?}") } else { String::new() }
                                )
                            }
                        }
                    }
                    _ => fail!(format!("C02/status-for-cause:{label}:{}", status_of(&got)), "{ctx}: expected the backend's 200 with its {}-byte body, got {what}", p.resp_body.len()),
                },
                Cause::Normal => {
                    match &got {
                        Got::Clean(m) if m.status() == Some(200) => {
                            if m.header("x-lab-resp") != Some(p.n.to_string().as_str()) {
                                fail!("C02/response-of-another-request", "{ctx}: answered with the response of request {:?} (this one is {})", m.header("x-lab-resp"), p.n);
                            }
                            if let Some(off) = first_mismatch(&m.body, &p.resp_body) {
                                fail!(
                                    "C02/relayed-body-differs",
                                    "{ctx}: the backend sent a {}-byte body ({}), the client received {} bytes ending cleanly (framing {:?}); first difference at offset {off}",
                                    p.resp_body.len(),
                                    s.resp_framing_name(),
                                    m.body.len(),
                                    m.framing
                                );
                            }
                            normal_ok.push(i);
                            keep_connection = !announces_close(m);
                            if !keep_connection {
                                expect_nothing_more(i, label, c, &mut classes)?;
                            }
                        }
                        _ => fail!(format!("C02/status-for-cause:{label}:{}", status_of(&got)), "{ctx}: expected the backend's 200 with its {}-byte body, got {what}", p.resp_body.len()),
                    }
                    if race_502 && normal_ok.contains(&i) {
                        classes.push("close_between_keepalive->200");
                    }
                }
                Cause::BackendCutsResponse { .. } | Cause::BackendStallsMidResponse { .. } => {
                    must_reach_backend.push((i, label));
                    let cut = p.cut.unwrap_or(0);
                    let head_complete = cut >= p.resp_head_len;
                    match &got {
                        // a 502 as the only answer: nothing of the backend's response had been relayed
                        Got::Clean(m) if m.status() == Some(502) => {
                            check_proxy_answer(i, label, m, case.keepalive_answers)?;
                            classes.push(if head_complete { "cut_in_body->502_nothing_relayed" } else { "cut_in_head->502" });
                            keep_connection = !announces_close(m);
                            if !keep_connection {
                                expect_nothing_more(i, label, c, &mut classes)?;
                            }
                        }
                        // a 504 as the only answer to a backend gone silent: nothing had been relayed
                        Got::Clean(m) if m.status() == Some(504) && matches!(s.cause, Cause::BackendStallsMidResponse { .. }) => {
                            check_proxy_answer(i, label, m, case.keepalive_answers)?;
                            classes.push(if head_complete { "stall_in_body->504_nothing_relayed" } else { "stall_in_head->504" });
                            answered_504 = true;
                            keep_connection = !announces_close(m);
                            if !keep_connection {
                                expect_nothing_more(i, label, c, &mut classes)?;
                            }
                        }
                        Got::Clean(m) if m.status() == Some(200) => {
                            // a clean end is admissible only when nothing of the body is missing
                            if m.body != p.resp_body {
                                fail!(
                                    format!("C02/truncated-body-presented-complete:{}", s.resp_framing_name()),
                                    "{ctx}: the backend declared a {}-byte body and went away after {} of its {} response bytes; the client received a response that ends cleanly by its own framing ({:?}) with {} body bytes; everything received: {:?}",
                                    p.resp_body.len(),
                                    cut,
                                    p.resp_total,
                                    m.framing,
                                    m.body.len(),
                                    raw_text(c)
                                );
                            }
                            classes.push("cut_after_all_body_data->complete");
                            keep_connection = false;
                        }
                        Got::Abort { partial, bytes_seen, .. } => {
                            if let Some(code) = appended {
                                fail!(format!("C02/proxy-answer-appended-to-started-response:{code}"), "{ctx}: a {code} answer was written behind the response that had already started: {what}; everything received: {:?}", raw_text(c));
                            }
                            if let Some(m) = partial {
                                if m.status() != Some(200) || m.header("x-lab-resp") != Some(p.n.to_string().as_str()) {
                                    fail!("C02/aborted-answer-is-not-the-backends", "{ctx}: the aborted answer is not the backend's response head: {what}");
                                }
                                if m.body.len() > p.resp_body.len() || first_mismatch(&m.body, &p.resp_body[..m.body.len()]).is_some() {
                                    fail!("C02/aborted-body-not-a-prefix", "{ctx}: the {} body bytes received before the abort are not a prefix of the backend's body", m.body.len());
                                }
                            }
                            classes.push(if !head_complete {
                                "cut_in_head->abort"
                            } else if *bytes_seen == 0 {
                                "cut_in_body->abort_before_any_byte"
                            } else {
                                "cut_in_body->abort_after_partial_relay"
                            });
                        }
                        _ => fail!(format!("C02/status-for-cause:{label}:{}", status_of(&got)), "{ctx}: expected 502 (nothing relayed yet) or an abort by closing the connection, got {what}"),
                    }
                }
                Cause::ClientStopsMidHead(_) | Cause::ClientStopsMidBody(_) => {
                    incomplete_at_backend_expected.push(i);
                    match &got {
                        Got::Clean(m) if m.status() == Some(408) => {
                            check_proxy_answer(i, label, m, case.keepalive_answers)?;
                            if !announces_close(m) {
                                fail!("C02/408-keeps-connection", "{ctx}: the 408 does not announce the close of a connection that holds half a request: {:?}", m.headers);
                            }
                            expect_nothing_more(i, label, c, &mut classes)?;
                        }
                        // The property speaks of requests sozu has FULLY received; for a request the client never
                        // finished it prescribes no status. Once the head is routed sozu answers such a client from
                        // its backend-timeout arm (504) instead of 408: admitted (an earlier version of this check
                        // demanded 408 and was wrong to). The rest of the oracle (one well-formed answer in time,
                        // nothing complete at the backend, later requests served) still applies.
                        Got::Clean(m) if m.status() == Some(504) && matches!(s.cause, Cause::ClientStopsMidBody(_)) => {
                            check_proxy_answer(i, label, m, case.keepalive_answers)?;
                            classes.push("client_stops_mid_body->504");
                            // the connection holds half a request: the client gives it up
                        }
                        _ => fail!(format!("C02/status-for-cause:{label}:{}", status_of(&got)), "{ctx}: expected 408, got {what}"),
                    }
                }
                other => {
                    let admissible: &[u16] = match other {
                        Cause::NoRoute => &[404],
                        Cause::Deny => &[401],
                        Cause::NoBackend | Cause::BackendRefuses => &[503],
                        Cause::BackendClosesAtAccept | Cause::BackendClosesMidRequest { .. } => &[502, 503],
                        Cause::BackendClosesWithoutAnswer { .. } | Cause::BackendGarbage { .. } => &[502],
                        Cause::BackendStalls | Cause::BackendAnswersLate => &[504],
                        Cause::PerIpLimit => &[429],
                        _ => unreachable!(),
                    };
                    if matches!(other, Cause::BackendClosesMidRequest { .. }) {
                        incomplete_at_backend_expected.push(i);
                    } else if other.uses_c0() {
                        must_reach_backend.push((i, label));
                    } else {
                        must_not_reach_backend.push(i);
                    }
                    match &got {
                        Got::Clean(m) if m.status().map(|st| admissible.contains(&st)).unwrap_or(false) => {
                            check_proxy_answer(i, label, m, case.keepalive_answers)?;
                            let st = m.status().unwrap_or(0);
                            if *other == Cause::BackendClosesAtAccept {
                                classes.push(if st == 502 { "closes_at_accept->502" } else { "closes_at_accept->503" });
                            }
                            answered_504 = st == 504;
                            keep_connection = !announces_close(m);
                            if matches!(other, Cause::BackendClosesMidRequest { .. }) && keep_connection {
                                // a keep-alive answer on a connection that holds half a request: the client gives it
                                // up. Known finding C02/rest-of-request-answered-as-new-request: the half body left
                                // in the proxy's buffer is answered with a 400 of its own; not looked at unless strict.
                                keep_connection = false;
                                if !lenient(case) {
                                    if let Err(f) = expect_nothing_more(i, label, c, &mut classes) {
                                        fail!("C02/rest-of-request-answered-as-new-request", "{ctx}: answered {st} without `Connection: close` while half of the request body had arrived; {}", f.message);
                                    }
                                } else {
                                    excluded += 1;
                                }
                            } else if !keep_connection {
                                expect_nothing_more(i, label, c, &mut classes)?;
                            }
                        }
                        _ => fail!(format!("C02/status-for-cause:{label}:{}", status_of(&got)), "{ctx}: expected {admissible:?}, got {what}"),
                    }
                }
            }
            drop(holder);
            Ok(keep_connection)
        })();
        let mut keep_connection = match step {
            Ok(k) => k,
            // known finding: whatever goes wrong with a request to the same cluster right after a keep-alive 504
            // is the timed-out backend connection being used again
            Err(f) if after_keepalive_504 && s.cause.uses_c0() => {
                return Err(Failure::new(
                    "C02/timed-out-backend-connection-reused",
                    format!("the previous request on this client connection ended in a backend timeout answered with a keep-alive 504; this one went wrong: [{}] {}", f.signature, f.message),
                ));
            }
            Err(f) => return Err(f),
        };
        if let Some(c) = client.as_mut() {
            c.served += 1;
        }
        after_keepalive_504 = answered_504 && keep_connection;
        if after_keepalive_504 && lenient(case) && i + 1 < case.steps.len() {
            // known finding C02/timed-out-backend-connection-reused, excluded by construction: the client
            // does not use this connection again
            excluded += 1;
            keep_connection = false;
            classes.push("keepalive_504_then_new_connection(known)");
        }
        backend_conn_silently_closed = keep_connection && s.cause == Cause::Normal && s.backend_closes_after && normal_ok.contains(&i);
        if s.cause.is_fault() && i + 1 < case.steps.len() {
            classes.push(if keep_connection { "fault_then_same_connection" } else { "fault_then_new_connection" });
        }
        if reused_connection && s.cause.is_fault() {
            classes.push("fault_on_reused_connection");
        }
        if !keep_connection {
            client = None;
        }
    }

    // ---- nothing unsolicited on a connection left open
    if let Some(mut c) = client.take() {
        match c.conn.next_message(Kind::Response { head_request: false }, Instant::now() + Duration::from_millis(150)) {
            ReadOutcome::IdleTimeout | ReadOutcome::Eof => {}
            other => fail!("C02/unsolicited-bytes", "after the last answer on a connection left open the client received: {}", h1::describe(&other)),
        }
    }

    // ---- the proxy still serves: a probe on a fresh connection
    {
        let n = base + 31;
        let want = content(case.seed ^ 0xC000, 777);
        let (bytes, _) = response_bytes(n, case.seed ^ 0xC000, 777, &BodyFraming::ContentLength, false);
        lab.shared.lock().unwrap().actions.insert(n, Act::Respond { bytes, cut: None, reset: false, pause_before_close: false, stall_after_cut: false, close_after: false, delay_ms: 0 });
        let mut c = open(addr)?;
        let (rb, _) = request_bytes(n, "c0.lab", &[], &None);
        if let Err(e) = h1::write_all(&mut c.w, &rb) {
            fail!("C02/client-write-failed", "probe after the scenario: writing failed: {e}");
        }
        match read_answer(&mut c, Instant::now() + Duration::from_secs(6)) {
            Got::Clean(m) if m.status() == Some(200) && m.body == want && m.header("x-lab-resp") == Some(n.to_string().as_str()) => {}
            other => fail!("C02/probe-after-fault-not-served", "a plain request on a fresh connection after the scenario was not served with its body: {}", describe_got(&other)),
        }
    }

    // ---- what the backends saw
    std::thread::sleep(Duration::from_millis(10));
    let recorded = lab.recorded();
    for &i in &normal_ok {
        let p = &plans[i];
        let mine: Vec<&Rec> = recorded.iter().filter(|r| r.lab_req == Some(p.n)).collect();
        if mine.len() != 1 || !mine[0].complete {
            fail!("C02/request-count-at-backend", "request {i} (answered 200) reached the backend {} times ({:?})", mine.len(), mine.iter().map(|r| (r.complete, &r.start_line)).collect::<Vec<_>>());
        }
        if mine[0].body != p.req_body {
            fail!("C02/request-body-differs", "request {i}: the client sent a {}-byte body, the backend received {} bytes", p.req_body.len(), mine[0].body.len());
        }
    }
    for &(i, label) in &must_reach_backend {
        let p = &plans[i];
        let mine: Vec<&Rec> = recorded.iter().filter(|r| r.lab_req == Some(p.n) && r.complete && r.backend == 0).collect();
        if mine.is_empty() {
            // the injected cause did not happen: the answer cannot be judged against it
            fail!(format!("C02/request-never-reached-backend:{label}"), "request {i} ({label}) was answered but the backend never received it completely: {:?}", recorded.iter().filter(|r| r.lab_req == Some(p.n)).collect::<Vec<_>>());
        }
        if mine.len() > 1 {
            owned_classes.push(format!("{label}:request_sent_to_backend_{}x", mine.len()));
        }
    }
    for &i in &must_not_reach_backend {
        let p = &plans[i];
        if let Some(r) = recorded.iter().find(|r| r.lab_req == Some(p.n)) {
            fail!("C02/refused-request-reached-backend", "request {i} ({}) was answered by the proxy itself but reached backend {}: {:?}", case.steps[i].cause.label(), r.backend, r.start_line);
        }
    }
    for &i in &incomplete_at_backend_expected {
        let p = &plans[i];
        if let Some(r) = recorded.iter().find(|r| r.lab_req == Some(p.n) && r.complete) {
            fail!("C02/incomplete-request-forwarded-as-complete", "request {i} ({}) was never completed by the client but the backend read a complete request: {:?} with {} body bytes", case.steps[i].cause.label(), r.start_line, r.body.len());
        }
    }
    if let Some(r) = recorded.iter().find(|r| r.invalid.is_some() && r.lab_req.map(|n| !incomplete_at_backend_expected.iter().any(|&i| plans[i].n == n)).unwrap_or(true)) {
        fail!("C02/garbage-at-backend", "a backend received bytes that are not a request: {:?} {:?}", r.invalid, r.start_line);
    }

    // ---- measurement
    let faults = case.steps.iter().filter(|s| s.cause.is_fault()).count();
    rep.nontrivial = faults >= 1 && case.steps.len() >= 2;
    rep.excluded_known = excluded;
    let mut all: Vec<String> = classes.iter().map(|s| s.to_string()).collect();
    all.extend(owned_classes);
    all.push("h1->h1".into());
    for s in &case.steps {
        all.push(format!("cause:{}", s.cause.label()));
        if let Cause::BackendCutsResponse { reset, pause, .. } = &s.cause {
            all.push(format!("cut:{}:{}{}", s.resp_framing_name(), if *reset { "rst" } else { "fin" }, if *pause { ":after_pause" } else { "" }));
            if s.resp_conn_close {
                all.push("cut:response_with_connection_close".into());
            }
        }
        if s.cause.is_fault() && (s.req_len > 0 || s.req_chunked.is_some()) {
            all.push("fault_on_request_with_body".into());
        }
        if s.cause == Cause::Normal && s.backend_closes_after {
            all.push("backend_closes_keepalive_silently".into());
        }
    }
    all.push(if case.keepalive_answers { "listener:keepalive_answers" } else { "listener:default_answers" }.into());
    if faults >= 2 {
        all.push("faults_2+".into());
    }
    if case.strict {
        all.push("strict".into());
    }
    all.sort();
    all.dedup();
    rep.classes = all;
    rep.inner_evaluations = case.steps.len() as u64 + 1;
    Ok(rep)
}

impl Step {
    fn resp_framing_name(&self) -> &'static str {
        match self.resp_framing {
            BodyFraming::ContentLength => "cl",
            BodyFraming::Chunked(_) => "chunked",
            BodyFraming::CloseDelimited => "close",
        }
    }
}

// ------------------------------------------------------------------ runner

const SUB: &str = "h1h1";

fn child(args: &Args, total: u64) -> Stats {
    lab::init_ports(args.shard.map(|s| s.0).unwrap_or(0));
    let labcell: RefCell<Option<Lab>> = RefCell::new(None);
    let flaky = std::cell::Cell::new(0u64);
    let run_on = |fresh: bool, case: &Case| -> CheckResult {
        let mut lab = match (fresh, labcell.borrow_mut().take()) {
            (false, Some(l)) => l,
            (_, old) => {
                drop(old);
                Lab::new("c02")
            }
        };
        let r = scenario(&mut lab, case);
        *labcell.borrow_mut() = if r.is_ok() { Some(lab) } else { None };
        r
    };
    let check = |case: &Case| -> CheckResult {
        let first = run_on(false, case);
        let Err(f) = first else { return first };
        for _ in 0..2 {
            if let Err(f2) = run_on(true, case) {
                return Err(if f2.signature == f.signature { f2 } else { f });
            }
        }
        flaky.set(flaky.get() + 1);
        let mut rep = CaseReport::default();
        rep.class("flaky_unconfirmed");
        Ok(rep)
    };
    let mut st = engine::run_lab_shard(args, "C02", SUB, total, strategy(), check, 24);
    st.flaky_unconfirmed += flaky.get();
    st
}

pub fn run(args: &Args) -> i32 {
    if args.shard.is_some() {
        let st = if args.only.as_deref() == Some(super::c02_h2::SUB) { super::c02_h2::child(args, args.cases(super::c02_h2::QUICK, super::c02_h2::THOROUGH)) } else { child(args, args.cases(480, 6_000)) };
        return engine::shard::child_finish(args, &st);
    }
    let mut ev = Evidence::new(args, "fault_enumeration");
    ev.rule(
        SUB,
        "one HTTP/1.1 client through a live worker (two HTTP listeners: sozu's default answers, and 401/404/429/502/503/504 templates with a Content-Length and without `Connection: close`; timeouts front 3 s, back 2 s, connect 1 s, request 2 s) to HTTP/1.1 mock backends: 1..4 requests sent one after the other, never pipelined, each with an injected cause: normal (200, keyed body, Content-Length / chunked / close-delimited, with or without `Connection: close`, the backend optionally closing its keep-alive connection silently afterwards); unknown host (404); frontend without cluster (401); cluster without backend (503); backend address refusing (503); backend closing at accept (502|503); backend closing once it has read the request, FIN or RST (502); backend closing on the request head while the client has sent half of the body (502|503); backend silent (504 within back_timeout + 3 s); backend answering 700 ms after back_timeout (504, and the late response must not reach a later request); backend answering non-HTTP bytes (502); backend cutting its response at a generated offset - inside the status line, inside the headers, at the blank line, inside the body, one byte before the end - by FIN or RST, at once or 30 ms after the prefix, or by going silent (502 or 504 as the only answer while nothing was relayed, otherwise an abort: the connection closes on a message its own framing calls incomplete and whose body bytes are a prefix of the backend's; never a clean end on fewer body bytes than declared; never a second status line behind a started response); backend answering before the request body has ended (200 relayed intact); client stopping inside the head or inside the body (408 within request/front timeout + 3 s, never a complete request at the backend); second connection of one address to a cluster limited to one per address (429). Oracle per request: exactly one answer, read by an independent strict HTTP/1.1 reader; its status is in the property's own set for the cause; proxy-made answers are well-formed, carry the configured body and are followed by nothing; a relayed 200 has the exact body and answers this request; time to answer <= governing timeout + 3 s; requests the proxy answers itself never reach a backend, requests answered 200 reach it exactly once with their exact body; after a fault the next request goes on the same connection when the answer left it usable, otherwise on a new one, and a final plain request on a fresh connection must be served: all with exact bodies. A failure is re-run on a fresh worker twice and only reported when it reproduces. Non-trivial: at least one injected fault and at least one other request in the scenario.",
    );
    ev.assume("only the HTTP/1.1 client -> HTTP/1.1 backend pair is built: HTTP/2 frontends and backends (several streams sharing connections, RST_STREAM as the abort), TLS listeners and the 421 wrong-certificate outcome are not exercised yet; 400 for a malformed authority and a backend that never completes the TCP handshake (connect timeout) are not played");
    ev.assume("'no request stays unanswered beyond the configured timeouts' is observed to a deadline of governing timeout + 3 s, not forever. Governing: back_timeout for a silent or late backend, request_timeout (first request of a connection) or front_timeout for a client that stops, front_timeout for the abort after a cut response, back_timeout + front_timeout for the abort after a backend that goes silent mid-response (observed: once a response has started the proxy does not close the client connection when the backend fails, the front timeout does), connect_timeout for refusing / closing backends, 0 otherwise");
    ev.assume("requests answered by the proxy itself carry at most 1000 body bytes written together with the head, so the answer is not lost to a kernel reset caused by unread request bytes; a cut by RST sent at once may overtake the prefix in the proxy's receive queue (kernel RST timing is approximate)");
    ev.assume("a backend cut inside the response head admits 502 or a bare close; a 502 / 504 is admitted after any cut or stall when it is the only thing the client receives; a backend that closes its idle keep-alive connection between two requests admits 502 for the next request on it as well as a transparent reconnect");
    ev.assume("no shape is steered around any more: the four findings this check raised (default answer behind a started response, short Content-Length body presented complete, timed-out backend connection reused, rest of a request answered as a new request) are repaired in sozu and generated cases play them; a client that stops inside its request body is answered 504 or 408 (the property prescribes no status for a request that was never fully received)");
    for (class, floor) in if args.replay.is_some() {
        vec![]
    } else {
        vec![
            ("cause:no_route", 0.04),
            ("cause:deny", 0.04),
            ("cause:no_backend", 0.04),
            ("cause:backend_refuses", 0.04),
            ("cause:backend_closes_at_accept", 0.04),
            ("cause:backend_closes_without_answer", 0.05),
            ("cause:backend_closes_mid_request", 0.04),
            ("cause:backend_answers_before_body", 0.04),
            ("cause:backend_stalls", 0.04),
            ("cause:backend_answers_late", 0.02),
            ("cause:backend_garbage", 0.05),
            ("cause:backend_cuts_head", 0.06),
            ("cause:backend_cuts_body", 0.10),
            ("cause:backend_stalls_mid_response", 0.02),
            ("cause:client_stops_mid_head", 0.02),
            ("cause:client_stops_mid_body", 0.02),
            ("cause:per_ip_limit", 0.04),
            ("cause:normal", 0.30),
            ("cut_in_body->abort_after_partial_relay", 0.06),
            ("fault_then_same_connection", 0.08),
            ("fault_then_new_connection", 0.15),
            ("fault_on_reused_connection", 0.08),
        ]
    } {
        ev.floor(SUB, class, floor);
    }
    engine::shard::run_sharded(&mut ev, args, SUB, 16, Duration::from_secs(args.tier.pick(900, 7200)));
    super::c02_h2::describe(&mut ev, args.replay.is_some());
    engine::shard::run_sharded(&mut ev, args, super::c02_h2::SUB, 16, Duration::from_secs(args.tier.pick(900, 7200)));
    ev.finish()
}
