//! C15 — no HTTP/2 input can crash, wedge or over-commit a worker (DESIGN §4 C15).
//!
//! * sub `decoder` (this file, in-process): byte strings and structured frames (valid frames of every
//!   type from an own encoder plus near-miss mutations) through `parser::frame_header` + `frame_body`;
//!   the oracle is an independent decode written from RFC 9113 §4.1, §4.2 and §6.
//! * sub `conn` (`c15_conn.rs`, wire lab): a valid HTTP/2 conversation with one generated anomaly or
//!   flood, judged by an RFC 9113 expectation model.

use std::{collections::BTreeSet, time::Duration};

use proptest::prelude::*;
use serde::{Deserialize, Serialize};
use sozu_lib::protocol::mux::parser::{self, Frame as PFrame, FrameType, ParserError, ParserErrorKind, PriorityPart};

use crate::engine::{self, Args, CaseReport, CheckResult, Evidence, Failure};

const SUB_DECODER: &str = "decoder";
pub const SUB_CONN: &str = "conn";

const FRAME_SIZE_ERROR: u32 = 6;
const PROTOCOL_ERROR: u32 = 1;
const FLOW_CONTROL_ERROR: u32 = 3;

const T_DATA: u8 = 0;
const T_HEADERS: u8 = 1;
const T_PRIORITY: u8 = 2;
const T_RST: u8 = 3;
const T_SETTINGS: u8 = 4;
const T_PUSH: u8 = 5;
const T_PING: u8 = 6;
const T_GOAWAY: u8 = 7;
const T_WINDOW: u8 = 8;
const T_CONT: u8 = 9;
const T_PRIORITY_UPDATE: u8 = 0x10;

const F_END_STREAM: u8 = 0x1;
const F_ACK: u8 = 0x1;
const F_END_HEADERS: u8 = 0x4;
const F_PADDED: u8 = 0x8;
const F_PRIORITY: u8 = 0x20;

// ------------------------------------------------------------------ case

/// The decoder input is `head ++ fill pattern bytes ++ tail` (long payloads stay small in replay files).
/// The five deviations this check found are repaired in sozu (known_findings.jsonl, `fixed`): nothing is
/// steered around any more (set VP_C15_EXCLUSIONS to run against an old tree).
pub fn steer(strict: bool) -> bool {
    !strict && std::env::var("VP_C15_EXCLUSIONS").is_ok()
}

#[derive(Clone, Debug, Serialize, Deserialize)]
pub struct DCase {
    /// max_frame_size given to the decoder: false = 16384, true = 2^24-1
    pub big: bool,
    pub head: Vec<u8>,
    pub fill: u32,
    pub tail: Vec<u8>,
    /// generated from a structured frame (as opposed to arbitrary bytes)
    #[serde(default)]
    pub structured: bool,
    /// replay of a known finding: do not excuse the known shape
    #[serde(default)]
    pub strict: bool,
}

impl DCase {
    pub fn bytes(&self) -> Vec<u8> {
        let mut v = Vec::with_capacity(self.head.len() + self.fill as usize + self.tail.len());
        v.extend_from_slice(&self.head);
        v.extend((0..self.fill).map(|i| (i.wrapping_mul(31).wrapping_add(7)) as u8));
        v.extend_from_slice(&self.tail);
        v
    }
    fn mfs(&self) -> u32 {
        if self.big { (1 << 24) - 1 } else { 16384 }
    }
}

// ------------------------------------------------------------------ own encoder + generator

#[derive(Clone, Debug)]
struct Built {
    typ: u8,
    flags: u8,
    sid: u32,
    /// literal payload bytes
    payload: Vec<u8>,
    /// pattern bytes appended to the payload
    extra: u32,
}

fn be32(v: u32) -> [u8; 4] {
    v.to_be_bytes()
}

fn small_bytes(max: usize) -> impl Strategy<Value = Vec<u8>> {
    prop::collection::vec(any::<u8>(), 0..=max)
}

fn stream_id() -> impl Strategy<Value = u32> {
    prop_oneof![3 => Just(1u32), 2 => Just(3u32), 1 => Just(2u32), 1 => Just(0x7fff_ffffu32), 2 => 1u32..0x7fff_ffff]
}

/// how many pattern bytes follow the literal payload (frame sizes around the limits the decoder names)
fn extra_len() -> impl Strategy<Value = u32> {
    prop_oneof![
        12 => Just(0u32),
        2 => 1u32..300,
        1 => prop_oneof![Just(16384u32 - 40), Just(16384 - 8), Just(16384), Just(16385), Just(16393)],
        1 => 300u32..70_000,
    ]
}

/// A valid frame of the given type, by construction (RFC 9113 §6).
fn valid_frame(typ: u8) -> BoxedStrategy<Built> {
    match typ {
        T_DATA => (stream_id(), any::<bool>(), proptest::option::weighted(0.4, 0u8..40), small_bytes(24), extra_len())
            .prop_map(|(sid, end, pad, data, extra)| {
                let mut flags = if end { F_END_STREAM } else { 0 };
                let mut payload = vec![];
                // padding only with a literal payload (the padding bytes close the frame)
                let pad = if extra == 0 { pad } else { None };
                if let Some(p) = pad {
                    flags |= F_PADDED;
                    payload.push(p);
                }
                payload.extend_from_slice(&data);
                if let Some(p) = pad {
                    payload.extend(std::iter::repeat(0u8).take(p as usize));
                }
                Built { typ: T_DATA, flags, sid, payload, extra }
            })
            .boxed(),
        T_HEADERS => (stream_id(), any::<u8>(), proptest::option::weighted(0.4, 0u8..40), proptest::option::weighted(0.4, (any::<bool>(), stream_id(), any::<u8>())), small_bytes(24), extra_len())
            .prop_map(|(sid, fl, pad, prio, frag, extra)| {
                let mut flags = fl & (F_END_STREAM | F_END_HEADERS);
                let mut payload = vec![];
                let pad = if extra == 0 { pad } else { None };
                if let Some(p) = pad {
                    flags |= F_PADDED;
                    payload.push(p);
                }
                if let Some((excl, dep, w)) = prio {
                    flags |= F_PRIORITY;
                    payload.extend_from_slice(&be32(dep | if excl { 0x8000_0000 } else { 0 }));
                    payload.push(w);
                }
                payload.extend_from_slice(&frag);
                if let Some(p) = pad {
                    payload.extend(std::iter::repeat(0u8).take(p as usize));
                }
                Built { typ: T_HEADERS, flags, sid, payload, extra }
            })
            .boxed(),
        T_PRIORITY => (stream_id(), any::<bool>(), prop_oneof![Just(0u32), stream_id()], any::<u8>())
            .prop_map(|(sid, excl, dep, w)| {
                let mut payload = be32(dep | if excl { 0x8000_0000 } else { 0 }).to_vec();
                payload.push(w);
                Built { typ: T_PRIORITY, flags: 0, sid, payload, extra: 0 }
            })
            .boxed(),
        T_RST => (stream_id(), prop_oneof![0u32..14, any::<u32>()]).prop_map(|(sid, code)| Built { typ: T_RST, flags: 0, sid, payload: be32(code).to_vec(), extra: 0 }).boxed(),
        T_SETTINGS => prop_oneof![
            1 => Just(Built { typ: T_SETTINGS, flags: F_ACK, sid: 0, payload: vec![], extra: 0 }),
            4 => (prop::collection::vec((prop_oneof![4 => 1u16..7, 1 => Just(8u16), 1 => Just(9u16), 1 => any::<u16>()], prop_oneof![Just(0u32), Just(1u32), Just(100u32), Just(16384u32), Just(65535u32), Just(0x7fff_ffffu32), Just(0x8000_0000u32), any::<u32>()]), 0..9), prop_oneof![9 => Just(0usize), 1 => Just(55usize), 1 => Just(56usize), 1 => 57usize..300])
                .prop_map(|(list, more)| {
                    let mut payload = vec![];
                    for (k, v) in &list {
                        payload.extend_from_slice(&k.to_be_bytes());
                        payload.extend_from_slice(&be32(*v));
                    }
                    // extra entries of an unknown identifier (the count around the decoder's allocation cap)
                    for i in 0..more {
                        payload.extend_from_slice(&0x00f0u16.to_be_bytes());
                        payload.extend_from_slice(&be32(i as u32));
                    }
                    Built { typ: T_SETTINGS, flags: 0, sid: 0, payload, extra: 0 }
                }),
        ]
        .boxed(),
        T_PUSH => (stream_id(), any::<bool>(), stream_id(), small_bytes(16))
            .prop_map(|(sid, eh, promised, frag)| {
                let mut payload = be32(promised).to_vec();
                payload.extend_from_slice(&frag);
                Built { typ: T_PUSH, flags: if eh { F_END_HEADERS } else { 0 }, sid, payload, extra: 0 }
            })
            .boxed(),
        T_PING => (any::<bool>(), any::<[u8; 8]>()).prop_map(|(ack, d)| Built { typ: T_PING, flags: if ack { F_ACK } else { 0 }, sid: 0, payload: d.to_vec(), extra: 0 }).boxed(),
        T_GOAWAY => (prop_oneof![Just(0u32), stream_id(), any::<u32>()], prop_oneof![0u32..14, any::<u32>()], small_bytes(20), extra_len())
            .prop_map(|(last, code, debug, extra)| {
                let mut payload = be32(last).to_vec();
                payload.extend_from_slice(&be32(code));
                payload.extend_from_slice(&debug);
                Built { typ: T_GOAWAY, flags: 0, sid: 0, payload, extra }
            })
            .boxed(),
        T_WINDOW => (prop_oneof![Just(0u32), stream_id()], prop_oneof![Just(0u32), Just(1u32), Just(0x7fff_ffffu32), Just(0x8000_0000u32), Just(0xffff_ffffu32), any::<u32>()])
            .prop_map(|(sid, inc)| Built { typ: T_WINDOW, flags: 0, sid, payload: be32(inc).to_vec(), extra: 0 })
            .boxed(),
        T_CONT => (stream_id(), any::<bool>(), small_bytes(24), extra_len()).prop_map(|(sid, eh, frag, extra)| Built { typ: T_CONT, flags: if eh { F_END_HEADERS } else { 0 }, sid, payload: frag, extra }).boxed(),
        T_PRIORITY_UPDATE => (stream_id(), prop_oneof![4 => small_bytes(24), 1 => prop::collection::vec(Just(b'u'), 1020..1030)])
            .prop_map(|(prioritized, value)| {
                let mut payload = be32(prioritized).to_vec();
                payload.extend_from_slice(&value);
                Built { typ: T_PRIORITY_UPDATE, flags: 0, sid: 0, payload, extra: 0 }
            })
            .boxed(),
        other => (prop_oneof![Just(0u32), stream_id()], any::<u8>(), small_bytes(24), extra_len()).prop_map(move |(sid, flags, payload, extra)| Built { typ: other, flags, sid, payload, extra }).boxed(),
    }
}

fn frame_type() -> impl Strategy<Value = u8> {
    prop_oneof![
        20 => 0u8..10,
        2 => Just(T_PRIORITY_UPDATE),
        3 => prop_oneof![10u8..16, 17u8..=255],
    ]
}

/// Near-miss mutations (each independently, mostly absent).
#[derive(Clone, Debug)]
struct Mutation {
    /// declared length: None = true length; Some(d) = true length + d (clamped to 24 bits)
    len_delta: Option<i32>,
    /// declared length forced to this value
    len_abs: Option<u32>,
    /// stream id 0 where non-zero is required and the reverse
    flip_sid: bool,
    reserved_bit: bool,
    flags: Option<u8>,
    /// first payload byte (the Pad Length of padded frames) replaced
    pad_byte: Option<u8>,
    /// bytes removed from the end of the frame (payload, then header)
    cut: Option<u16>,
    /// unrelated bytes after the frame
    trailing: Vec<u8>,
}

fn mutation() -> impl Strategy<Value = Mutation> {
    (
        proptest::option::weighted(0.18, prop_oneof![Just(-1i32), Just(1), Just(-2), Just(2), Just(-4), Just(-5), Just(-6), Just(6), Just(-8), Just(3), -40i32..40]),
        proptest::option::weighted(0.10, prop_oneof![Just(0u32), Just(1u32), Just(4u32), Just(5u32), Just(8u32), Just(16384u32), Just(16385u32), Just(16386u32), Just((1u32 << 24) - 1), 16385u32..(1 << 24)]),
        prop::bool::weighted(0.12),
        prop::bool::weighted(0.12),
        proptest::option::weighted(0.15, prop_oneof![any::<u8>(), Just(F_PADDED), Just(F_PRIORITY), Just(F_PADDED | F_PRIORITY), Just(F_ACK), Just(0xffu8)]),
        proptest::option::weighted(0.10, prop_oneof![Just(0u8), Just(1u8), Just(255u8), any::<u8>()]),
        proptest::option::weighted(0.08, prop_oneof![Just(1u16), 1u16..12, 1u16..64]),
        prop_oneof![2 => Just(vec![]), 1 => small_bytes(12)],
    )
        .prop_map(|(len_delta, len_abs, flip_sid, reserved_bit, flags, pad_byte, cut, trailing)| Mutation { len_delta, len_abs, flip_sid, reserved_bit, flags, pad_byte, cut, trailing })
}

fn needs_stream(typ: u8) -> Option<bool> {
    match typ {
        T_DATA | T_HEADERS | T_PRIORITY | T_RST | T_PUSH | T_CONT => Some(true),
        T_SETTINGS | T_PING | T_GOAWAY | T_PRIORITY_UPDATE => Some(false),
        _ => None,
    }
}

fn assemble(big: bool, b: Built, m: Mutation) -> DCase {
    let mut payload = b.payload.clone();
    let mut sid = b.sid & 0x7fff_ffff;
    if m.flip_sid {
        sid = match needs_stream(b.typ) {
            Some(true) => 0,
            Some(false) => 5,
            None => sid,
        };
    }
    let flags = m.flags.unwrap_or(b.flags);
    if let (Some(p), Some(first)) = (m.pad_byte, payload.first_mut()) {
        *first = p;
    }
    let true_len = payload.len() as u32 + b.extra;
    let mut declared = true_len;
    if let Some(d) = m.len_delta {
        declared = (true_len as i64 + d as i64).clamp(0, (1 << 24) - 1) as u32;
    }
    if let Some(a) = m.len_abs {
        declared = a;
    }
    let mut head = vec![(declared >> 16) as u8, (declared >> 8) as u8, declared as u8, b.typ, flags];
    head.extend_from_slice(&be32(sid | if m.reserved_bit { 0x8000_0000 } else { 0 }));
    head.append(&mut payload);
    let mut fill = b.extra;
    let mut tail = m.trailing.clone();
    if let Some(c) = m.cut {
        // a truncated frame has nothing after it
        tail.clear();
        let mut c = c as u32;
        let f = c.min(fill);
        fill -= f;
        c -= f;
        let keep = head.len().saturating_sub(c as usize);
        head.truncate(keep);
    }
    DCase { big, head, fill, tail, structured: true, strict: false }
}

pub fn decoder_strategy() -> impl Strategy<Value = DCase> {
    let structured = (any::<bool>(), frame_type().prop_flat_map(valid_frame), mutation(), prop::bool::weighted(0.45)).prop_map(|(big, built, m, pristine)| {
        let m = if pristine { Mutation { len_delta: None, len_abs: None, flip_sid: false, reserved_bit: m.reserved_bit && built.typ % 2 == 0, flags: None, pad_byte: None, cut: None, trailing: m.trailing } } else { m };
        assemble(big, built, m)
    });
    let raw = (any::<bool>(), prop::collection::vec(any::<u8>(), 0..64), any::<bool>(), 0u32..40).prop_map(|(big, mut head, short_len, fill)| {
        if short_len && head.len() >= 2 {
            // keep the declared length small so that the frame can be complete
            head[0] = 0;
            head[1] = 0;
        }
        DCase { big, head, fill, tail: vec![], structured: false, strict: false }
    });
    prop_oneof![5 => structured, 1 => raw]
}

// ------------------------------------------------------------------ reference decoder (RFC 9113 §4.1, §4.2, §6)

#[derive(Clone, Debug, PartialEq)]
enum Dec {
    Data { content: Vec<u8>, end_stream: bool },
    Headers { prio: Option<(bool, u32, u8)>, frag: Vec<u8>, end_stream: bool, end_headers: bool },
    Priority { excl: bool, dep: u32, weight: u8 },
    Rst(u32),
    Settings { ack: bool, list: Vec<(u16, u32)> },
    PushPromise,
    Ping { ack: bool, data: [u8; 8] },
    Goaway { last: u32, code: u32, debug: Vec<u8> },
    WindowUpdate(u32),
    Continuation,
    PriorityUpdate { id: u32, value: Vec<u8> },
    Unknown(u8),
}

#[derive(Debug, Default)]
struct Reference {
    len: u32,
    typ: u8,
    flags: u8,
    sid: u32,
    complete: bool,
    /// error classes of the rules the frame breaks (the reported class must be one of them)
    viol: BTreeSet<u32>,
    /// classes a decoder MAY report although the framing is fine (value checks a decoder may do early)
    may: BTreeSet<u32>,
    /// implementation limits: any verdict is admissible
    any: bool,
    /// known finding shape: HEADERS with PRIORITY flag too short for the priority fields (only FRAME_SIZE_ERROR applies)
    short_priority: bool,
    /// the RFC leaves the class open (padded frame without room for the Pad Length field)
    ambiguous: bool,
    decoded: Option<Dec>,
}

fn u32_at(p: &[u8], off: usize) -> u32 {
    u32::from_be_bytes([p[off], p[off + 1], p[off + 2], p[off + 3]])
}

fn type_name(t: u8) -> &'static str {
    match t {
        T_DATA => "DATA",
        T_HEADERS => "HEADERS",
        T_PRIORITY => "PRIORITY",
        T_RST => "RST_STREAM",
        T_SETTINGS => "SETTINGS",
        T_PUSH => "PUSH_PROMISE",
        T_PING => "PING",
        T_GOAWAY => "GOAWAY",
        T_WINDOW => "WINDOW_UPDATE",
        T_CONT => "CONTINUATION",
        T_PRIORITY_UPDATE => "PRIORITY_UPDATE",
        _ => "UNKNOWN",
    }
}

/// `bytes.len() >= 9`
fn reference(bytes: &[u8], mfs: u32) -> Reference {
    let len = ((bytes[0] as u32) << 16) | ((bytes[1] as u32) << 8) | bytes[2] as u32;
    let typ = bytes[3];
    let flags = bytes[4];
    // §4.1: the reserved bit MUST be ignored when receiving
    let sid = u32_at(bytes, 5) & 0x7fff_ffff;
    let complete = bytes.len() >= 9 + len as usize;
    let mut r = Reference { len, typ, flags, sid, complete, ..Default::default() };
    // §4.2: a frame larger than SETTINGS_MAX_FRAME_SIZE -> FRAME_SIZE_ERROR
    if len > mfs {
        r.viol.insert(FRAME_SIZE_ERROR);
    }
    // stream identifier rules of §6.1 - §6.10
    match needs_stream(typ) {
        Some(true) if sid == 0 => {
            r.viol.insert(PROTOCOL_ERROR);
        }
        Some(false) if sid != 0 && typ != T_PRIORITY_UPDATE => {
            r.viol.insert(PROTOCOL_ERROR);
        }
        _ => {}
    }
    let avail = &bytes[9..bytes.len().min(9 + len as usize)];
    let padded = flags & F_PADDED != 0;
    let n = len as usize;
    match typ {
        T_DATA | T_HEADERS | T_PUSH => {
            let fixed = match typ {
                T_HEADERS if flags & F_PRIORITY != 0 => 5usize,
                T_PUSH => 4,
                _ => 0,
            };
            if padded && n == 0 {
                // no room for the Pad Length field: §4.2 says FRAME_SIZE_ERROR (too small for mandatory data),
                // §6.1 makes every padding defect a PROTOCOL_ERROR; receivers differ
                r.viol.insert(FRAME_SIZE_ERROR);
                r.viol.insert(PROTOCOL_ERROR);
                r.ambiguous = true;
            } else {
                let need = padded as usize + fixed;
                let pad = if padded { avail.first().copied() } else { Some(0) };
                if n < need {
                    // §4.2: too small to contain mandatory frame data
                    r.viol.insert(FRAME_SIZE_ERROR);
                    let mut only_size = true;
                    if let (true, Some(p)) = (padded, pad) {
                        if p as usize > n - 1 {
                            // the padding alone exceeds the payload: also a padding defect
                            r.viol.insert(PROTOCOL_ERROR);
                            only_size = false;
                        }
                    }
                    if typ == T_HEADERS && only_size && !r.viol.contains(&PROTOCOL_ERROR) && len <= mfs {
                        r.short_priority = true;
                    }
                } else if let (true, Some(p)) = (padded, pad) {
                    // §6.1 / §6.2: padding that exceeds the room left for the data -> PROTOCOL_ERROR
                    if p as usize > n - need {
                        r.viol.insert(PROTOCOL_ERROR);
                    }
                }
            }
            if typ == T_PUSH {
                // §8.4: a server never accepts PUSH_PROMISE, a client that disabled push neither
                r.may.insert(PROTOCOL_ERROR);
            }
            if typ == T_HEADERS && flags & F_PRIORITY != 0 && avail.len() >= padded as usize + 5 {
                let dep = u32_at(avail, padded as usize) & 0x7fff_ffff;
                if dep == sid {
                    r.may.insert(PROTOCOL_ERROR);
                }
            }
        }
        T_PRIORITY => {
            if n != 5 {
                r.viol.insert(FRAME_SIZE_ERROR);
            } else if avail.len() == 5 && u32_at(avail, 0) & 0x7fff_ffff == sid {
                r.may.insert(PROTOCOL_ERROR);
            }
        }
        T_RST => {
            if n != 4 {
                r.viol.insert(FRAME_SIZE_ERROR);
            }
        }
        T_SETTINGS => {
            if flags & F_ACK != 0 && n != 0 {
                r.viol.insert(FRAME_SIZE_ERROR);
            }
            if n % 6 != 0 {
                r.viol.insert(FRAME_SIZE_ERROR);
            }
            if n / 6 > 64 {
                // no RFC limit on the number of entries; a receiver may have one (§10.5)
                r.any = true;
            }
            for c in avail.chunks_exact(6) {
                let (k, v) = (u16::from_be_bytes([c[0], c[1]]), u32_at(c, 2));
                match k {
                    2 if v > 1 => {
                        r.may.insert(PROTOCOL_ERROR);
                    }
                    4 if v > 0x7fff_ffff => {
                        r.may.insert(FLOW_CONTROL_ERROR);
                    }
                    5 if !(16384..=(1 << 24) - 1).contains(&v) => {
                        r.may.insert(PROTOCOL_ERROR);
                    }
                    _ => {}
                }
            }
        }
        T_PING => {
            if n != 8 {
                r.viol.insert(FRAME_SIZE_ERROR);
            }
        }
        T_GOAWAY => {
            if n < 8 {
                r.viol.insert(FRAME_SIZE_ERROR);
            }
        }
        T_WINDOW => {
            if n != 4 {
                r.viol.insert(FRAME_SIZE_ERROR);
            } else if avail.len() == 4 && u32_at(avail, 0) & 0x7fff_ffff == 0 {
                r.may.insert(PROTOCOL_ERROR);
            }
        }
        T_PRIORITY_UPDATE => {
            // RFC 9218 §7.1 (an extension: a decoder may also treat the type as unknown)
            r.may.insert(PROTOCOL_ERROR);
            r.may.insert(FRAME_SIZE_ERROR);
        }
        _ => {}
    }
    if r.complete && r.viol.is_empty() {
        let p = avail;
        let unpad = |p: &[u8], fixed: usize| -> Vec<u8> {
            if padded {
                let pad = p[0] as usize;
                p[1 + fixed..p.len() - pad].to_vec()
            } else {
                p[fixed..].to_vec()
            }
        };
        r.decoded = Some(match typ {
            T_DATA => Dec::Data { content: unpad(p, 0), end_stream: flags & F_END_STREAM != 0 },
            T_HEADERS => {
                let has_prio = flags & F_PRIORITY != 0;
                let off = padded as usize;
                let prio = if has_prio {
                    let d = u32_at(p, off);
                    Some((d & 0x8000_0000 != 0, d & 0x7fff_ffff, p[off + 4]))
                } else {
                    None
                };
                Dec::Headers { prio, frag: unpad(p, if has_prio { 5 } else { 0 }), end_stream: flags & F_END_STREAM != 0, end_headers: flags & F_END_HEADERS != 0 }
            }
            T_PRIORITY => {
                let d = u32_at(p, 0);
                Dec::Priority { excl: d & 0x8000_0000 != 0, dep: d & 0x7fff_ffff, weight: p[4] }
            }
            T_RST => Dec::Rst(u32_at(p, 0)),
            T_SETTINGS => Dec::Settings { ack: flags & F_ACK != 0, list: p.chunks_exact(6).map(|c| (u16::from_be_bytes([c[0], c[1]]), u32_at(c, 2))).collect() },
            T_PUSH => Dec::PushPromise,
            T_PING => {
                let mut d = [0u8; 8];
                d.copy_from_slice(p);
                Dec::Ping { ack: flags & F_ACK != 0, data: d }
            }
            T_GOAWAY => Dec::Goaway { last: u32_at(p, 0) & 0x7fff_ffff, code: u32_at(p, 4), debug: p[8..].to_vec() },
            T_WINDOW => Dec::WindowUpdate(u32_at(p, 0) & 0x7fff_ffff),
            T_CONT => Dec::Continuation,
            T_PRIORITY_UPDATE if p.len() >= 4 => Dec::PriorityUpdate { id: u32_at(p, 0) & 0x7fff_ffff, value: p[4..].to_vec() },
            other => Dec::Unknown(other),
        });
    }
    r
}

// ------------------------------------------------------------------ what sozu's decoder said

/// The decoder's error without naming the `nom` crate (not a dependency of the harness): `Err::map` hands
/// out the inner `ParserError`; an `Incomplete` has none.
macro_rules! error_kind {
    ($e:expr) => {{
        let mut k: Option<ParserErrorKind> = None;
        let _ = $e.map(|pe: ParserError| {
            k = Some(pe.kind.clone());
        });
        k
    }};
}

fn class_of(k: &Option<ParserErrorKind>) -> Option<u32> {
    match k {
        Some(ParserErrorKind::H2(c)) => Some(*c as u32),
        _ => None,
    }
}

fn frame_type_matches(t: &FrameType, typ: u8) -> bool {
    match t {
        FrameType::Data => typ == T_DATA,
        FrameType::Headers => typ == T_HEADERS,
        FrameType::Priority => typ == T_PRIORITY,
        FrameType::RstStream => typ == T_RST,
        FrameType::Settings => typ == T_SETTINGS,
        FrameType::PushPromise => typ == T_PUSH,
        FrameType::Ping => typ == T_PING,
        FrameType::GoAway => typ == T_GOAWAY,
        FrameType::WindowUpdate => typ == T_WINDOW,
        FrameType::Continuation => typ == T_CONT,
        FrameType::PriorityUpdate => typ == T_PRIORITY_UPDATE,
        FrameType::Unknown(x) => *x == typ && typ > 9,
    }
}

/// translate sozu's typed frame into the reference vocabulary (`body` is the slice given to `frame_body`)
fn observed(f: &PFrame, h_flags: u8, body: &[u8]) -> Result<Dec, String> {
    let slice = |s: &kawa::repr::Slice| -> Result<Vec<u8>, String> { s.data_opt(body).map(|d| d.to_vec()).ok_or_else(|| format!("slice {s:?} outside the {}-byte input", body.len())) };
    Ok(match f {
        PFrame::Data(d) => Dec::Data { content: slice(&d.payload)?, end_stream: d.end_stream },
        PFrame::Headers(h) => Dec::Headers {
            prio: match &h.priority {
                None => None,
                Some(PriorityPart::Rfc7540 { stream_dependency, weight }) => Some((stream_dependency.exclusive, stream_dependency.stream_id, *weight)),
                Some(other) => return Err(format!("HEADERS priority decoded as {other:?}")),
            },
            frag: slice(&h.header_block_fragment)?,
            end_stream: h.end_stream,
            end_headers: h.end_headers,
        },
        PFrame::Priority(p) => match &p.inner {
            PriorityPart::Rfc7540 { stream_dependency, weight } => Dec::Priority { excl: stream_dependency.exclusive, dep: stream_dependency.stream_id, weight: *weight },
            other => return Err(format!("PRIORITY decoded as {other:?}")),
        },
        PFrame::RstStream(r) => Dec::Rst(r.error_code),
        PFrame::Settings(s) => Dec::Settings { ack: s.ack, list: s.settings.iter().map(|x| (x.identifier, x.value)).collect() },
        PFrame::PushPromise(_) => Dec::PushPromise,
        PFrame::Ping(p) => Dec::Ping { ack: p.ack, data: p.payload },
        PFrame::GoAway(g) => Dec::Goaway { last: g.last_stream_id, code: g.error_code, debug: slice(&g.additional_debug_data)? },
        PFrame::WindowUpdate(w) => Dec::WindowUpdate(w.increment),
        PFrame::Continuation(_) => {
            let _ = h_flags;
            Dec::Continuation
        }
        PFrame::PriorityUpdate(p) => Dec::PriorityUpdate { id: p.prioritized_stream_id, value: p.priority_field_value.clone() },
        PFrame::Unknown(t) => Dec::Unknown(*t),
    })
}

fn frame_stream_id(f: &PFrame) -> Option<u32> {
    match f {
        PFrame::Data(d) => Some(d.stream_id),
        PFrame::Headers(h) => Some(h.stream_id),
        PFrame::Priority(p) => Some(p.stream_id),
        PFrame::RstStream(r) => Some(r.stream_id),
        PFrame::WindowUpdate(w) => Some(w.stream_id),
        _ => None,
    }
}

fn class_name(c: Option<u32>) -> String {
    match c {
        None => "unclassified(nom)".into(),
        Some(1) => "PROTOCOL_ERROR".into(),
        Some(3) => "FLOW_CONTROL_ERROR".into(),
        Some(6) => "FRAME_SIZE_ERROR".into(),
        Some(x) => format!("error {x:#x}"),
    }
}

pub fn decoder_check(case: &DCase) -> CheckResult {
    let bytes = case.bytes();
    let mfs = case.mfs();
    let mut rep = CaseReport::default();
    rep.class(if case.big { "max_frame_size_2^24-1" } else { "max_frame_size_16384" });
    rep.class(if case.structured { "structured_frame" } else { "raw_bytes" });
    if bytes.len() < 9 {
        // fewer bytes than a frame header: an error, never a header
        if let Ok((_, h)) = parser::frame_header(&bytes, mfs) {
            fail!("C15/decoder:header-from-short-input", "frame_header returned {h:?} for {} input bytes {:02x?}", bytes.len(), bytes);
        }
        rep.class("input_shorter_than_a_header");
        return Ok(rep);
    }
    let r = reference(&bytes, mfs);
    let tn = type_name(r.typ);
    let shown = format!("{:02x?}{}", &bytes[..bytes.len().min(40)], if bytes.len() > 40 { format!(" (+{} bytes)", bytes.len() - 40) } else { String::new() });
    // judge an error verdict of either stage
    let judge_err = |stage: &str, k: Option<ParserErrorKind>, rep: &mut CaseReport| -> Result<(), Failure> {
        let class = class_of(&k);
        // the only production caller (h2.rs `error_nom_to_h2`) reports a nom-kind error as PROTOCOL_ERROR
        let eff = class.unwrap_or(PROTOCOL_ERROR);
        if !r.complete && class.is_none() {
            rep.class("err:incomplete_input");
            return Ok(());
        }
        if r.any || r.viol.contains(&eff) || r.may.contains(&eff) {
            rep.class(format!("err:{}", class_name(Some(eff))));
            rep.class_if(class.is_none(), "nom_error_read_as_PROTOCOL_ERROR");
            rep.class_if(r.ambiguous, "rfc_leaves_class_open:padded_frame_without_pad_length");
            return Ok(());
        }
        if r.short_priority && eff == PROTOCOL_ERROR {
            if !steer(case.strict) {
                return Err(Failure::new(
                    "C15/decoder:error-class:HEADERS-priority-too-short",
                    format!("{stage}: HEADERS with the PRIORITY flag and a {}-byte payload (too small for the 5 priority octets{}) is reported as {} ; RFC 9113 4.2 prescribes FRAME_SIZE_ERROR for a frame too small to contain mandatory frame data. input {shown}", r.len, if r.flags & F_PADDED != 0 { " after the Pad Length octet" } else { "" }, class_name(class)),
                ));
            }
            rep.excluded_known += 1;
            rep.class("known:headers_priority_too_short");
            return Ok(());
        }
        if r.viol.is_empty() {
            return Err(Failure::new(format!("C15/decoder:spurious-error:{tn}"), format!("{stage} rejects a well-formed {tn} frame (length {}, flags {:#x}, stream {}) with {}; input {shown}, max_frame_size {mfs}", r.len, r.flags, r.sid, class_name(class))));
        }
        Err(Failure::new(
            format!("C15/decoder:error-class:{tn}"),
            format!("{stage} reports {} for a {tn} frame (length {}, flags {:#x}, stream {}); RFC 9113 prescribes {:?}; input {shown}, max_frame_size {mfs}", class_name(class), r.len, r.flags, r.sid, r.viol.iter().map(|c| class_name(Some(*c))).collect::<Vec<_>>()),
        ))
    };
    let (rest, header) = match parser::frame_header(&bytes, mfs) {
        Ok(x) => x,
        Err(e) => {
            judge_err("frame_header", error_kind!(e), &mut rep)?;
            rep.class(format!("type:{tn}"));
            rep.nontrivial = case.structured;
            return Ok(rep);
        }
    };
    // ---- header fields and consumption
    if rest.len() != bytes.len() - 9 || rest != &bytes[9..] {
        fail!("C15/decoder:consumed:header", "frame_header consumed {} bytes instead of 9; input {shown}", bytes.len() - rest.len());
    }
    if header.payload_len != r.len || header.flags != r.flags || header.stream_id != r.sid || !frame_type_matches(&header.frame_type, r.typ) {
        fail!("C15/decoder:fields:header", "frame_header decoded {header:?}, the header says length {} type {:#x} flags {:#x} stream {}; input {shown}", r.len, r.typ, r.flags, r.sid);
    }
    match parser::frame_body(rest, &header) {
        Err(e) => {
            judge_err("frame_body", error_kind!(e), &mut rep)?;
        }
        Ok((remaining, frame)) => {
            if !r.complete {
                fail!("C15/decoder:ok-on-truncated-payload", "frame_body returned {frame:?} although only {} of the {} declared payload bytes are present; input {shown}", rest.len(), r.len);
            }
            let want_rest = &bytes[9 + r.len as usize..];
            if remaining.len() != want_rest.len() || remaining != want_rest {
                fail!(format!("C15/decoder:consumed:{tn}"), "{tn} frame of declared length {}: the decoder consumed 9+{} bytes; input {shown}", r.len, rest.len() as i64 - remaining.len() as i64);
            }
            if !r.viol.is_empty() && !r.any {
                if r.short_priority && steer(case.strict) {
                    rep.excluded_known += 1;
                    rep.class("known:headers_priority_too_short");
                } else {
                    fail!(format!("C15/decoder:accepted:{tn}"), "malformed {tn} frame accepted as {frame:?} (length {}, flags {:#x}, stream {}); RFC 9113 prescribes {:?}; input {shown}, max_frame_size {mfs}", r.len, r.flags, r.sid, r.viol.iter().map(|c| class_name(Some(*c))).collect::<Vec<_>>());
                }
            }
            if let Some(want) = &r.decoded {
                let got = match observed(&frame, header.flags, rest) {
                    Ok(g) => g,
                    Err(why) => fail!(format!("C15/decoder:fields:{tn}"), "{why}; input {shown}"),
                };
                let same = match (&got, want) {
                    // a decoder may treat the RFC 9218 extension type as unknown
                    (Dec::Unknown(t), Dec::PriorityUpdate { .. }) => *t == T_PRIORITY_UPDATE,
                    (g, w) => g == w,
                };
                if !same {
                    fail!(format!("C15/decoder:fields:{tn}"), "decoded {got:?}, the bytes say {want:?}; input {shown}");
                }
                if let Some(s) = frame_stream_id(&frame) {
                    if s != r.sid {
                        fail!(format!("C15/decoder:fields:{tn}"), "decoded stream id {s}, the header says {}; input {shown}", r.sid);
                    }
                }
            }
            rep.class("ok");
            rep.class_if(!want_rest.is_empty(), "ok_with_trailing_bytes_left_untouched");
            rep.class_if(bytes[5] & 0x80 != 0, "ok_reserved_bit_set");
            rep.class_if(r.flags & F_PADDED != 0 && matches!(r.typ, T_DATA | T_HEADERS), "ok_padded");
        }
    }
    rep.class(format!("type:{tn}"));
    rep.class_if(r.len > 16000, "length_near_or_above_16384");
    rep.nontrivial = case.structured && r.complete;
    Ok(rep)
}

// ------------------------------------------------------------------ run

pub fn run(args: &Args) -> i32 {
    if args.shard.is_some() {
        let st = super::c15_conn::child(args);
        return engine::shard::child_finish(args, &st);
    }
    let mut ev = Evidence::new(args, "exploration");
    ev.rule(
        SUB_DECODER,
        "inputs to parser::frame_header + parser::frame_body with max_frame_size 16384 or 2^24-1: (5/6) structured frames - a valid frame of every RFC 9113 type (plus RFC 9218 PRIORITY_UPDATE and unknown types) built by the harness's own encoder, 45% left pristine, the others with independent near-miss mutations (declared length off by small deltas or forced to 0/1/4/5/8/16384/16385/2^24-1, stream id 0 where forbidden and the reverse, reserved bit, arbitrary flags incl. PADDED/PRIORITY/ACK, Pad Length replaced, frame truncated, unrelated bytes after the frame) - and (1/6) arbitrary byte strings. Oracle: an independent decoder written from RFC 9113 4.1/4.2/6.1-6.10: no panic; Ok only for a complete frame that breaks no rule, consuming exactly 9 + declared length (the rest of the input untouched) with type, flags, stream id (reserved bit ignored) and every typed field (padding stripped, priority fields, SETTINGS list, PING data, GOAWAY fields, increment) equal to the reference; Err with one of the classes of the rules the frame breaks (FRAME_SIZE_ERROR for size rules, PROTOCOL_ERROR for stream-id and padding rules); where the RFC leaves a choice or the check belongs to a later layer (zero increment, SETTINGS values, self-dependency, PUSH_PROMISE, more than 64 SETTINGS entries, PRIORITY_UPDATE) both verdicts are admitted. Non-trivial: a structured, complete frame.",
    );
    ev.assume("a nom-kind (unclassified) decoder error is read as PROTOCOL_ERROR, which is how the only production caller (h2.rs error_nom_to_h2) reports it");
    ev.assume("frame_header and frame_body are judged as one decoder: an error of either stage counts, in the order the production caller invokes them");
    ev.floor(SUB_DECODER, "structured_frame", 0.6);
    ev.floor(SUB_DECODER, "ok", 0.25);
    ev.floor(SUB_DECODER, "err:FRAME_SIZE_ERROR", 0.08);
    ev.floor(SUB_DECODER, "err:PROTOCOL_ERROR", 0.05);
    ev.floor(SUB_DECODER, "err:incomplete_input", 0.01);
    ev.floor(SUB_DECODER, "ok_padded", 0.01);
    ev.floor(SUB_DECODER, "ok_with_trailing_bytes_left_untouched", 0.03);
    for t in ["DATA", "HEADERS", "PRIORITY", "RST_STREAM", "SETTINGS", "PUSH_PROMISE", "PING", "GOAWAY", "WINDOW_UPDATE", "CONTINUATION", "UNKNOWN"] {
        ev.floor(SUB_DECODER, &format!("type:{t}"), 0.03);
    }
    // a replay file names its sub-check: run only that one
    let replay_sub: Option<String> = args.replay.as_ref().and_then(|p| std::fs::read_to_string(p).ok()).and_then(|t| serde_json::from_str::<serde_json::Value>(&t).ok()).and_then(|v| v.get("sub").and_then(|s| s.as_str()).map(|s| s.to_string()));
    let wanted = |sub: &str| args.wants(sub) && replay_sub.as_deref().map(|r| r == sub).unwrap_or(true);
    if wanted(SUB_DECODER) {
        // the decoder logs every stream-id rejection through sozu's uninitialised logger (stdout)
        engine::with_quiet_stdout(|| engine::run_pbt(&mut ev, args, SUB_DECODER, args.cases(1_000_000, 12_000_000), decoder_strategy, decoder_check));
    }

    if wanted("corpus") {
        engine::with_quiet_stdout(|| engine::fuzz::corpus_check(&mut ev, args, "corpus", "h2_frames", "C15/corpus", &["rejected"], vp_oracles::h2_frame));
    }
    engine::fuzz::campaign(&mut ev, args, "fuzz", "h2_frames", 3_000_000);

    super::c15_conn::describe(&mut ev);
    if wanted(SUB_CONN) {
        engine::shard::run_sharded(&mut ev, args, SUB_CONN, 16, Duration::from_secs(args.tier.pick(600, 3600)));
    }
    ev.finish()
}
