//! C12 — traffic only goes to backends that are eligible right now.
//!
//! Stateful PBT on the real `sozu_lib::backends::BackendMap` / `BackendList` against a
//! reference model of eligibility (member ∧ Normal ∧ healthy ∧ ¬in back-off), the
//! primary → backup → documented fail-open cascade, sticky-cookie precedence, HRW/Maglev
//! key affinity, and per-backend connection/request counters. In-process tier only: the
//! selection entry points used are the ones that do not need a live peer
//! (`BackendMap::backend_from_cluster_id_with_key`, `BackendList::find_sticky`); a
//! "connection" is the `Rc<RefCell<Backend>>` handle a session would hold, opened with
//! `inc_connections()` (what `try_connect` does on success) and closed with
//! `dec_connections()`. See DESIGN.md §4 C12 and scratch/design_C12.md.
//!
//! Sub-checks (same generator and oracle, partitioned by policy so that one defect does not
//! hide the rest of the exploration):
//! * `history`         — round robin, random, least loaded, HRW, Maglev; membership / sticky /
//!   counters / drain-then-retire.
//! * `power_of_two`    — the same with the power-of-two policy (and its three metrics).
//! * `affinity_hrw`, `affinity_maglev` — one affinity policy, mostly keyed selections;
//!   additionally: same key → same backend while the eligible set is unchanged.

use std::{cell::RefCell, collections::BTreeMap, net::SocketAddr, rc::Rc, time::Duration};

use proptest::prelude::*;
use serde::{Deserialize, Serialize};
use sozu_command_lib::proto::command::{
    EventKind, LoadBalancingAlgorithms, LoadBalancingParams, LoadMetric,
    response_content::ContentType,
};
use sozu_lib::{
    backends::{Backend, BackendMap, BackendStatus},
    retry::{RetryAction, RetryPolicy},
    server::QUEUE,
};

use crate::engine::{self, Args, CaseReport, CheckResult, Evidence, Failure};

// ------------------------------------------------------------------ constants

const MAX_ADDRS: u8 = 6;
/// `Backend::new` gives every backend `ExponentialBackoffPolicy::new(6)`
const MAX_TRIES: usize = 6;
/// a back-off window that cannot elapse during a case
const LONG_BACKOFF: Duration = Duration::from_secs(3600);
/// affinity keys (fixed, spread over the u64 space; the generator picks an index)
const KEYS: [u64; 8] = [
    0,
    1,
    42,
    65_537,
    0x9E37_79B9_7F4A_7C15,
    0xDEAD_BEEF_CAFE_F00D,
    u64::MAX,
    0x0123_4567_89AB_CDEF,
];
const POLICY_NAMES: [&str; 6] = ["round_robin", "random", "least_loaded", "power_of_two", "hrw", "maglev"];

fn cluster_id(c: usize) -> &'static str {
    if c == 0 { "c0" } else { "c1" }
}

fn addr_of(a: u8) -> SocketAddr {
    if a == 5 {
        // one IPv6 member so both hashing branches are exercised
        "[fd00::5]:8085".parse().unwrap()
    } else {
        format!("10.9.0.{}:{}", a + 1, 8080 + a as u16).parse().unwrap()
    }
}

fn backend_id_of(a: u8, v: u8) -> String {
    format!("b{a}v{v}")
}

fn cookie_of(a: u8, v: u8) -> String {
    format!("sk-{a}-{v}")
}

fn algo_of(x: u8) -> LoadBalancingAlgorithms {
    match x {
        0 => LoadBalancingAlgorithms::RoundRobin,
        1 => LoadBalancingAlgorithms::Random,
        2 => LoadBalancingAlgorithms::LeastLoaded,
        3 => LoadBalancingAlgorithms::PowerOfTwo,
        4 => LoadBalancingAlgorithms::Hrw,
        _ => LoadBalancingAlgorithms::Maglev,
    }
}

fn metric_of(x: u8) -> Option<LoadMetric> {
    match x {
        0 => Some(LoadMetric::Connections),
        1 => Some(LoadMetric::Requests),
        2 => Some(LoadMetric::ConnectionTime),
        _ => None,
    }
}

// ------------------------------------------------------------------ case

#[derive(Clone, Debug, Serialize, Deserialize)]
pub enum Op {
    /// add, or update in place when (address, id) is already a member
    Add { c: u8, a: u8, v: u8, weight: Option<u8>, backup: bool, sticky: bool },
    /// address-keyed removal (drops every id at that address)
    Remove { c: u8, a: u8 },
    SetPolicy { c: u8, algo: u8, metric: u8 },
    /// `n` consecutive failed health probes on member `b`
    HealthFail { c: u8, b: u32, n: u8 },
    /// `n` consecutive successful health probes on member `b`
    HealthOk { c: u8, b: u32, n: u8 },
    /// `set_health_check_config(cluster, None)`: resets every member to healthy
    ClearHealth { c: u8 },
    /// `retry_policy.fail()` (a failed connect), window then pinned to 3600 s
    RetryFail { c: u8, b: u32 },
    RetrySucceed { c: u8, b: u32 },
    ForceDown { c: u8, b: u32 },
    ForceBackoff { c: u8, b: u32 },
    ExpireBackoff { c: u8, b: u32 },
    /// `Backend::set_closing()` on a member ("being removed")
    MarkClosing { c: u8, b: u32 },
    ConnTime { c: u8, b: u32, ms: u16 },
    /// selection only
    Select { c: u8, key: Option<u8> },
    /// selection + `inc_connections`
    Open { c: u8, key: Option<u8> },
    /// selection with the sticky cookie of backend (a, v), + `inc_connections`
    OpenSticky { c: u8, a: u8, v: u8 },
    Close { conn: u32 },
    StartReq { conn: u32 },
    EndReq { conn: u32 },
}

#[derive(Clone, Debug, Serialize, Deserialize)]
pub struct Case {
    pub th_unhealthy: u32,
    pub th_healthy: u32,
    pub ops: Vec<Op>,
    /// assert key affinity (sub-check `affinity`)
    #[serde(default)]
    pub affinity: bool,
    /// reproducer mode: do not exclude the known-finding shape `C12/affinity-moved:maglev`
    /// (a Maglev table rebuild while the eligible set is unchanged), fail with its signature
    #[serde(default)]
    pub strict: bool,
}

fn cluster_strategy() -> impl Strategy<Value = u8> {
    prop_oneof![5 => Just(0u8), 1 => Just(1u8)]
}

fn variant_strategy() -> impl Strategy<Value = u8> {
    prop_oneof![11 => Just(0u8), 1 => Just(1u8)]
}

fn weight_strategy() -> impl Strategy<Value = Option<u8>> {
    prop_oneof![
        4 => Just(None),
        2 => Just(Some(100u8)),
        1 => Just(Some(0u8)),
        1 => Just(Some(1u8)),
        1 => Just(Some(50u8)),
        1 => Just(Some(255u8)),
        1 => any::<u8>().prop_map(Some),
    ]
}

fn key_strategy(affinity: bool) -> BoxedStrategy<Option<u8>> {
    if affinity {
        prop_oneof![1 => Just(None), 9 => (0u8..KEYS.len() as u8).prop_map(Some)].boxed()
    } else {
        prop_oneof![3 => Just(None), 2 => (0u8..KEYS.len() as u8).prop_map(Some)].boxed()
    }
}

fn add_strategy() -> impl Strategy<Value = Op> {
    (
        cluster_strategy(),
        0u8..MAX_ADDRS,
        variant_strategy(),
        weight_strategy(),
        prop::bool::weighted(0.3),
        prop::bool::weighted(0.75),
    )
        .prop_map(|(c, a, v, weight, backup, sticky)| Op::Add { c, a, v, weight, backup, sticky })
}

/// which policies a sub-check draws from
#[derive(Clone, Copy, Debug, PartialEq, Eq)]
enum Mode {
    /// every policy but power-of-two
    History,
    PowerOfTwo,
    Hrw,
    Maglev,
}

impl Mode {
    fn affinity(self) -> bool {
        matches!(self, Mode::Hrw | Mode::Maglev)
    }
}

fn policy_strategy(mode: Mode) -> BoxedStrategy<Op> {
    let algo = match mode {
        Mode::History => prop_oneof![Just(0u8), Just(1u8), Just(2u8), Just(4u8), Just(5u8)].boxed(),
        Mode::PowerOfTwo => Just(3u8).boxed(),
        Mode::Hrw => Just(4u8).boxed(),
        Mode::Maglev => Just(5u8).boxed(),
    };
    (cluster_strategy(), algo, 0u8..4)
        .prop_map(|(c, algo, metric)| Op::SetPolicy { c, algo, metric })
        .boxed()
}

fn op_strategy(mode: Mode) -> impl Strategy<Value = Op> {
    let affinity = mode.affinity();
    let c = cluster_strategy;
    let b = any::<u32>;
    prop_oneof![
        10 => add_strategy(),
        5 => (c(), 0u8..MAX_ADDRS).prop_map(|(c, a)| Op::Remove { c, a }),
        if affinity { 2 } else { 4 } => policy_strategy(mode),
        6 => (c(), b(), 1u8..4).prop_map(|(c, b, n)| Op::HealthFail { c, b, n }),
        4 => (c(), b(), 1u8..4).prop_map(|(c, b, n)| Op::HealthOk { c, b, n }),
        1 => c().prop_map(|c| Op::ClearHealth { c }),
        4 => (c(), b()).prop_map(|(c, b)| Op::RetryFail { c, b }),
        2 => (c(), b()).prop_map(|(c, b)| Op::RetrySucceed { c, b }),
        1 => (c(), b()).prop_map(|(c, b)| Op::ForceDown { c, b }),
        3 => (c(), b()).prop_map(|(c, b)| Op::ForceBackoff { c, b }),
        3 => (c(), b()).prop_map(|(c, b)| Op::ExpireBackoff { c, b }),
        1 => (c(), b()).prop_map(|(c, b)| Op::MarkClosing { c, b }),
        1 => (c(), b(), 0u16..2000).prop_map(|(c, b, ms)| Op::ConnTime { c, b, ms }),
        if affinity { 12 } else { 8 } => (c(), key_strategy(affinity)).prop_map(|(c, key)| Op::Select { c, key }),
        12 => (c(), key_strategy(affinity)).prop_map(|(c, key)| Op::Open { c, key }),
        6 => (c(), 0u8..MAX_ADDRS, variant_strategy()).prop_map(|(c, a, v)| Op::OpenSticky { c, a, v }),
        8 => any::<u32>().prop_map(|conn| Op::Close { conn }),
        2 => any::<u32>().prop_map(|conn| Op::StartReq { conn }),
        2 => any::<u32>().prop_map(|conn| Op::EndReq { conn }),
    ]
}

fn normalise(op: Op, two_clusters: bool, n_addrs: u8) -> Op {
    let cc = |c: u8| if two_clusters { c } else { 0 };
    let aa = |a: u8| a.min(n_addrs - 1);
    match op {
        Op::Add { c, a, v, weight, backup, sticky } => Op::Add { c: cc(c), a: aa(a), v, weight, backup, sticky },
        Op::Remove { c, a } => Op::Remove { c: cc(c), a: aa(a) },
        Op::SetPolicy { c, algo, metric } => Op::SetPolicy { c: cc(c), algo, metric },
        Op::HealthFail { c, b, n } => Op::HealthFail { c: cc(c), b, n },
        Op::HealthOk { c, b, n } => Op::HealthOk { c: cc(c), b, n },
        Op::ClearHealth { c } => Op::ClearHealth { c: cc(c) },
        Op::RetryFail { c, b } => Op::RetryFail { c: cc(c), b },
        Op::RetrySucceed { c, b } => Op::RetrySucceed { c: cc(c), b },
        Op::ForceDown { c, b } => Op::ForceDown { c: cc(c), b },
        Op::ForceBackoff { c, b } => Op::ForceBackoff { c: cc(c), b },
        Op::ExpireBackoff { c, b } => Op::ExpireBackoff { c: cc(c), b },
        Op::MarkClosing { c, b } => Op::MarkClosing { c: cc(c), b },
        Op::ConnTime { c, b, ms } => Op::ConnTime { c: cc(c), b, ms },
        Op::Select { c, key } => Op::Select { c: cc(c), key },
        Op::Open { c, key } => Op::Open { c: cc(c), key },
        Op::OpenSticky { c, a, v } => Op::OpenSticky { c: cc(c), a: aa(a), v },
        o @ (Op::Close { .. } | Op::StartReq { .. } | Op::EndReq { .. }) => o,
    }
}

fn strategy_for(mode: Mode) -> impl Strategy<Value = Case> {
    let affinity = mode.affinity();
    (
        prop_oneof![3 => Just(1u32), 1 => Just(2u32), 1 => Just(3u32)],
        prop_oneof![3 => Just(1u32), 1 => Just(2u32), 1 => Just(3u32)],
        prop::bool::weighted(0.3),
        1u8..=MAX_ADDRS,
        policy_strategy(mode),
        prop::collection::vec(add_strategy(), 1..6),
        // no lower bound on the body: proptest cannot shrink a vec below its minimum length
        prop::collection::vec(op_strategy(mode), 0..46),
    )
        .prop_map(move |(th_unhealthy, th_healthy, two, n_addrs, policy, adds, body)| {
            let mut ops = Vec::with_capacity(1 + adds.len() + body.len());
            // the prefix always targets cluster 0 so that state accumulates there
            ops.push(normalise(policy, false, n_addrs));
            ops.extend(adds.into_iter().map(|o| normalise(o, false, n_addrs)));
            ops.extend(body.into_iter().map(|o| normalise(o, two, n_addrs)));
            Case { th_unhealthy, th_healthy, ops, affinity, strict: false }
        })
}

pub fn strategy() -> impl Strategy<Value = Case> {
    strategy_for(Mode::History)
}

// ------------------------------------------------------------------ model

#[derive(Clone, Copy, Debug, PartialEq, Eq)]
enum St {
    Normal,
    Closing,
    Closed,
}

#[derive(Clone, Debug)]
struct MB {
    a: u8,
    v: u8,
    weight: Option<u8>,
    backup: bool,
    sticky: bool,
    st: St,
    healthy: bool,
    succ: u32,
    fails: u32,
    in_backoff: bool,
    tries: usize,
    open: usize,
    reqs: usize,
    member: bool,
}

impl MB {
    /// the property's "eligible right now"
    fn eligible(&self) -> bool {
        self.member && self.st == St::Normal && self.healthy && !self.in_backoff
    }
    /// the documented fail-open candidate: administratively normal and not backing off
    fn fail_open_ok(&self) -> bool {
        self.member && self.st == St::Normal && !self.in_backoff
    }
    fn why_not(&self) -> &'static str {
        if !self.member {
            "not-member"
        } else if self.st != St::Normal {
            "being-removed"
        } else if self.in_backoff {
            "in-backoff"
        } else if !self.healthy {
            "unhealthy"
        } else {
            "backup-while-primary-eligible"
        }
    }
}

#[derive(Clone, Debug, Default)]
struct MCluster {
    exists: bool,
    members: Vec<usize>,
    /// policy in force (index into POLICY_NAMES); sozu's default is Random
    policy: u8,
    epoch: u32,
}

#[derive(Clone, Copy, Debug, PartialEq, Eq)]
enum Tier {
    Primary,
    Backup,
    FailOpen,
    None,
}

type Fingerprint = (u32, bool, Vec<(u8, u8, Option<u8>, bool)>);

struct Model {
    insts: Vec<MB>,
    clusters: [MCluster; 2],
}

impl Model {
    fn admissible(&self, c: usize) -> (Tier, Vec<usize>) {
        let m = &self.clusters[c].members;
        let prim: Vec<usize> = m.iter().copied().filter(|&i| self.insts[i].eligible() && !self.insts[i].backup).collect();
        if !prim.is_empty() {
            return (Tier::Primary, prim);
        }
        let back: Vec<usize> = m.iter().copied().filter(|&i| self.insts[i].eligible() && self.insts[i].backup).collect();
        if !back.is_empty() {
            return (Tier::Backup, back);
        }
        let fo: Vec<usize> = m.iter().copied().filter(|&i| self.insts[i].fail_open_ok()).collect();
        if !fo.is_empty() {
            return (Tier::FailOpen, fo);
        }
        (Tier::None, vec![])
    }

    fn any_ineligible_member(&self, c: usize) -> bool {
        self.clusters[c].members.iter().any(|&i| !self.insts[i].eligible())
    }

    /// The eligible set of a cluster with the attributes selection depends on (or, when
    /// nobody is eligible, the fail-open set), tagged with the policy epoch.
    fn fingerprint(&self, c: usize) -> Fingerprint {
        let m = &self.clusters[c].members;
        let attrs = |i: &usize| {
            let b = &self.insts[*i];
            (b.a, b.v, b.weight, b.backup)
        };
        let mut el: Vec<_> = m.iter().filter(|&&i| self.insts[i].eligible()).map(attrs).collect();
        let mut fo = false;
        if el.is_empty() {
            fo = true;
            el = m.iter().filter(|&&i| self.insts[i].fail_open_ok()).map(attrs).collect();
        }
        el.sort();
        (self.clusters[c].epoch, fo, el)
    }

    fn member_idx(&self, c: usize, x: u32) -> Option<usize> {
        let m = &self.clusters[c].members;
        if m.is_empty() { None } else { Some(m[engine::pick_idx(x, m.len())]) }
    }

    fn find_member(&self, c: usize, a: u8, v: u8) -> Option<usize> {
        self.clusters[c].members.iter().copied().find(|&i| self.insts[i].a == a && self.insts[i].v == v)
    }
}

struct Conn {
    inst: usize,
    rc: Rc<RefCell<Backend>>,
    req: bool,
}

// ------------------------------------------------------------------ driving sozu

fn drain_retire_events() -> Vec<(String, SocketAddr)> {
    let mut out = vec![];
    QUEUE.with(|q| {
        for resp in q.borrow_mut().drain(..) {
            if let Some(ContentType::Event(e)) = resp.content.and_then(|c| c.content_type) {
                if e.kind == EventKind::RemovedBackendHasNoConnections as i32 {
                    out.push((e.backend_id.unwrap_or_default(), e.address.map(SocketAddr::from).unwrap_or_else(|| "0.0.0.0:0".parse().unwrap())));
                }
            }
        }
    });
    out.sort();
    out
}

fn member_rc(map: &BackendMap, c: usize, a: u8, v: u8) -> Option<Rc<RefCell<Backend>>> {
    let id = backend_id_of(a, v);
    let addr = addr_of(a);
    map.backends.get(cluster_id(c)).and_then(|l| {
        l.backends
            .iter()
            .find(|b| {
                let b = b.borrow();
                b.backend_id == id && b.address == addr
            })
            .cloned()
    })
}

struct Ctx<'a> {
    case: &'a Case,
    map: BackendMap,
    model: Model,
    conns: Vec<Conn>,
    rep: CaseReport,
    /// (cluster, key index) -> (fingerprint, chosen (a, v))
    memo: BTreeMap<(usize, u8), (Fingerprint, (u8, u8))>,
    last_fp: [Option<Fingerprint>; 2],
    /// the last op made sozu rebuild the cluster's Maglev table with different inputs through a
    /// change to a member that is not eligible (removal, in-place weight update)
    rebuilt_by_ineligible: [bool; 2],
    /// strict cases only: the affinity window of the cluster was kept open across a Maglev rebuild caused by an
    /// ineligible member (the known finding); a key that moves in such a window gets the finding's own signature
    window_crossed_rebuild: [bool; 2],
    excluded_known: u64,
    expected_events: Vec<(String, SocketAddr)>,
    selections: u64,
    flags: Flags,
}

#[derive(Default)]
struct Flags {
    readd: bool,
    health_flip: bool,
    backoff_flip: bool,
    select_with_ineligible: bool,
    tier_primary: bool,
    tier_backup: bool,
    tier_failopen: bool,
    tier_none: bool,
    sticky_hit: bool,
    sticky_fallback: bool,
    sticky_backup_wins: bool,
    drain_after_remove: bool,
    retired_after_drain: bool,
    in_place_update: bool,
    shared_address: bool,
    two_clusters: bool,
    closing: bool,
    down: bool,
    affinity_repeat: bool,
    maglev_rebuild_excluded: bool,
    update_emits_retire_event: bool,
    policies: [bool; 6],
}

impl Ctx<'_> {
    /// Admissible-set oracle for one selection result. `picked` is the (id, address) sozu returned.
    fn judge(&mut self, c: usize, picked: Option<(String, SocketAddr)>, what: &str) -> Result<Option<usize>, Failure> {
        let (tier, adm) = self.model.admissible(c);
        self.selections += 1;
        match tier {
            Tier::Primary => self.flags.tier_primary = true,
            Tier::Backup => self.flags.tier_backup = true,
            Tier::FailOpen => self.flags.tier_failopen = true,
            Tier::None => self.flags.tier_none = true,
        }
        if self.model.any_ineligible_member(c) {
            self.flags.select_with_ineligible = true;
        }
        let Some((id, addr)) = picked else {
            if !adm.is_empty() {
                fail!(
                    "C12/no-backend-despite-candidates",
                    "{what} on {}: sozu returned no backend but the model's {tier:?} set is {:?}",
                    cluster_id(c),
                    self.describe(&adm)
                );
            }
            return Ok(None);
        };
        // identify the instance: a current member first, otherwise any instance ever created
        let inst = self.model.clusters[c]
            .members
            .iter()
            .copied()
            .find(|&i| backend_id_of(self.model.insts[i].a, self.model.insts[i].v) == id && addr_of(self.model.insts[i].a) == addr);
        let Some(inst) = inst else {
            fail!(
                "C12/selected-ineligible:not-member",
                "{what} on {}: sozu picked ({id}, {addr}) which is not a current member; members={:?}",
                cluster_id(c),
                self.describe(&self.model.clusters[c].members)
            );
        };
        if !adm.contains(&inst) {
            let why = self.model.insts[inst].why_not();
            fail!(
                format!("C12/selected-ineligible:{why}"),
                "{what} on {} (policy {}): sozu picked ({id}, {addr}) [{why}] but the admissible {tier:?} set is {:?}; members={:?}",
                cluster_id(c),
                POLICY_NAMES[self.model.clusters[c].policy as usize],
                self.describe(&adm),
                self.describe(&self.model.clusters[c].members)
            );
        }
        Ok(Some(inst))
    }

    fn describe(&self, v: &[usize]) -> Vec<String> {
        v.iter()
            .map(|&i| {
                let b = &self.model.insts[i];
                format!(
                    "{}{}{}{}{}",
                    backend_id_of(b.a, b.v),
                    if b.backup { "/backup" } else { "" },
                    if b.healthy { "" } else { "/unhealthy" },
                    if b.in_backoff { "/backoff" } else { "" },
                    if b.st == St::Normal { "" } else { "/closing" },
                )
            })
            .collect()
    }

    /// plain (optionally keyed) selection through the BackendMap entry point that does not connect
    fn select(&mut self, c: usize, key: Option<u8>, what: &str) -> Result<Option<usize>, Failure> {
        let k = key.map(|k| KEYS[k as usize % KEYS.len()]);
        let picked = self.map.backend_from_cluster_id_with_key(cluster_id(c), k).ok();
        let inst = self.judge(c, picked, what)?;
        if let (Some(kidx), Some(inst)) = (key, inst) {
            self.affinity_observe(c, kidx, inst)?;
        }
        Ok(inst)
    }

    /// HRW / Maglev: same key → same backend while the eligible set is unchanged
    fn affinity_observe(&mut self, c: usize, kidx: u8, inst: usize) -> Result<(), Failure> {
        let pol = self.model.clusters[c].policy;
        if pol < 4 {
            return Ok(());
        }
        let fp = self.model.fingerprint(c);
        let got = (self.model.insts[inst].a, self.model.insts[inst].v);
        if let Some((old_fp, old)) = self.memo.get(&(c, kidx)) {
            if *old_fp == fp {
                self.flags.affinity_repeat = true;
                if *old != got && self.case.affinity {
                    fail!(
                        format!("C12/affinity-moved:{}{}", POLICY_NAMES[pol as usize], if self.window_crossed_rebuild[c] { ":after-rebuild-by-ineligible-member" } else { "" }),
                        "{} policy {}: key {:#x} went to {} and now goes to {} although the eligible set is unchanged: {:?}",
                        cluster_id(c),
                        POLICY_NAMES[pol as usize],
                        KEYS[kidx as usize],
                        backend_id_of(old.0, old.1),
                        backend_id_of(got.0, got.1),
                        fp.2
                    );
                }
            }
        }
        self.memo.insert((c, kidx), (fp, got));
        Ok(())
    }

    fn open_on(&mut self, c: usize, inst: usize) -> Result<(), Failure> {
        let (a, v) = (self.model.insts[inst].a, self.model.insts[inst].v);
        let Some(rc) = member_rc(&self.map, c, a, v) else {
            fail!("C12/state-desync:member-missing", "selected member {} is not in sozu's list", backend_id_of(a, v));
        };
        let r = rc.borrow_mut().inc_connections();
        self.model.insts[inst].open += 1;
        if r != Some(self.model.insts[inst].open) {
            fail!(
                "C12/count-drift:inc",
                "inc_connections on {} returned {r:?}, model open count {}",
                backend_id_of(a, v),
                self.model.insts[inst].open
            );
        }
        self.conns.push(Conn { inst, rc, req: false });
        Ok(())
    }

    fn end_request(&mut self, ci: usize) {
        if self.conns[ci].req {
            let mut b = self.conns[ci].rc.borrow_mut();
            // what the session code does (kawa_h1 / mux): saturating decrement of the pub field
            b.active_requests = b.active_requests.saturating_sub(1);
            drop(b);
            self.conns[ci].req = false;
            let inst = self.conns[ci].inst;
            self.model.insts[inst].reqs -= 1;
        }
    }

    fn close(&mut self, ci: usize) -> Result<(), Failure> {
        self.end_request(ci);
        let conn = self.conns.remove(ci);
        let inst = conn.inst;
        let r = conn.rc.borrow_mut().dec_connections();
        let mb = &mut self.model.insts[inst];
        if mb.open == 0 {
            // cannot happen: a handle exists only after an inc
            fail!("C12/harness-bug", "close on an instance with model open count 0");
        }
        mb.open -= 1;
        let expect = match mb.st {
            St::Normal => Some(mb.open),
            St::Closing => {
                if mb.open == 0 {
                    mb.st = St::Closed;
                    None
                } else {
                    Some(mb.open)
                }
            }
            St::Closed => None,
        };
        if r != expect {
            fail!(
                "C12/count-drift:dec",
                "dec_connections on {} returned {r:?}, model expects {expect:?}",
                backend_id_of(mb.a, mb.v)
            );
        }
        if !mb.member {
            self.flags.drain_after_remove = true;
            if mb.open == 0 {
                // last session handle of a removed backend: it must retire now (be dropped)
                let strong = Rc::strong_count(&conn.rc);
                if strong != 1 {
                    fail!(
                        "C12/removed-backend-not-retired",
                        "removed backend {} drained to 0 connections but {} other reference(s) keep it alive",
                        backend_id_of(mb.a, mb.v),
                        strong - 1
                    );
                }
                self.expected_events.push((backend_id_of(mb.a, mb.v), addr_of(mb.a)));
                self.flags.retired_after_drain = true;
            }
        }
        drop(conn);
        Ok(())
    }

    fn apply(&mut self, op: &Op) -> Result<(), Failure> {
        match *op {
            Op::Add { c, a, v, weight, backup, sticky } => {
                let c = c as usize;
                if c == 1 {
                    self.flags.two_clusters = true;
                }
                let backend = Backend::new(
                    &backend_id_of(a, v),
                    addr_of(a),
                    sticky.then(|| cookie_of(a, v)),
                    weight.map(|w| LoadBalancingParams { weight: w as i32 }),
                    if backup { Some(true) } else { None },
                );
                self.map.add_backend(cluster_id(c), backend);
                self.model.clusters[c].exists = true;
                if let Some(i) = self.model.find_member(c, a, v) {
                    // update in place, connection / retry / health state kept
                    let mb = &mut self.model.insts[i];
                    if !mb.eligible() && mb.weight != weight {
                        // the table is rebuilt with a different weight for a member that is not
                        // in the eligible set (this covers an ineligible twin sharing an address)
                        self.rebuilt_by_ineligible[c] = true;
                    }
                    mb.weight = weight;
                    mb.backup = backup;
                    mb.sticky = sticky;
                    self.flags.in_place_update = true;
                    // observation (not part of the property): the temporary `Backend` value
                    // passed to add_backend is dropped, and `Drop for Backend` emits a
                    // REMOVED_BACKEND_HAS_NO_CONNECTIONS event for a backend that is still live
                    self.expected_events.push((backend_id_of(a, v), addr_of(a)));
                    self.flags.update_emits_retire_event = true;
                } else {
                    if self.model.insts.iter().any(|b| !b.member && b.a == a && b.v == v) {
                        self.flags.readd = true;
                    }
                    if self.model.clusters[c].members.iter().any(|&i| self.model.insts[i].a == a) {
                        self.flags.shared_address = true;
                    }
                    self.model.insts.push(MB {
                        a,
                        v,
                        weight,
                        backup,
                        sticky,
                        st: St::Normal,
                        healthy: true,
                        succ: 0,
                        fails: 0,
                        in_backoff: false,
                        tries: 0,
                        open: 0,
                        reqs: 0,
                        member: true,
                    });
                    let i = self.model.insts.len() - 1;
                    self.model.clusters[c].members.push(i);
                }
            }
            Op::Remove { c, a } => {
                let c = c as usize;
                let removed = self.map.remove_backend(cluster_id(c), &addr_of(a));
                let gone: Vec<usize> = self.model.clusters[c].members.iter().copied().filter(|&i| self.model.insts[i].a == a).collect();
                self.model.clusters[c].members.retain(|i| !gone.contains(i));
                let expect_ids: Vec<String> = gone.iter().map(|&i| backend_id_of(self.model.insts[i].a, self.model.insts[i].v)).collect();
                if removed != expect_ids {
                    fail!("C12/remove-ids", "remove_backend({}, {}) returned {removed:?}, model expects {expect_ids:?}", cluster_id(c), addr_of(a));
                }
                for i in gone {
                    let mb = &mut self.model.insts[i];
                    if !mb.eligible() {
                        // the table is rebuilt without a member that was not in the eligible set
                        self.rebuilt_by_ineligible[c] = true;
                    }
                    mb.member = false;
                    if mb.open == 0 {
                        // nobody holds it: dropped (retired) at once
                        self.expected_events.push((backend_id_of(mb.a, mb.v), addr_of(mb.a)));
                    }
                }
            }
            Op::SetPolicy { c, algo, metric } => {
                let c = c as usize;
                if c == 1 {
                    self.flags.two_clusters = true;
                }
                self.map.set_load_balancing_policy_for_cluster(cluster_id(c), algo_of(algo), metric_of(metric));
                let mc = &mut self.model.clusters[c];
                mc.exists = true;
                mc.policy = algo.min(5);
                mc.epoch += 1;
            }
            Op::HealthFail { c, b, n } => {
                let c = c as usize;
                if let Some(i) = self.model.member_idx(c, b) {
                    let rc = member_rc(&self.map, c, self.model.insts[i].a, self.model.insts[i].v);
                    for _ in 0..n {
                        let mb = &mut self.model.insts[i];
                        mb.succ = 0;
                        mb.fails += 1;
                        let flip = mb.healthy && mb.fails >= self.case.th_unhealthy;
                        if flip {
                            mb.healthy = false;
                            self.flags.health_flip = true;
                        }
                        if let Some(rc) = &rc {
                            let got = rc.borrow_mut().health.record_failure(self.case.th_unhealthy);
                            if got != flip {
                                fail!("C12/state-desync:health-transition", "record_failure returned {got}, model {flip}");
                            }
                        }
                    }
                }
            }
            Op::HealthOk { c, b, n } => {
                let c = c as usize;
                if let Some(i) = self.model.member_idx(c, b) {
                    let rc = member_rc(&self.map, c, self.model.insts[i].a, self.model.insts[i].v);
                    for _ in 0..n {
                        let mb = &mut self.model.insts[i];
                        mb.fails = 0;
                        mb.succ += 1;
                        let flip = !mb.healthy && mb.succ >= self.case.th_healthy;
                        if flip {
                            mb.healthy = true;
                            self.flags.health_flip = true;
                        }
                        if let Some(rc) = &rc {
                            let got = rc.borrow_mut().health.record_success(self.case.th_healthy);
                            if got != flip {
                                fail!("C12/state-desync:health-transition", "record_success returned {got}, model {flip}");
                            }
                        }
                    }
                }
            }
            Op::ClearHealth { c } => {
                let c = c as usize;
                self.map.set_health_check_config(cluster_id(c), None);
                for &i in &self.model.clusters[c].members.clone() {
                    let mb = &mut self.model.insts[i];
                    if !mb.healthy {
                        self.flags.health_flip = true;
                    }
                    mb.healthy = true;
                    mb.succ = 0;
                    mb.fails = 0;
                }
            }
            Op::RetryFail { c, b } => {
                let c = c as usize;
                if let Some(i) = self.model.member_idx(c, b) {
                    if let Some(rc) = member_rc(&self.map, c, self.model.insts[i].a, self.model.insts[i].v) {
                        let mut be = rc.borrow_mut();
                        be.retry_policy().fail();
                        let mb = &mut self.model.insts[i];
                        if !mb.in_backoff {
                            // fail() armed a 1..2^tries s window; pin it to a length that cannot
                            // elapse during the case so the check never depends on the wall clock
                            be.retry_policy().verif_force_backoff(LONG_BACKOFF);
                            mb.tries = (mb.tries + 1).min(MAX_TRIES);
                            mb.in_backoff = true;
                            self.flags.backoff_flip = true;
                        }
                    }
                }
            }
            Op::RetrySucceed { c, b } => {
                let c = c as usize;
                if let Some(i) = self.model.member_idx(c, b) {
                    if let Some(rc) = member_rc(&self.map, c, self.model.insts[i].a, self.model.insts[i].v) {
                        rc.borrow_mut().retry_policy().succeed();
                        let mb = &mut self.model.insts[i];
                        if mb.in_backoff {
                            self.flags.backoff_flip = true;
                        }
                        mb.in_backoff = false;
                        mb.tries = 0;
                    }
                }
            }
            Op::ForceDown { c, b } => {
                let c = c as usize;
                if let Some(i) = self.model.member_idx(c, b) {
                    if let Some(rc) = member_rc(&self.map, c, self.model.insts[i].a, self.model.insts[i].v) {
                        rc.borrow_mut().retry_policy().verif_force_down();
                        self.model.insts[i].tries = MAX_TRIES;
                        self.flags.down = true;
                    }
                }
            }
            Op::ForceBackoff { c, b } => {
                let c = c as usize;
                if let Some(i) = self.model.member_idx(c, b) {
                    if let Some(rc) = member_rc(&self.map, c, self.model.insts[i].a, self.model.insts[i].v) {
                        rc.borrow_mut().retry_policy().verif_force_backoff(LONG_BACKOFF);
                        let mb = &mut self.model.insts[i];
                        if !mb.in_backoff {
                            self.flags.backoff_flip = true;
                        }
                        mb.in_backoff = true;
                    }
                }
            }
            Op::ExpireBackoff { c, b } => {
                let c = c as usize;
                if let Some(i) = self.model.member_idx(c, b) {
                    if let Some(rc) = member_rc(&self.map, c, self.model.insts[i].a, self.model.insts[i].v) {
                        rc.borrow_mut().retry_policy().verif_expire_backoff();
                        let mb = &mut self.model.insts[i];
                        if mb.in_backoff {
                            self.flags.backoff_flip = true;
                        }
                        mb.in_backoff = false;
                    }
                }
            }
            Op::MarkClosing { c, b } => {
                let c = c as usize;
                if let Some(i) = self.model.member_idx(c, b) {
                    if let Some(rc) = member_rc(&self.map, c, self.model.insts[i].a, self.model.insts[i].v) {
                        rc.borrow_mut().set_closing();
                        self.model.insts[i].st = St::Closing;
                        self.flags.closing = true;
                    }
                }
            }
            Op::ConnTime { c, b, ms } => {
                let c = c as usize;
                if let Some(i) = self.model.member_idx(c, b) {
                    if let Some(rc) = member_rc(&self.map, c, self.model.insts[i].a, self.model.insts[i].v) {
                        rc.borrow_mut().set_connection_time(Duration::from_millis(ms as u64));
                    }
                }
            }
            Op::Select { c, key } => {
                self.select(c as usize, key, "select")?;
            }
            Op::Open { c, key } => {
                let c = c as usize;
                if let Some(inst) = self.select(c, key, "open")? {
                    self.open_on(c, inst)?;
                }
            }
            Op::OpenSticky { c, a, v } => {
                let c = c as usize;
                let cookie = cookie_of(a, v);
                // model: the cookie's backend, if it is a member carrying that sticky id
                let owner = self.model.find_member(c, a, v).filter(|&i| self.model.insts[i].sticky);
                // sozu: BackendMap::backend_from_sticky_session = find_sticky, else plain selection
                let sticky_pick = self
                    .map
                    .backends
                    .get_mut(cluster_id(c))
                    .and_then(|l| l.find_sticky(&cookie).map(|b| (b.borrow().backend_id.clone(), b.borrow().address)));
                let inst = match (owner, sticky_pick) {
                    (Some(o), pick) if self.model.insts[o].eligible() => {
                        self.selections += 1;
                        if self.model.any_ineligible_member(c) {
                            self.flags.select_with_ineligible = true;
                        }
                        let want = (backend_id_of(a, v), addr_of(a));
                        if pick.as_ref() != Some(&want) {
                            fail!(
                                "C12/sticky-ignored",
                                "cookie {cookie} names eligible member {} but find_sticky returned {pick:?}",
                                want.0
                            );
                        }
                        self.flags.sticky_hit = true;
                        let (tier, adm) = self.model.admissible(c);
                        if !adm.contains(&o) && tier != Tier::None {
                            self.flags.sticky_backup_wins = true;
                        }
                        Some(o)
                    }
                    (_, Some(pick)) => {
                        // the cookie's backend does not qualify (or does not exist), yet sozu honoured a cookie
                        let why = owner.map(|o| self.model.insts[o].why_not()).unwrap_or("not-member");
                        fail!(
                            format!("C12/selected-ineligible:sticky-{why}"),
                            "cookie {cookie}: find_sticky returned {pick:?} although its backend does not qualify ({why})"
                        );
                    }
                    (_, None) => {
                        self.flags.sticky_fallback = true;
                        self.select(c, None, "sticky-fallback")?
                    }
                };
                if let Some(inst) = inst {
                    self.open_on(c, inst)?;
                }
            }
            Op::Close { conn } => {
                if !self.conns.is_empty() {
                    let ci = engine::pick_idx(conn, self.conns.len());
                    self.close(ci)?;
                }
            }
            Op::StartReq { conn } => {
                if !self.conns.is_empty() {
                    let ci = engine::pick_idx(conn, self.conns.len());
                    if !self.conns[ci].req {
                        self.conns[ci].rc.borrow_mut().active_requests += 1;
                        self.conns[ci].req = true;
                        let inst = self.conns[ci].inst;
                        self.model.insts[inst].reqs += 1;
                    }
                }
            }
            Op::EndReq { conn } => {
                if !self.conns.is_empty() {
                    let ci = engine::pick_idx(conn, self.conns.len());
                    self.end_request(ci);
                }
            }
        }
        Ok(())
    }

    /// After every op: sozu's observable state equals the model's, counters included.
    fn sync(&mut self, after: &str) -> Result<(), Failure> {
        for c in 0..2 {
            let mc = &self.model.clusters[c];
            let Some(list) = self.map.backends.get(cluster_id(c)) else {
                if mc.exists {
                    fail!("C12/state-desync:cluster-missing", "after {after}: cluster {} absent from the map", cluster_id(c));
                }
                continue;
            };
            if !mc.exists {
                fail!("C12/state-desync:cluster-unexpected", "after {after}: cluster {} exists in the map", cluster_id(c));
            }
            if list.backends.len() != mc.members.len() {
                fail!(
                    "C12/state-desync:membership",
                    "after {after}: {} has {} backends, model {:?}",
                    cluster_id(c),
                    list.backends.len(),
                    self.describe(&mc.members)
                );
            }
            for (pos, &i) in mc.members.iter().enumerate() {
                let mb = &self.model.insts[i];
                let rc = &list.backends[pos];
                let b = rc.borrow();
                let name = backend_id_of(mb.a, mb.v);
                if b.backend_id != name || b.address != addr_of(mb.a) {
                    fail!("C12/state-desync:membership", "after {after}: position {pos} holds ({}, {}), model {name}", b.backend_id, b.address);
                }
                if b.active_connections != mb.open {
                    fail!(
                        "C12/count-drift:connections",
                        "after {after}: {name} active_connections={} but {} connection(s) are open",
                        b.active_connections,
                        mb.open
                    );
                }
                if b.active_requests != mb.reqs {
                    fail!(
                        "C12/count-drift:requests",
                        "after {after}: {name} active_requests={} but {} request(s) are in flight",
                        b.active_requests,
                        mb.reqs
                    );
                }
                let st = match b.status {
                    BackendStatus::Normal => St::Normal,
                    BackendStatus::Closing => St::Closing,
                    BackendStatus::Closed => St::Closed,
                };
                if st != mb.st {
                    fail!("C12/state-desync:status", "after {after}: {name} status {:?}, model {:?}", b.status, mb.st);
                }
                if b.health.is_healthy() != mb.healthy || b.health.consecutive_failures != mb.fails || b.health.consecutive_successes != mb.succ {
                    fail!("C12/state-desync:health", "after {after}: {name} health {:?}, model healthy={} fails={} succ={}", b.health, mb.healthy, mb.fails, mb.succ);
                }
                let okay = b.retry_policy.can_try() == Some(RetryAction::OKAY);
                if okay == mb.in_backoff {
                    fail!("C12/state-desync:backoff", "after {after}: {name} can_try()={:?}, model in_backoff={}", b.retry_policy.can_try(), mb.in_backoff);
                }
                if b.retry_policy.current_tries() != mb.tries || b.retry_policy.is_down() != (mb.tries >= MAX_TRIES) {
                    fail!("C12/state-desync:retry-tries", "after {after}: {name} tries={} down={}, model tries={}", b.retry_policy.current_tries(), b.retry_policy.is_down(), mb.tries);
                }
                if b.backup != mb.backup
                    || b.sticky_id != mb.sticky.then(|| cookie_of(mb.a, mb.v))
                    || b.load_balancing_parameters.map(|p| p.weight) != mb.weight.map(|w| w as i32)
                {
                    fail!("C12/state-desync:config", "after {after}: {name} backup={} sticky={:?} weight={:?}, model {mb:?}", b.backup, b.sticky_id, b.load_balancing_parameters);
                }
                drop(b);
                let held = self.conns.iter().filter(|k| k.inst == i).count();
                if Rc::strong_count(rc) != 1 + held {
                    fail!("C12/state-desync:references", "after {after}: {name} has {} references, expected list + {held} session(s)", Rc::strong_count(rc));
                }
            }
        }
        // removed backends still draining: the sessions' handle carries the count
        for k in &self.conns {
            let mb = &self.model.insts[k.inst];
            if mb.member {
                continue;
            }
            let b = k.rc.borrow();
            if b.active_connections != mb.open || b.active_requests != mb.reqs {
                fail!(
                    "C12/count-drift:draining",
                    "after {after}: removed backend {} active_connections={} active_requests={}, model open={} reqs={}",
                    b.backend_id,
                    b.active_connections,
                    b.active_requests,
                    mb.open,
                    mb.reqs
                );
            }
            let held = self.conns.iter().filter(|x| x.inst == k.inst).count();
            if Rc::strong_count(&k.rc) != held {
                fail!(
                    "C12/removed-backend-not-retired",
                    "after {after}: removed backend {} is referenced {} times but only {held} session(s) hold it",
                    b.backend_id,
                    Rc::strong_count(&k.rc)
                );
            }
        }
        // retirement notifications: exactly the instances that were dropped during this op
        let mut expected = std::mem::take(&mut self.expected_events);
        expected.sort();
        let got = drain_retire_events();
        if got != expected {
            let sig = if got.len() < expected.len() { "C12/retire-event-missing" } else { "C12/retire-event-unexpected" };
            fail!(sig, "after {after}: REMOVED_BACKEND_HAS_NO_CONNECTIONS events {got:?}, model expects {expected:?}");
        }
        Ok(())
    }

    /// HRW / Maglev: probe every key after every op (keyed selection has no side effect on these policies)
    fn probe_affinity(&mut self) -> Result<(), Failure> {
        for c in 0..2 {
            if !self.model.clusters[c].exists {
                continue;
            }
            let fp = self.model.fingerprint(c);
            let rebuilt = std::mem::take(&mut self.rebuilt_by_ineligible[c]);
            if self.last_fp[c].as_ref() != Some(&fp) {
                // "while the eligible set is unchanged": any change in between ends the affinity window
                self.memo.retain(|(cc, _), _| *cc != c);
                self.last_fp[c] = Some(fp);
                self.window_crossed_rebuild[c] = false;
            } else if rebuilt && self.model.clusters[c].policy == 5 && self.case.affinity && self.case.strict {
                self.window_crossed_rebuild[c] = true;
            } else if rebuilt && self.model.clusters[c].policy == 5 && self.case.affinity && !self.case.strict {
                // known finding C12/affinity-moved:maglev, excluded by construction: the Maglev
                // table is built over all members, so rebuilding it after a change to an
                // ineligible member re-homes keys between the unchanged eligible backends.
                // The window ends here; `strict` cases keep it open and fail with the signature.
                if self.memo.keys().any(|(cc, _)| *cc == c) {
                    self.excluded_known += 1;
                    self.flags.maglev_rebuild_excluded = true;
                }
                self.memo.retain(|(cc, _), _| *cc != c);
            }
            if self.model.clusters[c].policy < 4 {
                continue;
            }
            for k in 0..KEYS.len() as u8 {
                self.select(c, Some(k), "probe")?;
            }
        }
        Ok(())
    }
}

// ------------------------------------------------------------------ check

pub fn check(case: &Case) -> CheckResult {
    QUEUE.with(|q| q.borrow_mut().clear());
    let mut cx = Ctx {
        case,
        map: BackendMap::new(),
        model: Model { insts: vec![], clusters: [MCluster { policy: 1, ..Default::default() }, MCluster { policy: 1, ..Default::default() }] },
        conns: vec![],
        rep: CaseReport::default(),
        memo: BTreeMap::new(),
        last_fp: [None, None],
        rebuilt_by_ineligible: [false, false],
        window_crossed_rebuild: [false, false],
        excluded_known: 0,
        expected_events: vec![],
        selections: 0,
        flags: Flags::default(),
    };
    let res = run_history(&mut cx);
    // whatever happened, leave the thread-local event queue empty for the next case
    let Ctx { map, conns, rep, .. } = cx;
    drop(conns);
    drop(map);
    QUEUE.with(|q| q.borrow_mut().clear());
    res.map(|()| rep)
}

fn run_history(cx: &mut Ctx) -> Result<(), Failure> {
    for (n, op) in cx.case.ops.iter().enumerate() {
        cx.apply(op)?;
        for c in 0..2 {
            let p = cx.model.clusters[c].policy as usize;
            if cx.model.clusters[c].exists && !cx.model.clusters[c].members.is_empty() {
                cx.flags.policies[p] = true;
            }
        }
        let after = format!("op #{n} {op:?}");
        cx.sync(&after)?;
        cx.probe_affinity()?;
        cx.sync(&format!("probes after op #{n}"))?;
    }
    // traffic ends: close everything, every count must be back to zero
    while !cx.conns.is_empty() {
        let ci = cx.conns.len() - 1;
        cx.close(ci)?;
        cx.sync("final close")?;
    }
    for c in 0..2 {
        if let Some(list) = cx.map.backends.get(cluster_id(c)) {
            for b in &list.backends {
                let b = b.borrow();
                if b.active_connections != 0 || b.active_requests != 0 {
                    fail!(
                        "C12/count-not-zero-at-end",
                        "all connections closed but {} has active_connections={} active_requests={}",
                        b.backend_id,
                        b.active_connections,
                        b.active_requests
                    );
                }
            }
        }
    }
    if let Some(mb) = cx.model.insts.iter().find(|b| b.open != 0 || b.reqs != 0) {
        fail!("C12/harness-bug", "model counts not zero at end: {mb:?}");
    }

    let f = &cx.flags;
    let nontrivial = (f.readd || f.health_flip || f.backoff_flip) && f.select_with_ineligible;
    let rep = &mut cx.rep;
    rep.nontrivial = nontrivial;
    rep.inner_evaluations = cx.selections;
    rep.excluded_known = cx.excluded_known;
    rep.class_if(f.readd, "remove_then_readd");
    rep.class_if(f.health_flip, "health_flip");
    rep.class_if(f.backoff_flip, "backoff_flip");
    rep.class_if(f.select_with_ineligible, "selection_with_ineligible_member");
    rep.class_if(f.tier_primary, "tier_primary");
    rep.class_if(f.tier_backup, "tier_backup");
    rep.class_if(f.tier_failopen, "tier_fail_open");
    rep.class_if(f.tier_none, "tier_none");
    rep.class_if(f.sticky_hit, "sticky_honoured");
    rep.class_if(f.sticky_backup_wins, "sticky_beats_cascade");
    rep.class_if(f.sticky_fallback, "sticky_fallback");
    rep.class_if(f.drain_after_remove, "removed_backend_draining");
    rep.class_if(f.retired_after_drain, "removed_backend_retired_after_drain");
    rep.class_if(f.in_place_update, "in_place_update");
    rep.class_if(f.shared_address, "shared_address");
    rep.class_if(f.two_clusters, "two_clusters");
    rep.class_if(f.closing, "marked_closing");
    rep.class_if(f.down, "retry_budget_exhausted");
    rep.class_if(f.affinity_repeat, "affinity_key_repeated_on_unchanged_set");
    rep.class_if(f.maglev_rebuild_excluded, "maglev_rebuild_with_unchanged_eligible_set");
    rep.class_if(f.update_emits_retire_event, "obs_update_emits_retire_event");
    for (i, used) in f.policies.iter().enumerate() {
        rep.class_if(*used, &format!("policy_{}", POLICY_NAMES[i]));
    }
    Ok(())
}

// ------------------------------------------------------------------ run

pub fn run(args: &Args) -> i32 {
    let mut ev = Evidence::new(args, "exploration");
    let common = "history = SetPolicy + 1..5 Add, then 0..45 ops (add / in-place update / address-keyed remove / re-add, policy change over the 6 algorithms and 3 metrics, health probe results against per-case thresholds 1..3, health-config reset, retry fail/succeed, forced down / back-off / expiry via the verif hooks, set_closing, select, open, sticky open, close, request start/end) over 1..6 addresses (one IPv6), optional second id on an address, 1..2 clusters, applied to the real sozu_lib::backends::BackendMap. Oracle: a reference model {member, status, healthy, in back-off, backup, sticky, weight, open connections, requests}; every selection result must lie in the admissible set (eligible primaries, else eligible backups, else the documented fail-open set Normal ∧ not backing off, else none); a cookie whose backend qualifies must win and a cookie whose backend does not qualify must not be honoured; after every op sozu's list, per-backend status/health/retry state, active_connections and active_requests equal the model and the reference counts show nobody else holds a backend; removed backends keep counting down on the sessions' handles, retire (drop + REMOVED_BACKEND_HAS_NO_CONNECTIONS) exactly when the last one closes; at the end everything is closed and all counts are zero. With HRW/Maglev in force all 8 keys are probed after every op. Non-trivial: a remove-then-re-add or a health / back-off flip, and a selection made while >= 1 member of the cluster is ineligible; distinct by case hash.";
    ev.rule("history", &format!("policies: round robin, random, least loaded, HRW, Maglev. {common}"));
    ev.rule("power_of_two", "same generator and oracle as `history`, the policy in force is always power-of-two (metric connections / requests / connection time / default).");
    let aff = "same generator restricted to one affinity policy with mostly keyed selections; same oracle as `history` plus: the same key yields the same backend for as long as the cluster's eligible set (eligible members with their weight and backup flag; the fail-open set when nobody is eligible; the policy object) has not changed at any point in between";
    ev.rule("affinity_hrw", &format!("{aff}; policy HRW."));
    ev.rule("affinity_maglev", &format!("{aff}; policy Maglev. Known finding C12/affinity-moved:maglev excluded by construction: an op that makes sozu rebuild the Maglev table with different inputs while the eligible set is unchanged (removal, or in-place weight update, of a member that is not eligible) ends the affinity window for all keys (counted in excluded_known, class maglev_rebuild_with_unchanged_eligible_set); the committed strict reproducer keeps the window open."));
    ev.assume("'inside its failure back-off' is retry_policy.can_try() != OKAY; an exhausted retry budget (is_down) whose window has elapsed is not a back-off (Backend::can_open does not look at is_down)");
    ev.assume("back-off windows are pinned to 3600 s through the verif hooks right after fail(), so the wall clock never decides a verdict");
    ev.assume("the in-process tier selects through BackendMap::backend_from_cluster_id_with_key and BackendList::find_sticky (+ the same fallback as backend_from_sticky_session); the TCP entry points differ only by try_connect, which needs a live peer (wire-lab tier)");
    ev.assume("a connection is the Rc<RefCell<Backend>> handle a session holds: inc_connections on open, dec_connections on close; BackendMap::close_backend_connection (address-keyed, no caller in sozu) is not driven");
    ev.assume("sticky ids are unique per backend; weights stay in the configuration file's domain 0..=255");
    ev.notes.push(
        "observation outside the property text (class obs_update_emits_retire_event): BackendList::add_backend on an existing (address, id) drops the temporary Backend value, whose Drop impl emits REMOVED_BACKEND_HAS_NO_CONNECTIONS for a backend that is still live; the model expects this event so that the drain-then-retire oracle stays exact".to_string(),
    );
    const SUBS: [(&str, Mode, u64, u64); 4] = [
        ("history", Mode::History, 75_000, 1_500_000),
        ("power_of_two", Mode::PowerOfTwo, 15_000, 300_000),
        ("affinity_hrw", Mode::Hrw, 15_000, 300_000),
        ("affinity_maglev", Mode::Maglev, 10_000, 200_000),
    ];
    for (sub, mode, quick, thorough) in SUBS {
        ev.floor(sub, "selection_with_ineligible_member", 0.5);
        ev.floor(sub, "health_flip", 0.3);
        ev.floor(sub, "backoff_flip", 0.3);
        ev.floor(sub, "remove_then_readd", 0.1);
        ev.floor(sub, "tier_backup", 0.05);
        ev.floor(sub, "tier_fail_open", 0.05);
        ev.floor(sub, "sticky_honoured", 0.2);
        ev.floor(sub, "removed_backend_retired_after_drain", 0.1);
        match mode {
            Mode::History => {
                for p in ["round_robin", "random", "least_loaded", "hrw", "maglev"] {
                    ev.floor(sub, &format!("policy_{p}"), 0.1);
                }
            }
            Mode::PowerOfTwo => ev.floor(sub, "policy_power_of_two", 0.9),
            Mode::Hrw => {
                ev.floor(sub, "policy_hrw", 0.9);
                ev.floor(sub, "affinity_key_repeated_on_unchanged_set", 0.8);
            }
            Mode::Maglev => {
                ev.floor(sub, "policy_maglev", 0.9);
                ev.floor(sub, "affinity_key_repeated_on_unchanged_set", 0.8);
                // the excluded known shape must stay a measured minority, not silently vanish
                ev.floor(sub, "maglev_rebuild_with_unchanged_eligible_set", 0.1);
            }
        }
        let cases = args.cases(quick, thorough);
        // sozu's uninitialised logger prints error-level lines ("all backends are down") to stdout
        engine::with_quiet_stdout(|| engine::run_pbt(&mut ev, args, sub, cases, move || strategy_for(mode), check));
    }
    ev.finish()
}
