//! C01 sub-check `h1h2c` — the fourth protocol pair: HTTP/1.1 client -> h2c backend.
//!
//! One to three HTTP/1.1 client connections on a live worker's plain HTTP listener, each a keep-alive
//! sequence of 1..4 requests (no body / Content-Length / chunked, optionally with trailers), routed to
//! a cluster declared `http2: true` whose backend is an h2c peer of this module: generated SETTINGS
//! (initial window, max frame size), a generated WINDOW_UPDATE schedule per stream that always ends in
//! automatic replenishment, responses as DATA frames of generated sizes (padding, with or without
//! content-length, trailers, END_STREAM on the last DATA / on the trailers / on an empty DATA frame),
//! generated read / write scripts on all four socket directions.
//!
//! Every deadline is a progress criterion: a scenario is stuck when no byte has moved on any of the
//! four directions for `STALL`.

use std::{
    cell::RefCell,
    collections::{BTreeMap, VecDeque},
    io::{Read, Write},
    net::{SocketAddr, TcpStream},
    os::fd::AsRawFd,
    sync::{
        Arc, Mutex,
        atomic::{AtomicBool, AtomicU64, AtomicUsize, Ordering},
    },
    time::{Duration, Instant},
};

use proptest::prelude::*;
use serde::{Deserialize, Serialize};
use sozu_command_lib::{scm_socket::Listeners, state::ConfigState};

use super::h2flow::capped;
use crate::{
    engine::{self, Args, CaseReport, CheckResult, Failure, Stats},
    lab::{
        self, LabConfig, LabWorker,
        h1::{self, Acceptor, BodyFraming, End, Framing, H1Conn, H1Message, Kind, ReadOutcome, content, first_mismatch},
        h2::{self, Frame, H2Conn, H2Event, RecvStream, Settings},
        script::{self, RStep, ReadScript, WStep, WriteScript},
    },
};

pub const SUB: &str = "h1h2c";

/// no byte moved on any direction for this long: the scenario is stuck
const STALL: Duration = Duration::from_millis(2500);
/// harness safety net only (a scenario whose bytes keep moving for this long is a harness problem)
const HARD_CAP: Duration = Duration::from_secs(300);
/// a stream's WINDOW_UPDATE schedule is over after this long at the latest: automatic replenishment from then on
const SCHEDULE_MS: u64 = 600;

// ------------------------------------------------------------------ case

#[derive(Clone, Debug, Serialize, Deserialize, PartialEq)]
pub enum ReqFraming {
    /// GET without a body
    None,
    ContentLength,
    /// chunk sizes (cycled)
    Chunked(Vec<usize>),
}

#[derive(Clone, Copy, Debug, Serialize, Deserialize, PartialEq)]
pub enum RespEnd {
    /// END_STREAM on the last DATA frame (on HEADERS when there is no body)
    LastData,
    /// END_STREAM on an empty DATA frame after the body
    EmptyData,
}

#[derive(Clone, Debug, Serialize, Deserialize)]
pub struct Req {
    pub req_len: usize,
    pub req_framing: ReqFraming,
    /// trailer fields after a chunked request body
    pub req_trailers: u8,
    pub resp_len: usize,
    /// DATA frame sizes of the response (cycled; empty: as large as the limits allow)
    pub resp_frames: Vec<usize>,
    pub resp_pad: Option<u8>,
    pub resp_declares_length: bool,
    /// trailer fields of the response (END_STREAM is then on the trailers)
    pub resp_trailers: u8,
    pub resp_end: RespEnd,
    /// pause between the DATA frames of the response (0: none)
    #[serde(default)]
    pub resp_gap_ms: u16,
}

#[derive(Clone, Debug, Serialize, Deserialize)]
pub struct Conn {
    pub reqs: Vec<Req>,
    pub client_write: WriteScript,
    pub client_read: ReadScript,
}

/// (delay in ms since the stream's HEADERS arrived, target: 0 = connection, 1 = that stream, increment)
pub type Grant = (u16, u8, u32);

#[derive(Clone, Debug, Serialize, Deserialize)]
pub struct Backend {
    pub initial_window: u32,
    pub max_frame: u32,
    /// replenish windows automatically from the start; otherwise follow `grants` for every stream, then turn automatic
    pub auto: bool,
    pub grants: Vec<Grant>,
    pub write: WriteScript,
    pub read: ReadScript,
}

#[derive(Clone, Debug, Serialize, Deserialize)]
pub struct Case {
    pub seed: u64,
    pub conns: Vec<Conn>,
    pub backend: Backend,
    /// the client stops writing the last request of its (only) connection at this per-mille position of the
    /// body bytes on the wire and closes: the backend must not see that request end
    #[serde(default)]
    pub cut: Option<u16>,
    /// reproducer of a known finding: nothing is excluded by construction
    #[serde(default)]
    pub strict: bool,
    /// shapes removed by the exclusions when the case was generated
    #[serde(default)]
    pub excluded: u32,
}

pub const KEY_CL0: &str = "C01/h1h2c-request-after-content-length-0-response-ended-by-empty-data-fails";
pub const KEY_LATE_END: &str = "C01/h1h2c-next-request-never-read-after-length-complete-response-ended-by-later-empty-data";
pub const KEY_HPACK: &str = "C01/h1h2c-hpack-out-of-step-after-request-trailers-split-across-reads";

/// Known findings `KEY_CL0` and `KEY_LATE_END`: an h2c response that declares its content-length and carries
/// END_STREAM in a frame *after* the one that completes the declared length (an empty DATA frame, or trailers).
/// The HTTP/1.1 frontend has the complete response as soon as the declared length is met.
/// * length 0 (`KEY_CL0`, deterministic): the exchange ends at once; `ConnectionH2::end_stream` (position
///   Client) finds the backend stream not yet ended and writes RST_STREAM(CANCEL) into `self.zero.storage`, the
///   buffer frame headers are *read* into, without reserving it (`expect_write`). The 9 octets of the empty DATA
///   frame are read behind those 13 unsent octets, the frame header parser starts at the front of the buffer and
///   takes sozu's own RST_STREAM for the peer's: the connection is out of step, the next response's first octets
///   are read as an error code, the following ones as a frame header of absurd length: GOAWAY(FRAME_SIZE_ERROR),
///   and the next request of the keep-alive connection, already forwarded and answered by the backend, gets 502.
///   With trailers in the place of the empty DATA frame the backend connection breaks the same way, but sozu had
///   not yet forwarded the next request whenever this was observed and opened another connection for it.
/// * length > 0 (`KEY_LATE_END`, when the empty DATA frame is read later than the last body byte): the whole
///   response reaches the client, but the session never finishes the exchange (stream still linked, frontend
///   interest WRITABLE only): the next request of the keep-alive connection is never read.
/// Generated cases end such a response with END_STREAM on the frame that completes its length (no trailers)
/// unless it is the last one of its connection.
fn late_end_shape(r: &Req) -> bool {
    r.resp_declares_length && (r.resp_trailers > 0 || r.resp_end == RespEnd::EmptyData)
}

/// Known finding `KEY_HPACK` (a consequence of C13's `h1-trailers-lost-toward-h2c-when-split-across-reads`): when
/// a read of a chunked HTTP/1.1 request ends inside its trailer section, the trailer fields read so far are
/// HPACK-encoded (with incremental indexing) into the converter's scratch buffer and thrown away by
/// `H2BlockConverter::finalize` ("out buffer not empty, clearing"): the encoder's dynamic table is now ahead of
/// the backend's, and the HEADERS of a later request on that backend connection refer to an entry the backend
/// never saw (HeaderIndexOutOfBounds: a connection error COMPRESSION_ERROR for any HTTP/2 server). Generated
/// requests with trailers that are not the last of their connection stay within `TRAILER_BUDGET` bytes on the
/// wire and are written in one piece, so that one read takes them whole.
const TRAILER_BUDGET: usize = 12_000;

/// upper bound of the bytes of a request on the wire
fn wire_estimate(r: &Req) -> usize {
    let chunks = match &r.req_framing {
        ReqFraming::Chunked(sizes) if !sizes.is_empty() => r.req_len * sizes.len() / sizes.iter().sum::<usize>().max(1) + sizes.len() + 1,
        _ => 1,
    };
    200 + r.req_len + 12 * chunks + 64 * r.req_trailers as usize
}

fn whole_in_one_read(r: &Req) -> bool {
    r.req_trailers > 0 && wire_estimate(r) <= TRAILER_BUDGET
}

/// the signature of a strict reproducer's failure names the known finding it reproduces
fn strict_key(case: &Case, ci: usize, i: usize, f: Failure) -> Failure {
    let prev = if i > 0 { case.conns[ci].reqs.get(i - 1) } else { None };
    let Some(prev) = prev.filter(|p| late_end_shape(p) && p.resp_trailers == 0) else { return f };
    if prev.resp_len == 0 && f.signature == "C01/h1h2c-unexpected-status" && f.message.contains("502") {
        return Failure::new(KEY_CL0, format!("the response before it declared content-length: 0 and ended with an empty DATA frame: {}", f.message));
    }
    if prev.resp_len > 0 && ["C01/h1h2c-stalled", "C01/h1h2c-no-response"].contains(&f.signature.as_str()) {
        return Failure::new(KEY_LATE_END, format!("the response before it declared its content-length and ended with a later empty DATA frame: {}", f.message));
    }
    f
}

const BOUNDARIES: &[usize] = &[16393, 16384, 32768, 65535, 65536, 9, 4096];

fn near_boundary(n: usize) -> bool {
    BOUNDARIES.iter().any(|b| (n as i64 - *b as i64).abs() <= 9)
}

fn chunk_sizes() -> impl Strategy<Value = Vec<usize>> {
    prop::collection::vec(prop_oneof![Just(1usize), Just(2), 1usize..64, 64usize..5000, Just(16384), Just(16393), 5000usize..40000], 1..6)
}

fn req_framing() -> impl Strategy<Value = ReqFraming> {
    prop_oneof![1 => Just(ReqFraming::None), 3 => Just(ReqFraming::ContentLength), 4 => chunk_sizes().prop_map(ReqFraming::Chunked)]
}

fn data_frames() -> impl Strategy<Value = Vec<usize>> {
    prop_oneof![
        2 => Just(vec![]),
        3 => prop::collection::vec(prop_oneof![Just(1usize), Just(9), 1usize..100, 100usize..16384, Just(16384), Just(16385), 16385usize..65537], 1..5),
    ]
}

fn few() -> impl Strategy<Value = u8> {
    prop_oneof![5 => Just(0u8), 2 => Just(1u8), 1 => Just(2u8)]
}

fn req(max: usize) -> impl Strategy<Value = Req> {
    (super::c01::size(max), req_framing(), few(), super::c01::size(max), data_frames(), proptest::option::weighted(0.25, any::<u8>()), any::<bool>(), few(), prop_oneof![3 => Just(RespEnd::LastData), 1 => Just(RespEnd::EmptyData)]).prop_map(
        |(req_len, req_framing, req_trailers, resp_len, resp_frames, resp_pad, resp_declares_length, resp_trailers, resp_end)| {
            let chunked = matches!(req_framing, ReqFraming::Chunked(_));
            Req {
                req_len: if req_framing == ReqFraming::None { 0 } else { req_len },
                req_trailers: if chunked { req_trailers } else { 0 },
                req_framing,
                resp_len,
                resp_frames,
                resp_pad,
                resp_declares_length,
                resp_trailers,
                resp_end,
                resp_gap_ms: 0,
            }
        },
    )
}

fn window() -> impl Strategy<Value = u32> {
    prop_oneof![
        3 => Just(65535u32),
        2 => Just(1u32),
        2 => Just(9u32),
        2 => Just(16383u32),
        1 => Just(16384u32),
        1 => Just(0u32),
        1 => 1u32..70_000,
        1 => 70_000u32..4_000_000,
        1 => Just(0x7fff_ffffu32),
    ]
}

fn max_frame() -> impl Strategy<Value = u32> {
    prop_oneof![4 => Just(16384u32), 1 => Just(16385u32), 2 => 16384u32..=65536, 1 => Just(65536u32)]
}

fn grants() -> impl Strategy<Value = Vec<Grant>> {
    prop::collection::vec((0u16..400, 0u8..2, prop_oneof![Just(1u32), Just(9u32), 1u32..200, 200u32..20_000, Just(16384u32), 20_000u32..200_000]), 0..24).prop_map(|mut v| {
        v.sort();
        v
    })
}

fn backend() -> impl Strategy<Value = Backend> {
    (window(), max_frame(), prop::bool::weighted(0.4), grants(), script::write_script(200), script::read_script(300)).prop_map(|(initial_window, max_frame, auto, grants, write, read)| Backend { initial_window, max_frame, auto, grants, write, read })
}

fn conn(max: usize) -> impl Strategy<Value = Conn> {
    (prop::collection::vec(req(max), 1..5), script::write_script(250), script::read_script(350)).prop_map(|(reqs, client_write, client_read)| Conn { reqs, client_write, client_read })
}

pub fn strategy(max: usize) -> impl Strategy<Value = Case> {
    (
        any::<u64>(),
        prop_oneof![3 => prop::collection::vec(conn(max), 1..2), 1 => prop::collection::vec(conn(max), 2..4)],
        backend(),
        // slow drip: one body delivered in pieces 350..500 ms apart over more than the lab's front timeout (4 s)
        // while no single gap comes near any timeout: a transfer that keeps moving must not be cut
        proptest::option::weighted(0.03, (any::<bool>(), 11u16..14, 350u16..500, 200usize..3000)),
        proptest::option::weighted(0.06, 0u16..1000),
    )
        .prop_map(|(seed, mut conns, backend, drip, cut)| {
            let mut cut = cut;
            if let Some((response, pieces, gap, piece)) = drip {
                conns.truncate(1);
                conns[0].reqs.truncate(1);
                cut = None;
                let total = piece * pieces as usize;
                let r = &mut conns[0].reqs[0];
                if response {
                    r.resp_len = total;
                    r.resp_frames = vec![piece];
                    r.resp_gap_ms = gap;
                } else {
                    r.req_len = total;
                    r.req_framing = ReqFraming::ContentLength;
                    r.req_trailers = 0;
                    let mut st = vec![WStep::Write(100), WStep::PauseMs(gap)];
                    st.extend((0..pieces).flat_map(|_| [WStep::Write(piece), WStep::PauseMs(gap)]));
                    conns[0].client_write = WriteScript { steps: st, sndbuf: None };
                }
            }
            if conns.len() > 1 {
                // parallel connections: keep every transfer short
                cut = None;
                for c in conns.iter_mut() {
                    c.reqs.truncate(3);
                    for r in c.reqs.iter_mut() {
                        r.req_len = r.req_len.min(120_000);
                        r.resp_len = r.resp_len.min(120_000);
                    }
                }
            }
            // a cut needs a body to cut
            if cut.is_some() && conns[0].reqs.last().map(|r| r.req_len == 0).unwrap_or(true) {
                cut = None;
            }
            let mut excluded = 0;
            for c in conns.iter_mut() {
                let n = c.reqs.len();
                for (i, r) in c.reqs.iter_mut().enumerate() {
                    if late_end_shape(r) && i + 1 < n {
                        r.resp_end = RespEnd::LastData;
                        r.resp_trailers = 0;
                        excluded += 1;
                    }
                    if r.req_trailers > 0 && i + 1 < n && !whole_in_one_read(r) {
                        r.req_trailers = 0;
                        excluded += 1;
                    }
                }
            }
            Case { seed, conns, backend, cut, strict: false, excluded }
        })
}

// ------------------------------------------------------------------ progress and sockets

const DIRS: [&str; 4] = ["client->sozu", "sozu->client", "sozu->backend", "backend->sozu"];

pub struct Progress {
    base: Instant,
    last_ms: AtomicU64,
    dirs: [AtomicU64; 4],
    stalled: AtomicBool,
    stop: AtomicBool,
}

impl Progress {
    fn new() -> Progress {
        Progress { base: Instant::now(), last_ms: AtomicU64::new(0), dirs: Default::default(), stalled: AtomicBool::new(false), stop: AtomicBool::new(false) }
    }
    fn bump(&self, dir: usize, n: usize) {
        self.dirs[dir].fetch_add(n as u64, Ordering::Relaxed);
        self.last_ms.store(self.base.elapsed().as_millis() as u64, Ordering::Relaxed);
    }
    /// a deliberate wait of the harness itself (scripted pause) is not the proxy's doing
    fn touch(&self) {
        self.last_ms.store(self.base.elapsed().as_millis() as u64, Ordering::Relaxed);
    }
    fn idle(&self) -> Duration {
        Duration::from_millis((self.base.elapsed().as_millis() as u64).saturating_sub(self.last_ms.load(Ordering::Relaxed)))
    }
    fn bytes(&self) -> u64 {
        self.dirs.iter().map(|d| d.load(Ordering::Relaxed)).sum()
    }
    fn describe(&self) -> String {
        (0..4).map(|i| format!("{} {} bytes", DIRS[i], self.dirs[i].load(Ordering::Relaxed))).collect::<Vec<_>>().join(", ")
    }
}

/// A socket end that follows a read and a write script and reports every byte it moves.
/// `wait`: a read blocks until data arrives or the scenario is stuck (client side); otherwise a read
/// returns WouldBlock when nothing arrives within `poll_ms` (backend side: its loop has other duties).
pub struct Wire {
    s: TcpStream,
    p: Arc<Progress>,
    rdir: usize,
    wdir: usize,
    rsteps: VecDeque<RStep>,
    wsteps: VecDeque<WStep>,
    wait: bool,
    poll_ms: i32,
}

fn soft(e: &std::io::Error) -> bool {
    matches!(e.kind(), std::io::ErrorKind::WouldBlock | std::io::ErrorKind::TimedOut | std::io::ErrorKind::Interrupted)
}

impl Read for Wire {
    fn read(&mut self, buf: &mut [u8]) -> std::io::Result<usize> {
        if buf.is_empty() {
            return Ok(0);
        }
        loop {
            let limit = match self.rsteps.front() {
                Some(RStep::StallMs(m)) => {
                    let m = *m;
                    self.rsteps.pop_front();
                    std::thread::sleep(Duration::from_millis(m as u64));
                    self.p.touch();
                    continue;
                }
                Some(RStep::Read(n)) => (*n).max(1).min(buf.len()),
                None => buf.len(),
            };
            if !self.wait {
                let mut pfd = libc::pollfd { fd: self.s.as_raw_fd(), events: libc::POLLIN, revents: 0 };
                if unsafe { libc::poll(&mut pfd, 1, self.poll_ms) } <= 0 {
                    return Err(std::io::ErrorKind::WouldBlock.into());
                }
            }
            match self.s.read(&mut buf[..limit]) {
                Ok(n) => {
                    if n > 0 {
                        self.p.bump(self.rdir, n);
                        self.rsteps.pop_front();
                    }
                    return Ok(n);
                }
                Err(e) if soft(&e) => {
                    if !self.wait {
                        return Err(e);
                    }
                    if self.p.stop.load(Ordering::Relaxed) {
                        return Err(std::io::Error::other("scenario over"));
                    }
                    if self.p.idle() > STALL {
                        self.p.stalled.store(true, Ordering::SeqCst);
                        return Err(std::io::Error::other("no byte moved on any direction"));
                    }
                }
                Err(e) => return Err(e),
            }
        }
    }
}

impl Write for Wire {
    fn write(&mut self, buf: &[u8]) -> std::io::Result<usize> {
        if buf.is_empty() {
            return Ok(0);
        }
        let mut limit = buf.len();
        loop {
            match self.wsteps.pop_front() {
                Some(WStep::PauseMs(m)) => {
                    std::thread::sleep(Duration::from_millis(m as u64));
                    self.p.touch();
                }
                Some(WStep::Write(n)) => {
                    limit = n.max(1).min(buf.len());
                    break;
                }
                None => break,
            }
        }
        loop {
            match self.s.write(&buf[..limit]) {
                Ok(n) => {
                    self.p.bump(self.wdir, n);
                    return Ok(n);
                }
                Err(e) if soft(&e) => {
                    if self.p.stop.load(Ordering::Relaxed) {
                        return Err(std::io::Error::other("scenario over"));
                    }
                    if self.p.idle() > STALL {
                        if self.wait {
                            self.p.stalled.store(true, Ordering::SeqCst);
                        }
                        return Err(std::io::Error::other("no byte moved on any direction"));
                    }
                }
                Err(e) => return Err(e),
            }
        }
    }
    fn flush(&mut self) -> std::io::Result<()> {
        Ok(())
    }
}

// ------------------------------------------------------------------ the h2c backend

#[derive(Clone, Debug)]
struct Action {
    body: Vec<u8>,
    frames: Vec<usize>,
    pad: Option<u8>,
    declares_length: bool,
    trailers: Vec<(String, String)>,
    end: RespEnd,
    gap_ms: u16,
    index: usize,
}

#[derive(Clone, Debug)]
struct Record {
    conn: usize,
    stream: u32,
    req: RecvStream,
    lab_req: Option<usize>,
}

#[derive(Default)]
struct PlanOut {
    records: Vec<Record>,
    violations: Vec<String>,
    errors: Vec<String>,
    conns: usize,
    /// streams carried by each backend connection
    streams_per_conn: Vec<usize>,
    max_open_streams: usize,
    /// frames received per connection (compact)
    logs: Vec<String>,
    /// DATA frames received over all connections
    data_frames_in: usize,
    /// largest DATA frame payload received
    largest_data_in: usize,
    /// times a response had to wait for sozu's credit
    credit_waits: usize,
}

struct Plan {
    spec: Backend,
    actions: BTreeMap<usize, Action>,
    progress: Arc<Progress>,
    active: AtomicUsize,
    out: Mutex<PlanOut>,
}

enum Phase {
    Headers,
    Data { pos: usize, idx: usize },
    Tail,
    Done,
}

struct St {
    started: Instant,
    grants: VecDeque<Grant>,
    auto: bool,
    answered: bool,
    resp: Option<(Action, Phase)>,
    next_frame_at: Instant,
}

fn compact_log(log: &[(u8, u8, u32, usize)]) -> String {
    // runs of frames of one type on one stream: TYPE(stream)xN[min..max bytes]
    let mut out: Vec<String> = vec![];
    let mut i = 0;
    while i < log.len() {
        let (t, _, s, _) = log[i];
        let mut j = i;
        let (mut lo, mut hi, mut total, mut flags) = (usize::MAX, 0usize, 0usize, 0u8);
        while j < log.len() && log[j].0 == t && log[j].2 == s {
            lo = lo.min(log[j].3);
            hi = hi.max(log[j].3);
            total += log[j].3;
            flags |= log[j].1;
            j += 1;
        }
        let name = Frame::new(t, 0, 0, vec![]).type_name();
        out.push(if j - i == 1 { format!("{name}(s{s},{lo}B,flags {flags:#x})") } else { format!("{name}(s{s})x{}[{lo}..{hi}B, {total}B, flags {flags:#x}]", j - i) });
        i = j;
    }
    if out.len() > 40 {
        let tail = out.split_off(out.len() - 12);
        out.truncate(24);
        out.push("...".into());
        out.extend(tail);
    }
    out.join(" ")
}

fn serve(conn_idx: usize, stream: TcpStream, shared: Arc<Mutex<Arc<Plan>>>) {
    let plan = shared.lock().unwrap().clone();
    plan.active.fetch_add(1, Ordering::SeqCst);
    serve_inner(conn_idx, stream, &plan);
    plan.active.fetch_sub(1, Ordering::SeqCst);
}

fn serve_inner(conn_idx: usize, stream: TcpStream, plan: &Plan) {
    let spec = &plan.spec;
    if plan.progress.stop.load(Ordering::Relaxed) {
        return;
    }
    script::set_bufs(&stream, spec.write.sndbuf, spec.read.rcvbuf);
    let _ = stream.set_read_timeout(Some(Duration::from_millis(100)));
    let _ = stream.set_write_timeout(Some(Duration::from_millis(100)));
    let wire = Wire { s: stream, p: plan.progress.clone(), rdir: 2, wdir: 3, rsteps: spec.read.steps.iter().cloned().collect(), wsteps: spec.write.steps.iter().cloned().collect(), wait: false, poll_ms: 10 };
    let settings = Settings { header_table_size: 4096, enable_push: 1, max_concurrent_streams: None, initial_window_size: spec.initial_window, max_frame_size: spec.max_frame, max_header_list_size: None };
    let mut c = H2Conn::new(wire, true, settings);
    c.auto_window_update = false;
    plan.out.lock().unwrap().conns += 1;
    let fail = |plan: &Plan, what: String| plan.out.lock().unwrap().errors.push(format!("backend conn {conn_idx}: {what}"));
    if let Err(e) = c.start() {
        fail(plan, format!("cannot send SETTINGS: {e}"));
        return;
    }
    if let Err(e) = c.expect_preface(Instant::now() + Duration::from_secs(5)) {
        fail(plan, e);
        return;
    }
    if spec.auto {
        c.replenish(0);
    }
    let mut streams: BTreeMap<u32, St> = BTreeMap::new();
    let mut last_activity = Instant::now();
    let mut credit_waits = 0usize;
    'conn: loop {
        if plan.progress.stop.load(Ordering::Relaxed) {
            break;
        }
        // ---- streams whose HEADERS are in
        let known: Vec<(u32, bool)> = c.streams.iter().filter(|(_, s)| s.headers_done).map(|(id, s)| (*id, !s.end_stream && s.reset.is_none())).collect();
        for (id, open) in &known {
            let st = streams.entry(*id).or_insert_with(|| St { started: Instant::now(), grants: spec.grants.iter().cloned().collect(), auto: spec.auto, answered: false, resp: None, next_frame_at: Instant::now() });
            if !*open {
                continue;
            }
            // ---- credit: the stream's schedule, then automatic replenishment
            if !st.auto {
                let elapsed = st.started.elapsed().as_millis() as u64;
                while let Some(&(at, target, inc)) = st.grants.front() {
                    if at as u64 > elapsed {
                        break;
                    }
                    st.grants.pop_front();
                    let _ = c.grant(if target == 0 { 0 } else { *id }, inc);
                }
                if st.grants.is_empty() || elapsed > SCHEDULE_MS {
                    st.auto = true;
                }
            }
            if st.auto {
                c.replenish(*id);
            }
        }
        // ---- responses under way
        let mut can_send_more = false;
        for (id, st) in streams.iter_mut() {
            let reset = c.streams.get(id).map(|s| s.reset.is_some()).unwrap_or(false);
            let Some((action, phase)) = st.resp.as_mut() else { continue };
            if reset {
                *phase = Phase::Done;
                continue;
            }
            match advance(&mut c, *id, action, phase, &mut st.next_frame_at) {
                Ok(Blocked::No) => can_send_more |= !matches!(phase, Phase::Done),
                Ok(Blocked::Credit) => credit_waits += 1,
                Ok(Blocked::Pace) => {}
                Err(e) => {
                    fail(plan, format!("stream {id}: cannot write the response: {e}"));
                    break 'conn;
                }
            }
        }
        // ---- read what has arrived
        c.s.poll_ms = if can_send_more { 0 } else { 5 };
        for _ in 0..64 {
            match c.next_frame(Instant::now()) {
                H2Event::Frame(f) => {
                    last_activity = Instant::now();
                    c.s.poll_ms = 0;
                    if f.typ == h2::GOAWAY {
                        break 'conn;
                    }
                }
                H2Event::Timeout => break,
                H2Event::Eof | H2Event::Reset => break 'conn,
            }
        }
        // ---- requests that are complete get their answer
        let done: Vec<u32> = c.streams.iter().filter(|(_, s)| s.end_stream && s.headers_done && s.reset.is_none()).map(|(id, _)| *id).collect();
        for id in done {
            let st = streams.entry(id).or_insert_with(|| St { started: Instant::now(), grants: VecDeque::new(), auto: true, answered: false, resp: None, next_frame_at: Instant::now() });
            if st.answered {
                continue;
            }
            st.answered = true;
            let req = c.streams[&id].clone();
            let lab_req = h2::hdr(&req.headers, "x-lab-req").and_then(|v| v.trim().parse::<usize>().ok());
            plan.out.lock().unwrap().records.push(Record { conn: conn_idx, stream: id, req, lab_req });
            match lab_req.and_then(|n| plan.actions.get(&n)) {
                Some(a) => st.resp = Some((a.clone(), Phase::Headers)),
                None => {
                    // not a request of this scenario: answer 200 without a body
                    let block = c.encode_headers(&[(":status".to_string(), "200".to_string())]);
                    let _ = c.send(&Frame::new(h2::HEADERS, h2::F_END_HEADERS | h2::F_END_STREAM, id, block));
                }
            }
            last_activity = Instant::now();
        }
        if last_activity.elapsed() > Duration::from_secs(8) && plan.progress.idle() > Duration::from_secs(8) {
            break;
        }
    }
    let mut g = plan.out.lock().unwrap();
    g.violations.extend(c.violations.iter().map(|v| format!("backend conn {conn_idx}: {}", v.what)));
    g.max_open_streams = g.max_open_streams.max(c.max_open_streams);
    g.streams_per_conn.push(c.streams.values().filter(|s| s.headers_done).count());
    g.logs.push(format!("conn {conn_idx}: {}", compact_log(&c.log)));
    g.credit_waits += credit_waits;
    for (_, _, _, len) in c.log.iter().filter(|l| l.0 == h2::DATA) {
        g.data_frames_in += 1;
        g.largest_data_in = g.largest_data_in.max(*len);
    }
    // requests that never completed are recorded too
    for (sid, s) in &c.streams {
        if s.headers_done && !streams.get(sid).map(|st| st.answered).unwrap_or(false) {
            let lab_req = h2::hdr(&s.headers, "x-lab-req").and_then(|v| v.trim().parse::<usize>().ok());
            g.records.push(Record { conn: conn_idx, stream: *sid, req: s.clone(), lab_req });
        }
    }
}

enum Blocked {
    No,
    Credit,
    Pace,
}

/// Send as much of a response as sozu's windows allow (at most 64 KiB per call, so that reading goes on).
fn advance(c: &mut H2Conn<Wire>, id: u32, a: &Action, phase: &mut Phase, next_at: &mut Instant) -> std::io::Result<Blocked> {
    let mut batch: Vec<u8> = vec![];
    let mut blocked = Blocked::No;
    loop {
        match phase {
            Phase::Headers => {
                let mut headers = vec![(":status".to_string(), "200".to_string()), ("x-lab-resp".to_string(), format!("{:07}", a.index))];
                if a.declares_length {
                    headers.push(("content-length".to_string(), a.body.len().to_string()));
                }
                let end = a.body.is_empty() && a.trailers.is_empty() && a.end == RespEnd::LastData;
                let block = c.encode_headers(&headers);
                batch.extend(Frame::new(h2::HEADERS, h2::F_END_HEADERS | if end { h2::F_END_STREAM } else { 0 }, id, block).encode());
                let initial = c.theirs.initial_window_size as i64;
                c.send_stream_window.entry(id).or_insert(initial);
                *phase = if end {
                    Phase::Done
                } else if a.body.is_empty() {
                    Phase::Tail
                } else {
                    Phase::Data { pos: 0, idx: 0 }
                };
            }
            Phase::Data { pos, idx } => {
                if a.gap_ms > 0 {
                    if Instant::now() < *next_at {
                        blocked = Blocked::Pace;
                        break;
                    }
                    if !batch.is_empty() && *pos > 0 {
                        // one frame per write when the response is paced
                        break;
                    }
                }
                let want = if a.frames.is_empty() { usize::MAX } else { a.frames[*idx % a.frames.len()].max(1) };
                let padlen = a.pad.map(|p| p as usize + 1).unwrap_or(0);
                let maxf = (c.theirs.max_frame_size as usize).saturating_sub(padlen).max(1);
                let sw = *c.send_stream_window.get(&id).unwrap_or(&0);
                let avail = sw.min(c.send_conn_window) - padlen as i64;
                if avail <= 0 {
                    blocked = Blocked::Credit;
                    break;
                }
                let n = want.min(maxf).min(avail as usize).min(a.body.len() - *pos);
                let last = *pos + n == a.body.len();
                let end = last && a.end == RespEnd::LastData && a.trailers.is_empty();
                let f = Frame::data(id, &a.body[*pos..*pos + n], end, a.pad);
                c.send_conn_window -= f.payload.len() as i64;
                *c.send_stream_window.get_mut(&id).unwrap() -= f.payload.len() as i64;
                batch.extend(f.encode());
                *pos += n;
                *idx += 1;
                if a.gap_ms > 0 {
                    *next_at = Instant::now() + Duration::from_millis(a.gap_ms as u64);
                }
                if last {
                    *phase = if end { Phase::Done } else { Phase::Tail };
                }
                if batch.len() >= 65536 {
                    break;
                }
            }
            Phase::Tail => {
                if a.gap_ms > 0 && !a.body.is_empty() {
                    // a paced response: the frame that ends the stream comes after a pause too
                    if !batch.is_empty() {
                        break;
                    }
                    if Instant::now() < *next_at {
                        blocked = Blocked::Pace;
                        break;
                    }
                }
                if a.trailers.is_empty() {
                    batch.extend(Frame::data(id, &[], true, None).encode());
                } else {
                    let block = c.encode_headers(&a.trailers);
                    batch.extend(Frame::new(h2::HEADERS, h2::F_END_HEADERS | h2::F_END_STREAM, id, block).encode());
                }
                *phase = Phase::Done;
            }
            Phase::Done => break,
        }
    }
    if !batch.is_empty() {
        if h2::trace_on() {
            let mut rest = &batch[..];
            while let Some((f, used)) = h2::parse_frame(rest) {
                eprintln!("[h2 backend send] {} flags={:#x} stream={} len={} {:02x?}", f.type_name(), f.flags, f.stream, f.payload.len(), &f.payload[..f.payload.len().min(48)]);
                rest = &rest[used..];
            }
        }
        c.write_raw(&batch)?;
    }
    Ok(blocked)
}

// ------------------------------------------------------------------ the lab

pub struct Lab {
    pub worker: LabWorker,
    pub http_addr: SocketAddr,
    shared: Arc<Mutex<Arc<Plan>>>,
    _backend: Acceptor,
    /// request numbers are unique over the life of the lab: a late record of an earlier scenario cannot be
    /// mistaken for one of this scenario (fixed width on the wire, so the head sizes do not depend on them)
    seq: usize,
}

const HOST: &str = "h2c.lab";

impl Lab {
    pub fn new() -> Lab {
        let mut worker = LabWorker::start("c01h2c", LabConfig::default(), Listeners::default(), &ConfigState::new());
        let http_addr = lab::free_addr();
        worker.add_http_listener(http_addr, |_| {});
        worker.add_cluster("ch2", |c| c.http2 = Some(true));
        worker.add_http_frontend("ch2", http_addr, HOST, "/");
        let (addr, listener) = lab::bound_listener();
        worker.add_backend("ch2", "ch2-0", addr);
        let idle = Arc::new(Plan { spec: Backend { initial_window: 65535, max_frame: 16384, auto: true, grants: vec![], write: Default::default(), read: Default::default() }, actions: BTreeMap::new(), progress: Arc::new(Progress::new()), active: AtomicUsize::new(0), out: Mutex::new(PlanOut::default()) });
        let shared = Arc::new(Mutex::new(idle));
        let sh = shared.clone();
        let backend = Acceptor::spawn(listener, move |conn, stream| serve(conn, stream, sh.clone()));
        Lab { worker, http_addr, shared, _backend: backend, seq: 0 }
    }
}

// ------------------------------------------------------------------ the client

fn req_trailers(n: usize, k: u8) -> Vec<(String, String)> {
    (0..k).map(|j| (format!("x-lab-rt{j}"), format!("request-trailer-{n}-{j}"))).collect()
}

fn resp_trailers(n: usize, k: u8) -> Vec<(String, String)> {
    (0..k).map(|j| (format!("x-lab-t{j}"), format!("response-trailer-{n}-{j}"))).collect()
}

fn req_body(case: &Case, flat: usize, r: &Req) -> Vec<u8> {
    content(case.seed ^ (0xB000 + flat as u64), r.req_len)
}

fn resp_body(case: &Case, flat: usize, r: &Req) -> Vec<u8> {
    content(case.seed ^ (0xA000 + flat as u64), r.resp_len)
}

/// (head bytes, body bytes on the wire)
fn request_wire(case: &Case, flat: usize, n: usize, r: &Req, reqs_on_conn: usize) -> (Vec<u8>, Vec<u8>) {
    let body = req_body(case, flat, r);
    let mut headers = vec![("Host".to_string(), HOST.to_string()), ("x-lab-req".to_string(), format!("{n:07}"))];
    let (method, wire) = match &r.req_framing {
        ReqFraming::None => ("GET", vec![]),
        ReqFraming::ContentLength => {
            let (extra, wire) = h1::encode_body(&body, &BodyFraming::ContentLength, &[]);
            headers.extend(extra);
            ("POST", wire)
        }
        ReqFraming::Chunked(sizes) => {
            let sizes = capped(sizes, r.req_len, reqs_on_conn, case.strict).0;
            let (extra, wire) = h1::encode_body(&body, &BodyFraming::Chunked(sizes), &req_trailers(n, r.req_trailers));
            headers.extend(extra);
            ("POST", wire)
        }
    };
    (h1::build_head(&format!("{method} /r{n:07} HTTP/1.1"), &headers), wire)
}

enum Got {
    Response(H1Message),
    /// no complete response: what the reader saw instead
    Other(String, bool),
    /// the request was cut by the client on purpose
    Cut,
}

struct ConnResult {
    got: Vec<Got>,
    wrote_all: Vec<bool>,
    connect_error: Option<String>,
}

fn run_conn(addr: SocketAddr, case: &Case, ci: usize, flat0: usize, base: usize, p: Arc<Progress>) -> ConnResult {
    let spec = &case.conns[ci];
    let mut res = ConnResult { got: vec![], wrote_all: vec![], connect_error: None };
    let stream = match h1::connect(addr, Duration::from_secs(2)) {
        Ok(s) => s,
        Err(e) => {
            res.connect_error = Some(e.to_string());
            return res;
        }
    };
    script::set_bufs(&stream, spec.client_write.sndbuf, spec.client_read.rcvbuf);
    let _ = stream.set_write_timeout(Some(Duration::from_millis(100)));
    let wsock = stream.try_clone().expect("clone");
    let reader = Wire { s: stream, p: p.clone(), rdir: 1, wdir: 0, rsteps: spec.client_read.steps.iter().cloned().collect(), wsteps: VecDeque::new(), wait: true, poll_ms: 0 };
    let mut conn = H1Conn::new(reader);
    let n_reqs = spec.reqs.len();
    for (i, r) in spec.reqs.iter().enumerate() {
        let flat = flat0 + i;
        let (head, body_wire) = request_wire(case, flat, base + flat, r, n_reqs);
        let cut_here = case.cut.filter(|_| i + 1 == n_reqs && ci == 0);
        let mut bytes = head;
        match cut_here {
            Some(permille) => {
                let keep = (body_wire.len() as u64 * permille as u64 / 1000) as usize;
                bytes.extend_from_slice(&body_wire[..keep.min(body_wire.len().saturating_sub(1))]);
            }
            None => bytes.extend_from_slice(&body_wire),
        }
        // write in a thread so that a response can be read while a large request is still going out
        let mut w = Wire { s: wsock.try_clone().expect("clone"), p: p.clone(), rdir: 1, wdir: 0, rsteps: VecDeque::new(), wsteps: VecDeque::new(), wait: true, poll_ms: 0 };
        // (known finding KEY_HPACK) a request with trailers that others follow is written in one piece
        let cw = if !case.strict && r.req_trailers > 0 && i + 1 < n_reqs { WriteScript::default() } else { spec.client_write.clone() };
        let p2 = p.clone();
        let writer = std::thread::spawn(move || {
            // the pauses of the script are the client's own doing
            let mut pos = 0;
            for s in &cw.steps {
                if pos >= bytes.len() {
                    break;
                }
                match s {
                    WStep::Write(n) => {
                        let end = (pos + n).min(bytes.len());
                        if w.write_all(&bytes[pos..end]).is_err() {
                            return false;
                        }
                        pos = end;
                    }
                    WStep::PauseMs(m) => {
                        std::thread::sleep(Duration::from_millis(*m as u64));
                        p2.touch();
                    }
                }
            }
            pos >= bytes.len() || w.write_all(&bytes[pos..]).is_ok()
        });
        if cut_here.is_some() {
            let wrote = writer.join().unwrap_or(false);
            res.wrote_all.push(wrote);
            // let the bytes reach the backend, then hang up
            std::thread::sleep(Duration::from_millis(80));
            let _ = wsock.shutdown(std::net::Shutdown::Both);
            res.got.push(Got::Cut);
            break;
        }
        let started = Instant::now();
        let out = conn.next_message(Kind::Response { head_request: false }, started + HARD_CAP);
        if started.elapsed() >= HARD_CAP {
            panic!("harness: a single response was still moving bytes after {} s", HARD_CAP.as_secs());
        }
        let wrote = writer.join().unwrap_or(false);
        res.wrote_all.push(wrote);
        match out {
            ReadOutcome::Message(m) => {
                let clean = m.end == End::Clean;
                res.got.push(Got::Response(m));
                if !clean {
                    break;
                }
            }
            other => {
                let invalid = matches!(other, ReadOutcome::Invalid(..));
                res.got.push(Got::Other(h1::describe(&other), invalid));
                break;
            }
        }
    }
    res
}

// ------------------------------------------------------------------ the scenario

/// failure signatures that say "the exchange did not finish" (as opposed to "bytes differ" or "a limit was broken")
const LIVENESS: &[&str] = &["C01/h1h2c-stalled", "C01/h1h2c-no-response", "C01/h1h2c-unexpected-status", "C01/h1h2c-response-not-ended-cleanly", "C01/h1h2c-request-not-ended"];

fn limit_kind(what: &str) -> &'static str {
    if what.contains("MAX_FRAME_SIZE") {
        "max-frame-size"
    } else if what.contains("connection window") {
        "connection-window"
    } else if what.contains("window") {
        "stream-window"
    } else if what.contains("ids must") {
        "stream-id"
    } else if what.contains("HPACK") {
        "hpack"
    } else {
        "other"
    }
}

pub fn scenario(lab: &mut Lab, case: &Case) -> CheckResult {
    // Known finding (C14/frame-storm-session-closed, C01/session-ended-by-loop-iteration-budget): sozu's
    // session loop gives up after MAX_LOOP_ITERATIONS of one readiness pass and closes the session; it
    // counts every such kill in `http.infinite_loop.error`. An exchange that did not finish while that
    // counter moved ran into it, whatever its shape.
    let before = lab.worker.counter("http.infinite_loop.error").unwrap_or(0);
    let storm = case.conns.iter().any(|c| c.reqs.iter().any(|r| capped(&r.resp_frames, r.resp_len, c.reqs.len(), true).1 || matches!(&r.req_framing, ReqFraming::Chunked(s) if capped(s, r.req_len, c.reqs.len(), true).1)));
    match scenario_inner(lab, case) {
        Err(f) if LIVENESS.contains(&f.signature.as_str()) && lab.worker.alive() && lab.worker.counter("http.infinite_loop.error").unwrap_or(0) > before => {
            if case.strict {
                Err(Failure::new("C01/h1h2c-session-ended-by-loop-iteration-budget", format!("the session loop's iteration budget ended the session in the middle of the exchange ({}: {})", f.signature, f.message)))
            } else {
                let mut rep = CaseReport::default();
                rep.excluded_known += 1;
                rep.class("session_ended_by_loop_iteration_budget(known)");
                rep.class("lab_dirty");
                Ok(rep)
            }
        }
        Ok(mut rep) => {
            if case.excluded > 0 {
                rep.excluded_known += case.excluded as u64;
                rep.class("late_end_stream_or_split_trailers_shape_replaced(known)");
            }
            if storm && !case.strict {
                rep.excluded_known += 1;
                rep.class("frame_storm_capped");
            }
            Ok(rep)
        }
        other => other,
    }
}

fn scenario_inner(lab: &mut Lab, case: &Case) -> CheckResult {
    let mut rep = CaseReport::default();
    if !lab.worker.alive() {
        return Err(Failure::new("C01/worker-died", format!("the worker thread is gone: {:?}", lab.worker.join())));
    }
    if case.conns.is_empty() || case.conns.iter().any(|c| c.reqs.is_empty()) {
        panic!("harness: a case without requests");
    }
    // ---- plan
    let total: usize = case.conns.iter().map(|c| c.reqs.len()).sum();
    let base = lab.seq;
    lab.seq += total;
    let mut flat_of: Vec<usize> = vec![];
    let mut actions = BTreeMap::new();
    {
        let mut flat = 0;
        for c in &case.conns {
            flat_of.push(flat);
            for r in &c.reqs {
                let n = base + flat;
                actions.insert(
                    n,
                    Action {
                        body: resp_body(case, flat, r),
                        frames: capped(&r.resp_frames, r.resp_len, c.reqs.len(), case.strict).0,
                        pad: r.resp_pad,
                        declares_length: r.resp_declares_length,
                        trailers: resp_trailers(n, r.resp_trailers),
                        end: r.resp_end,
                        gap_ms: r.resp_gap_ms,
                        index: n,
                    },
                );
                flat += 1;
            }
        }
    }
    let progress = Arc::new(Progress::new());
    let plan = Arc::new(Plan { spec: case.backend.clone(), actions, progress: progress.clone(), active: AtomicUsize::new(0), out: Mutex::new(PlanOut::default()) });
    *lab.shared.lock().unwrap() = plan.clone();

    // ---- clients
    let addr = lab.http_addr;
    let results: Vec<ConnResult> = std::thread::scope(|scope| {
        let handles: Vec<_> = (0..case.conns.len())
            .map(|ci| {
                let p = progress.clone();
                let flat0 = flat_of[ci];
                scope.spawn(move || run_conn(addr, case, ci, flat0, base, p))
            })
            .collect();
        handles.into_iter().map(|h| h.join().unwrap_or_else(|_| panic!("harness: a client thread panicked: {:?}", engine::take_last_panic()))).collect()
    });
    // ---- the backend's view
    if case.cut.is_some() {
        // give sozu the time to tell the backend that the request is over (it must not say it ended)
        let until = Instant::now() + Duration::from_millis(400);
        while plan.active.load(Ordering::SeqCst) > 0 && Instant::now() < until {
            std::thread::sleep(Duration::from_millis(5));
        }
    }
    let stalled = progress.stalled.load(Ordering::SeqCst);
    let moved = progress.describe();
    progress.stop.store(true, Ordering::SeqCst);
    let until = Instant::now() + Duration::from_secs(10);
    while plan.active.load(Ordering::SeqCst) > 0 {
        if Instant::now() > until {
            panic!("harness: an h2c backend connection thread did not end");
        }
        std::thread::sleep(Duration::from_millis(2));
    }
    let out = std::mem::take(&mut *plan.out.lock().unwrap());
    let backend_view = || {
        let streams: Vec<String> = out.records.iter().map(|r| format!("conn {} stream {} (request {:?}): {} body bytes in {} DATA frames, END_STREAM {}, reset {:?}", r.conn, r.stream, r.lab_req.map(|n| n as i64 - base as i64), r.req.body.len(), r.req.data_frames.len(), r.req.end_stream, r.req.reset)).collect();
        format!("backend saw: {}; frames: {}; backend errors: {:?}", streams.join("; "), out.logs.join(" | "), out.errors)
    };

    // ---- verdicts: the limits of the peer first (safety), then every exchange in order
    if let Some(v) = out.violations.first() {
        let trailers_before = case.conns.iter().any(|c| c.reqs.iter().rev().skip(1).any(|r| r.req_trailers > 0));
        if case.strict && limit_kind(v) == "hpack" && trailers_before {
            return Err(Failure::new(KEY_HPACK, format!("toward the h2c backend: {v}; an earlier request of that connection had trailers; {}", backend_view())));
        }
        return Err(Failure::new(format!("C01/backend-limit-violated:{}", limit_kind(v)), format!("toward the h2c backend (SETTINGS_INITIAL_WINDOW_SIZE {}, SETTINGS_MAX_FRAME_SIZE {}, automatic credit {}): {v}; {}", case.backend.initial_window, case.backend.max_frame, case.backend.auto, backend_view())));
    }
    for (ci, (c, res)) in case.conns.iter().zip(&results).enumerate() {
        if let Some(e) = &res.connect_error {
            return Err(Failure::new("C01/connect-refused", format!("connection {ci} to the HTTP listener failed: {e}")));
        }
        for (i, r) in c.reqs.iter().enumerate() {
            let mut judge = || -> Result<bool, Failure> {
                let flat = flat_of[ci] + i;
                let n = base + flat;
                let what = format!("connection {ci} request {i} ({:?}, {} body bytes{}; response {} bytes{}{}, {:?})", r.req_framing, r.req_len, if r.req_trailers > 0 { format!(", {} trailer fields", r.req_trailers) } else { String::new() }, r.resp_len, if r.resp_declares_length { " with content-length" } else { "" }, if r.resp_trailers > 0 { format!(", {} trailer fields", r.resp_trailers) } else { String::new() }, r.resp_end);
                let mine: Vec<&Record> = out.records.iter().filter(|x| x.lab_req == Some(n)).collect();
                let Some(got) = res.got.get(i) else {
                    // an earlier request of this connection failed: reported there
                    return Ok(false);
                };
                // ---- what the client received
                match got {
                    Got::Cut => {
                        // the client hung up in the middle of the body: whatever reached the backend is a prefix, not ended
                        let sent = req_body(case, flat, r);
                        for m in &mine {
                            if first_mismatch(&m.req.body, &sent[..m.req.body.len().min(sent.len())]).is_some() {
                                fail!("C01/h1h2c-request-body:cut", "{what}: the client hung up inside the body; the {} bytes the backend received are not a prefix of what was sent; {}", m.req.body.len(), backend_view());
                            }
                            if m.req.end_stream {
                                fail!("C01/h1h2c-cut-request-ended", "{what}: the client hung up before the end of its message (wrote all of the cut part: {:?}), yet the backend saw END_STREAM after {} body bytes; {}", res.wrote_all.get(i), m.req.body.len(), backend_view());
                            }
                        }
                        return Ok(true);
                    }
                    Got::Other(desc, invalid) => {
                        if stalled {
                            fail!("C01/h1h2c-stalled", "{what}: no byte moved on any direction for {} ms ({moved}); client: {desc}; {}", STALL.as_millis(), backend_view());
                        }
                        if *invalid {
                            fail!("C01/h1h2c-response-unreadable", "{what}: what the client received is not an HTTP/1.1 response: {desc}; {}", backend_view());
                        }
                        fail!("C01/h1h2c-no-response", "{what} (wrote all: {:?}): {desc}; {moved}; {}", res.wrote_all.get(i), backend_view());
                    }
                    Got::Response(m) => {
                        if m.status() != Some(200) {
                            fail!("C01/h1h2c-unexpected-status", "{what}: status {:?} ({}), expected the backend's 200; {moved}; {}", m.status(), m.start_line, backend_view());
                        }
                        if m.header("x-lab-resp").map(|v| v.trim().parse::<usize>().ok()) != Some(Some(n)) {
                            fail!("C01/h1h2c-response-of-another-request", "{what} was answered with the response numbered {:?} (expected {n}, scenario base {base})", m.header("x-lab-resp"));
                        }
                        if m.end != End::Clean {
                            if stalled {
                                fail!("C01/h1h2c-stalled", "{what}: no byte moved on any direction for {} ms ({moved}); the client has {} of {} response body bytes ({:?}, {:?}); {}", STALL.as_millis(), m.body.len(), r.resp_len, m.framing, m.end, backend_view());
                            }
                            fail!("C01/h1h2c-response-not-ended-cleanly", "{what}: the backend ended its response with END_STREAM, the client saw {:?} after {} body bytes (framing {:?}); {}", m.end, m.body.len(), m.framing, backend_view());
                        }
                        let want = resp_body(case, flat, r);
                        if let Some(off) = first_mismatch(&m.body, &want) {
                            let probe = &m.body[off.min(m.body.len())..(off + 24).min(m.body.len())];
                            let origin = if probe.len() >= 8 { want.windows(probe.len()).position(|w| w == probe) } else { None };
                            fail!(
                                format!("C01/h1h2c-response-body:{}", if r.resp_declares_length { "cl" } else { "nocl" }),
                                "{what}: the backend sent {} body bytes, the client received {} (framing {:?}, chunks {:?}); first difference at offset {off}; the 24 bytes received there are the ones sent at offset {origin:?}; client bytes from there: {:?}",
                                want.len(),
                                m.body.len(),
                                m.framing,
                                &m.chunk_sizes[..m.chunk_sizes.len().min(12)],
                                engine::truncate(&String::from_utf8_lossy(&m.body[off.min(m.body.len())..]), 200)
                            );
                        }
                        match &m.framing {
                            Framing::ContentLength(_) | Framing::Chunked => {}
                            other => fail!("C01/h1h2c-response-not-delimited", "{what}: the response reached the HTTP/1.1 client with framing {other:?}: its end (END_STREAM at the backend) is not visible to the client; head {:?}", m.headers),
                        }
                        if !m.complaints.is_empty() {
                            fail!("C01/h1h2c-response-framing-ambiguous", "{what}: the response head is ambiguous about the body's framing: {:?}; head {:?}", m.complaints, m.headers);
                        }
                        let sent_trailers = resp_trailers(n, r.resp_trailers);
                        for t in &m.trailers {
                            if !sent_trailers.iter().any(|s| s.0.eq_ignore_ascii_case(&t.0) && s.1 == t.1) {
                                fail!("C01/h1h2c-response-trailers-differ", "{what}: the client received the trailer field {t:?}, the backend sent {sent_trailers:?}");
                            }
                        }
                        rep.class_if(r.resp_trailers > 0 && !m.trailers.is_empty(), "response_trailers_delivered");
                        rep.class_if(r.resp_trailers > 0 && m.trailers.is_empty(), "response_trailers_dropped");
                        rep.class_if(m.framing == Framing::Chunked, "response_reached_client_chunked");
                    }
                }
                // ---- what the backend received
                if mine.len() != 1 {
                    fail!("C01/h1h2c-request-count-at-backend", "{what} reached the h2c backend {} times; {}", mine.len(), backend_view());
                }
                let m = &mine[0].req;
                let want = req_body(case, flat, r);
                if let Some(off) = first_mismatch(&m.body, &want) {
                    let probe = &m.body[off.min(m.body.len())..(off + 24).min(m.body.len())];
                    let origin = if probe.len() >= 8 { want.windows(probe.len()).position(|w| w == probe) } else { None };
                    fail!(
                        format!("C01/h1h2c-request-body:{}", if matches!(r.req_framing, ReqFraming::Chunked(_)) { "chunked" } else { "cl" }),
                        "{what}: the client sent {} body bytes, the h2c backend received {} (END_STREAM {}); first difference at offset {off}; the 24 bytes received there are the ones sent at offset {origin:?}; DATA frames {:?}; {}",
                        want.len(),
                        m.body.len(),
                        m.end_stream,
                        &m.data_frames[..m.data_frames.len().min(16)],
                        backend_view()
                    );
                }
                if !m.end_stream {
                    fail!("C01/h1h2c-request-not-ended", "{what}: the client ended its message cleanly, the h2c backend saw no END_STREAM; {}", backend_view());
                }
                let method = if r.req_framing == ReqFraming::None { "GET" } else { "POST" };
                if h2::hdr(&m.headers, ":method").as_deref() != Some(method) || h2::hdr(&m.headers, ":path").as_deref() != Some(format!("/r{n:07}").as_str()) {
                    fail!("C01/h1h2c-request-line-changed", "{what}: forwarded as {:?} {:?}", h2::hdr(&m.headers, ":method"), h2::hdr(&m.headers, ":path"));
                }
                if let Some(cl) = h2::hdr(&m.headers, "content-length") {
                    if cl.trim().parse::<usize>().ok() != Some(want.len()) {
                        fail!("C01/h1h2c-request-length-differs", "{what}: forwarded with content-length {cl:?} and {} DATA octets", m.body.len());
                    }
                }
                let sent_trailers = req_trailers(n, r.req_trailers);
                for t in &m.trailers {
                    if !sent_trailers.iter().any(|s| s.0.eq_ignore_ascii_case(&t.0) && s.1 == t.1) {
                        fail!("C01/h1h2c-request-trailers-differ", "{what}: the backend received the trailer field {t:?}, the client sent {sent_trailers:?}");
                    }
                }
                rep.class_if(r.req_trailers > 0 && !m.trailers.is_empty(), "request_trailers_delivered");
                rep.class_if(r.req_trailers > 0 && m.trailers.is_empty(), "request_trailers_dropped");
                Ok(true)
            };
            match judge() {
                Ok(true) => {}
                Ok(false) => break,
                Err(f) => return Err(if case.strict { strict_key(case, ci, i, f) } else { f }),
            }
        }
    }
    if let Some(x) = out.records.iter().find(|x| !x.lab_req.map(|n| n >= base && n < base + total).unwrap_or(false)) {
        fail!("C01/h1h2c-unexpected-stream-at-backend", "the h2c backend received a stream that is no request of this scenario: headers {:?}, {} body bytes; {}", x.req.headers, x.req.body.len(), backend_view());
    }

    // ---- evidence
    let all = || case.conns.iter().flat_map(|c| c.reqs.iter());
    let stall = case.conns.iter().any(|c| c.client_read.has_stall()) || case.backend.read.has_stall();
    let boundary = all().any(|r| near_boundary(r.req_len) || near_boundary(r.resp_len));
    let both = all().any(|r| r.req_len >= 1 && r.resp_len >= 1);
    rep.nontrivial = both || (boundary && stall);
    rep.class("h1->h2c");
    rep.class_if(both, "body_in_both_directions");
    rep.class_if(boundary, "size_within_9_of_a_boundary");
    rep.class_if(stall, "read_stall");
    rep.class_if(case.conns.iter().any(|c| !c.client_write.steps.is_empty()) || !case.backend.write.steps.is_empty(), "scripted_writes");
    rep.class_if(all().any(|r| r.req_framing == ReqFraming::None), "request_without_body");
    rep.class_if(all().any(|r| r.req_framing == ReqFraming::ContentLength), "request_content_length");
    rep.class_if(all().any(|r| matches!(r.req_framing, ReqFraming::Chunked(_))), "request_chunked");
    rep.class_if(all().any(|r| r.req_trailers > 0), "request_trailers");
    rep.class_if(all().any(|r| r.resp_declares_length), "response_with_content_length");
    rep.class_if(all().any(|r| !r.resp_declares_length), "response_without_content_length");
    rep.class_if(all().any(|r| r.resp_trailers > 0), "response_trailers(end_stream_on_trailers)");
    rep.class_if(all().any(|r| r.resp_trailers == 0 && r.resp_end == RespEnd::EmptyData), "end_stream_on_empty_data");
    rep.class_if(all().any(|r| r.resp_trailers == 0 && r.resp_end == RespEnd::LastData && r.resp_len > 0), "end_stream_on_last_data");
    rep.class_if(all().any(|r| r.resp_trailers == 0 && r.resp_end == RespEnd::LastData && r.resp_len == 0), "end_stream_on_headers");
    rep.class_if(all().any(|r| r.resp_pad.is_some() && r.resp_len > 0), "padded_response_data");
    rep.class_if(all().any(|r| r.req_len.max(r.resp_len) >= 65536), "64KiB+_body");
    rep.class_if(case.backend.initial_window <= 9, "backend_initial_window_0_1_9");
    rep.class_if(case.backend.initial_window == 16383 || case.backend.initial_window == 16384, "backend_initial_window_16383_16384");
    rep.class_if(case.backend.initial_window > 65535, "backend_initial_window_above_default");
    rep.class_if(all().any(|r| r.req_len as u64 > case.backend.initial_window as u64), "request_body_over_backend_initial_window");
    rep.class_if(!case.backend.auto && !case.backend.grants.is_empty(), "backend_credit_by_schedule");
    rep.class_if(case.backend.max_frame > 16384, "backend_max_frame_size_above_default");
    rep.class_if(out.largest_data_in > 16384, "data_frame_above_16384_toward_backend");
    rep.class_if(out.credit_waits > 0, "response_waited_for_sozu_credit");
    rep.class_if(case.conns.iter().any(|c| c.reqs.len() >= 2), "keep_alive_2+");
    rep.class_if(case.conns.iter().any(|c| c.reqs.len() >= 4), "keep_alive_4");
    rep.class_if(case.conns.len() >= 2, "parallel_client_connections_2+");
    rep.class_if(out.streams_per_conn.iter().any(|s| *s >= 2), "backend_connection_carried_2+_streams");
    rep.class_if(out.max_open_streams >= 2, "concurrent_streams_on_one_backend_connection");
    rep.class_if(out.conns > case.conns.len(), "more_backend_connections_than_client_connections");
    if out.conns > case.conns.len() && std::env::var("VP_C01H2C_DEBUG").is_ok() {
        eprintln!("MORE-CONNS {} > {}: cut {:?} drip {} logs {:?} reqs {:?}", out.conns, case.conns.len(), case.cut, all().any(|r| r.resp_gap_ms > 0), out.logs, all().map(|r| format!("resp {} cl={} tr={} {:?} pad={:?} frames={:?}", r.resp_len, r.resp_declares_length, r.resp_trailers, r.resp_end, r.resp_pad, r.resp_frames)).collect::<Vec<_>>());
    }
    rep.class_if(case.cut.is_some(), "client_hangs_up_inside_request_body");
    rep.class_if(all().any(|r| r.resp_gap_ms > 0) || case.conns.iter().any(|c| c.client_write.total_pause_ms() > 4000), "slow_drip_longer_than_front_timeout");
    rep.inner_evaluations = progress.bytes();
    rep.classes.sort();
    rep.classes.dedup();
    Ok(rep)
}

// ------------------------------------------------------------------ evidence

pub fn describe(ev: &mut engine::Evidence, args: &Args) {
    ev.rule(
        SUB,
        "1..3 HTTP/1.1 client connections (in parallel) on a live worker's plain HTTP listener, each a keep-alive sequence of 1..4 requests routed to a cluster declared http2 whose backend is the lab's h2c peer. Requests: GET without body, POST with Content-Length or chunked (generated chunk sizes) optionally followed by 1..2 trailer fields; bodies of boundary-biased sizes (0,1,2; within 9 of 16393 / 16384 / 32768 / 65535 / 65536 / 4096 / 9; up to 256 KiB, thorough 4 MiB) of keyed content, written by a generated write script, the response read by a generated read script (small reads, stalls, socket buffer sizes). The backend advertises generated SETTINGS (INITIAL_WINDOW_SIZE 0 / 1 / 9 / 16383 / 16384 / 65535 / random / 2^31-1, MAX_FRAME_SIZE 16384..65536), grants credit per stream by a generated WINDOW_UPDATE schedule that turns into automatic replenishment after at most 600 ms, reads and writes by generated scripts (frames split anywhere, pauses, read stalls), and answers with DATA frames of generated sizes, with or without padding, with or without content-length, with 0..2 trailer fields, END_STREAM on the last DATA / on the trailers / on an empty DATA frame / on HEADERS. 6 %: the client hangs up inside its last request body. 3 %: one body dripped over more than the front timeout. Oracle: the body the backend received on the stream of request k is the body the client sent, ended by END_STREAM (never when the client hung up first; then a prefix); the body the client received in response k is the body the backend sent, framed with Content-Length or chunked and ended cleanly, with the index of request k; trailer fields arrive as trailers or not at all; every frame sozu sent respects the backend's windows and MAX_FRAME_SIZE; no byte-less period of 2.5 s on all four directions before everything is complete. A failure is re-run twice on a fresh worker and only reported when it reproduces. Non-trivial: a request with at least one body byte in both directions, or a body within 9 of a boundary together with a read stall. inner_evaluations: bytes moved over the four socket directions.",
    );
    ev.assume("h1h2c: every client connection gets its own h2c backend connection (the mux router is per session), so streams of different requests are sequential on a backend connection, never concurrent; concurrency is between sessions of the worker");
    ev.assume("h1h2c: trailer fidelity is C13's subject: here trailer fields only must not enter the body or disturb the framing");
    ev.assume("h1h2c: excluded by construction, each with a strict reproducer under regressions/C01/h1h2c-known-*: (1) a response that declares its content-length and carries END_STREAM on a later frame (empty DATA, trailers) is only generated as the last response of its connection, elsewhere END_STREAM sits on the frame that completes the length; (2) a request with trailers that is not the last of its connection stays within 12000 bytes and is written in one piece; (3) DATA frame and chunk sizes are scaled up so that a body needs fewer than 3000 frames (C14/frame-storm-session-closed)");
    if args.replay.is_none() && args.wants(SUB) {
        // measured over seeds 1, 2, 3, 7 (quick): the floors are about two thirds of the lowest value seen
        for (class, frac) in [
            ("body_in_both_directions", 0.8),
            ("size_within_9_of_a_boundary", 0.8),
            ("read_stall", 0.6),
            ("scripted_writes", 0.7),
            ("request_chunked", 0.6),
            ("request_content_length", 0.5),
            ("request_without_body", 0.2),
            ("request_trailers", 0.22),
            ("response_with_content_length", 0.6),
            ("response_without_content_length", 0.6),
            ("response_reached_client_chunked", 0.6),
            ("response_trailers(end_stream_on_trailers)", 0.38),
            ("end_stream_on_last_data", 0.55),
            ("end_stream_on_empty_data", 0.2),
            ("end_stream_on_headers", 0.06),
            ("padded_response_data", 0.35),
            ("backend_initial_window_0_1_9", 0.22),
            ("backend_initial_window_16383_16384", 0.12),
            ("request_body_over_backend_initial_window", 0.4),
            ("backend_credit_by_schedule", 0.4),
            ("backend_max_frame_size_above_default", 0.3),
            ("data_frame_above_16384_toward_backend", 0.06),
            ("response_waited_for_sozu_credit", 0.2),
            ("keep_alive_2+", 0.6),
            ("keep_alive_4", 0.1),
            ("backend_connection_carried_2+_streams", 0.6),
            ("parallel_client_connections_2+", 0.14),
            ("64KiB+_body", 0.35),
            ("client_hangs_up_inside_request_body", 0.012),
            ("slow_drip_longer_than_front_timeout", 0.008),
        ] {
            ev.floor(SUB, class, frac);
        }
    }
}

// ------------------------------------------------------------------ child process

pub fn child(args: &Args, total: u64) -> Stats {
    lab::init_ports(args.shard.map(|s| s.0).unwrap_or(0));
    let labcell: RefCell<Option<Lab>> = RefCell::new(None);
    let flaky = std::cell::Cell::new(0u64);
    let max = args.tier.pick(256 * 1024, 4 * 1024 * 1024);
    let run_on = |fresh: bool, case: &Case| -> CheckResult {
        let mut lab = match (fresh, labcell.borrow_mut().take()) {
            (false, Some(l)) => l,
            (_, old) => {
                drop(old);
                Lab::new()
            }
        };
        let r = scenario(&mut lab, case);
        // a lab that saw a failure is not reused
        *labcell.borrow_mut() = if matches!(&r, Ok(rep) if !rep.classes.iter().any(|c| c == "lab_dirty")) { Some(lab) } else { None };
        r
    };
    let check = |case: &Case| -> CheckResult {
        let first = run_on(false, case);
        let Err(f) = first else { return first };
        for _ in 0..2 {
            if let Err(f2) = run_on(true, case) {
                return Err(if f2.signature == f.signature { f2 } else { f });
            }
        }
        flaky.set(flaky.get() + 1);
        engine::note_flaky("C01-h1h2c", &f, &serde_json::to_string(case).unwrap_or_default());
        let mut rep = CaseReport::default();
        rep.class("flaky_unconfirmed");
        Ok(rep)
    };
    let mut st = engine::run_lab_shard(args, "C01", SUB, total, strategy(max), check, 12);
    st.flaky_unconfirmed += flaky.get();
    st
}
