//! C05 — a configuration survives every save / replay path unchanged (DESIGN §4 C05).

use std::io::{Read, Seek, SeekFrom};

use proptest::prelude::*;
use prost::Message;
use serde::{Deserialize, Serialize};
use sozu_command_lib::{
    parser::parse_several_requests,
    proto::command::{InitialState, Request, WorkerRequest},
    request::read_initial_state,
    state::ConfigState,
};

use crate::{
    engine::{self, Args, CaseReport, CheckResult, Evidence},
    gens::cmd,
    model::state::{first_diff, object_kinds, projection},
};

#[derive(Clone, Debug, Serialize, Deserialize)]
pub struct Case {
    pub history: Vec<Request>,
    pub perm: u64,
    /// also exercise the real-file paths (slower; a generated fraction of the cases)
    #[serde(default)]
    pub files: bool,
}

pub fn strategy() -> impl Strategy<Value = Case> {
    (cmd::history(40), any::<u64>(), prop::bool::weighted(0.1))
        .prop_map(|(history, perm, files)| Case { history, perm, files })
}

fn top_key(d: &str) -> String {
    d.trim_start_matches('/')
        .split(|c| c == '/' || c == ':' || c == '[')
        .next()
        .unwrap_or("?")
        .to_string()
}

fn replay(path: &str, target: &serde_json::Value, requests: &[Request]) -> Result<(), engine::Failure> {
    let mut fresh = ConfigState::new();
    for (i, r) in requests.iter().enumerate() {
        if let Err(e) = fresh.dispatch(r) {
            fail!(
                format!("C05/replay-rejected:{}", cmd::verb(r)),
                "path {path}: replayed request #{i} ({}) was rejected on an empty instance: {e}; request: {}",
                cmd::verb(r),
                engine::truncate(&format!("{r:?}"), 600)
            );
        }
    }
    let got = projection(&fresh, true);
    if let Some(d) = first_diff(target, &got) {
        fail!(
            format!("C05/replay-differs:{}", top_key(&d)),
            "path {path}: replayed configuration differs from the original (left = original): {d}"
        );
    }
    Ok(())
}

pub fn check(case: &Case) -> CheckResult {
    let mut rep = CaseReport::default();
    let mut s = ConfigState::new();
    let mut accepted = 0usize;
    let mut removal_or_patch = false;
    for r in &case.history {
        if s.dispatch(r).is_ok() {
            accepted += 1;
            removal_or_patch |= cmd::is_removal_or_patch(r);
        }
    }
    let target = projection(&s, true);

    // p1: in-memory requests (worker bootstrap)
    let initial = s.produce_initial_state();
    let reqs: Vec<Request> = initial.requests.iter().map(|w| w.content.clone()).collect();
    replay("p1 in-memory requests", &target, &reqs)?;

    // p2: protobuf bootstrap blob
    let bytes = initial.encode_to_vec();
    let decoded = match read_initial_state(&mut &bytes[..]) {
        Ok(d) => d,
        Err(e) => fail!("C05/protobuf-unreadable", "p2: read_initial_state failed on {} bytes: {e}", bytes.len()),
    };
    let reqs2: Vec<Request> = decoded.requests.iter().map(|w| w.content.clone()).collect();
    replay("p2 protobuf blob", &target, &reqs2)?;
    let _ = InitialState::default();

    // p4: state file (\n\0 separated JSON), read back as load_state does
    let text = {
        let mut buf = Vec::new();
        for (i, r) in s.produce_initial_state().requests.into_iter().enumerate() {
            let msg = WorkerRequest::new(format!("SAVE-{i}"), r.content);
            buf.extend_from_slice(serde_json::to_string(&msg).unwrap_or_default().as_bytes());
            buf.extend_from_slice(b"\n\0");
        }
        buf
    };
    match parse_several_requests::<WorkerRequest>(&text) {
        Ok((rest, parsed)) => {
            if !rest.is_empty() {
                fail!("C05/state-file-unparsed-tail", "p4: {} bytes of the saved state do not parse back: {}", rest.len(), engine::truncate(&String::from_utf8_lossy(rest), 300));
            }
            if parsed.len() != reqs.len() {
                fail!("C05/state-file-count", "p4: saved {} records, parsed {}", reqs.len(), parsed.len());
            }
            let reqs4: Vec<Request> = parsed.into_iter().map(|w| w.content).collect();
            replay("p4 state file", &target, &reqs4)?;
        }
        Err(e) => fail!("C05/state-file-unparsable", "p4: parse_several_requests failed: {e:?}"),
    }

    if case.files {
        // p3 / p4 through real files, exactly the library's writers
        let dir = engine::shard::scratch_dir();
        let mut f = tempfile::tempfile_in(&dir).expect("tempfile");
        if let Err(e) = s.write_requests_to_file(&mut f) {
            fail!("C05/write-requests-failed", "write_requests_to_file: {e}");
        }
        f.seek(SeekFrom::Start(0)).unwrap();
        let mut content = Vec::new();
        f.read_to_end(&mut content).unwrap();
        match parse_several_requests::<WorkerRequest>(&content) {
            Ok((rest, parsed)) if rest.is_empty() => {
                let r: Vec<Request> = parsed.into_iter().map(|w| w.content).collect();
                replay("p4 write_requests_to_file", &target, &r)?;
            }
            Ok((rest, _)) => fail!("C05/state-file-unparsed-tail", "p4(file): {} bytes left", rest.len()),
            Err(e) => fail!("C05/state-file-unparsable", "p4(file): {e:?}"),
        }
        rep.class("real_files");
    }

    // p5: JSON upgrade payload (UpgradeData.state)
    let js = match serde_json::to_string(&s) {
        Ok(j) => j,
        Err(e) => fail!("C05/json-unserialisable", "p5: ConfigState does not serialise to JSON: {e}"),
    };
    let back: ConfigState = match serde_json::from_str(&js) {
        Ok(b) => b,
        Err(e) => fail!("C05/json-unreadable", "p5: the JSON upgrade payload does not parse back: {e}"),
    };
    if back != s {
        let d = first_diff(&projection(&s, false), &projection(&back, false)).unwrap_or_else(|| "request_counts".into());
        fail!(format!("C05/json-differs:{}", top_key(&d)), "p5: ConfigState after the JSON round trip differs: {d}");
    }
    // a state restored from JSON (fresh hash seeds) must produce an equivalent replay
    let reqs5: Vec<Request> = back.produce_initial_state().requests.into_iter().map(|w| w.content).collect();
    replay("p5 restored-from-JSON then replayed", &target, &reqs5)?;

    // order independence: permute the requests inside each run of the same verb
    let mut permuted = reqs.clone();
    let mut seed = case.perm;
    let mut i = 0;
    let mut permuted_runs = 0;
    while i < permuted.len() {
        let v = cmd::verb(&permuted[i]);
        let mut j = i;
        while j < permuted.len() && cmd::verb(&permuted[j]) == v {
            j += 1;
        }
        // listeners are followed by their ActivateListener: keep those pairs in place
        if j - i >= 2 && !v.ends_with("Listener") {
            for k in (i + 1..j).rev() {
                let r = i + (engine::splitmix64(&mut seed) % ((k - i) as u64 + 1)) as usize;
                permuted.swap(k, r);
            }
            permuted_runs += 1;
        }
        i = j;
    }
    replay("p1 permuted within verb groups", &target, &permuted)?;

    let kinds = object_kinds(&s);
    rep.nontrivial = kinds >= 3 && removal_or_patch;
    rep.class_if(kinds >= 3, "3+_object_kinds");
    rep.class_if(removal_or_patch, "history_has_removal_or_patch");
    rep.class_if(s.certificates.values().any(|c| c.len() >= 2), "2+_certs_on_one_address");
    rep.class_if(!s.udp_fronts.is_empty() || !s.udp_listeners.is_empty(), "has_udp");
    rep.class_if(permuted_runs > 0, "permuted_groups");
    rep.class_if(accepted * 2 < case.history.len(), "mostly_rejected_history");
    rep.inner_evaluations = 6;
    Ok(rep)
}

pub fn run(args: &Args) -> i32 {
    let mut ev = Evidence::new(args, "exploration");
    ev.rule(
        "roundtrip",
        "history = 0..40 commands from G-cmd (every mutating verb of ConfigState::dispatch, valid and invalid arguments over small colliding pools) building a reachable state S; S is replayed through produce_initial_state (in-memory), the protobuf blob, the \\n\\0-separated JSON state file (10% through real files), the JSON upgrade payload, and a within-verb permutation; every replayed request must be accepted and the projection (all maps but request_counts, empty buckets normalised) must equal S's. Non-trivial: S has >= 3 object kinds and the history contains an accepted removal/patch; distinct by case hash.",
    );
    ev.assume("the fork/exec of upgrade_main is not run; UpgradeData.state is the ConfigState JSON round trip checked here");
    ev.floor("roundtrip", "3+_object_kinds", 0.3);
    let cases = args.cases(30_000, 400_000);
    engine::with_quiet_stdout(|| engine::run_pbt(&mut ev, args, "roundtrip", cases, strategy, check));
    ev.finish()
}
