//! C05 — a configuration survives every save / replay path unchanged (DESIGN §4 C05).

use std::io::{Read, Seek, SeekFrom};

use proptest::prelude::*;
use prost::Message;
use serde::{Deserialize, Serialize};
use sozu_command_lib::{
    parser::parse_several_requests,
    proto::command::{InitialState, Request, WorkerRequest},
    request::read_initial_state,
    state::ConfigState,
};

use crate::{
    engine::{self, Args, CaseReport, CheckResult, Evidence},
    gens::cmd,
    model::state::{first_diff, object_kinds, projection},
};

#[derive(Clone, Debug, Serialize, Deserialize)]
pub struct Case {
    pub history: Vec<Request>,
    pub perm: u64,
    /// also exercise the real-file paths (slower; a generated fraction of the cases)
    #[serde(default)]
    pub files: bool,
}

pub fn strategy() -> impl Strategy<Value = Case> {
    (cmd::history(40), any::<u64>(), prop::bool::weighted(0.1))
        .prop_map(|(history, perm, files)| Case { history, perm, files })
}

fn top_key(d: &str) -> String {
    d.trim_start_matches('/')
        .split(|c| c == '/' || c == ':' || c == '[')
        .next()
        .unwrap_or("?")
        .to_string()
}

fn replay(path: &str, target: &serde_json::Value, requests: &[Request]) -> Result<(), engine::Failure> {
    let mut fresh = ConfigState::new();
    for (i, r) in requests.iter().enumerate() {
        if let Err(e) = fresh.dispatch(r) {
            fail!(
                format!("C05/replay-rejected:{}", cmd::verb(r)),
                "path {path}: replayed request #{i} ({}) was rejected on an empty instance: {e}; request: {}",
                cmd::verb(r),
                engine::truncate(&format!("{r:?}"), 600)
            );
        }
    }
    let got = projection(&fresh, false);
    if let Some(d) = first_diff(target, &got) {
        fail!(
            format!("C05/replay-differs:{}", top_key(&d)),
            "path {path}: replayed configuration differs from the original (left = original): {d}"
        );
    }
    Ok(())
}

pub fn check(case: &Case) -> CheckResult {
    let mut rep = CaseReport::default();
    let mut s = ConfigState::new();
    let mut accepted = 0usize;
    let mut removal_or_patch = false;
    for r in &case.history {
        if s.dispatch(r).is_ok() {
            accepted += 1;
            removal_or_patch |= cmd::is_removal_or_patch(r);
        }
    }
    let target = projection(&s, false);

    // p1: in-memory requests (worker bootstrap)
    let initial = s.produce_initial_state();
    let reqs: Vec<Request> = initial.requests.iter().map(|w| w.content.clone()).collect();
    replay("p1 in-memory requests", &target, &reqs)?;

    // p2: protobuf bootstrap blob
    let bytes = initial.encode_to_vec();
    let decoded = match read_initial_state(&mut &bytes[..]) {
        Ok(d) => d,
        Err(e) => fail!("C05/protobuf-unreadable", "p2: read_initial_state failed on {} bytes: {e}", bytes.len()),
    };
    let reqs2: Vec<Request> = decoded.requests.iter().map(|w| w.content.clone()).collect();
    replay("p2 protobuf blob", &target, &reqs2)?;
    let _ = InitialState::default();

    // p4: state file (\n\0 separated JSON), read back as load_state does
    let text = {
        let mut buf = Vec::new();
        for (i, r) in s.produce_initial_state().requests.into_iter().enumerate() {
            let msg = WorkerRequest::new(format!("SAVE-{i}"), r.content);
            buf.extend_from_slice(serde_json::to_string(&msg).unwrap_or_default().as_bytes());
            buf.extend_from_slice(b"\n\0");
        }
        buf
    };
    match parse_several_requests::<WorkerRequest>(&text) {
        Ok((rest, parsed)) => {
            if !rest.is_empty() {
                fail!("C05/state-file-unparsed-tail", "p4: {} bytes of the saved state do not parse back: {}", rest.len(), engine::truncate(&String::from_utf8_lossy(rest), 300));
            }
            if parsed.len() != reqs.len() {
                fail!("C05/state-file-count", "p4: saved {} records, parsed {}", reqs.len(), parsed.len());
            }
            let reqs4: Vec<Request> = parsed.into_iter().map(|w| w.content).collect();
            replay("p4 state file", &target, &reqs4)?;
        }
        Err(e) => fail!("C05/state-file-unparsable", "p4: parse_several_requests failed: {e:?}"),
    }

    if case.files {
        // p3 / p4 through real files, exactly the library's writers
        let dir = engine::shard::scratch_dir();
        let mut f = tempfile::tempfile_in(&dir).expect("tempfile");
        if let Err(e) = s.write_requests_to_file(&mut f) {
            fail!("C05/write-requests-failed", "write_requests_to_file: {e}");
        }
        f.seek(SeekFrom::Start(0)).unwrap();
        let mut content = Vec::new();
        f.read_to_end(&mut content).unwrap();
        match parse_several_requests::<WorkerRequest>(&content) {
            Ok((rest, parsed)) if rest.is_empty() => {
                let r: Vec<Request> = parsed.into_iter().map(|w| w.content).collect();
                replay("p4 write_requests_to_file", &target, &r)?;
            }
            Ok((rest, _)) => fail!("C05/state-file-unparsed-tail", "p4(file): {} bytes left", rest.len()),
            Err(e) => fail!("C05/state-file-unparsable", "p4(file): {e:?}"),
        }
        rep.class("real_files");
    }

    // p5: JSON upgrade payload (UpgradeData.state)
    let js = match serde_json::to_string(&s) {
        Ok(j) => j,
        Err(e) => fail!("C05/json-unserialisable", "p5: ConfigState does not serialise to JSON: {e}"),
    };
    let back: ConfigState = match serde_json::from_str(&js) {
        Ok(b) => b,
        Err(e) => fail!("C05/json-unreadable", "p5: the JSON upgrade payload does not parse back: {e}"),
    };
    if back != s {
        let d = first_diff(&projection(&s, false), &projection(&back, false)).unwrap_or_else(|| "request_counts".into());
        fail!(format!("C05/json-differs:{}", top_key(&d)), "p5: ConfigState after the JSON round trip differs: {d}");
    }
    // a state restored from JSON (fresh hash seeds) must produce an equivalent replay
    let reqs5: Vec<Request> = back.produce_initial_state().requests.into_iter().map(|w| w.content).collect();
    replay("p5 restored-from-JSON then replayed", &target, &reqs5)?;

    // order independence: permute the requests inside each run of the same verb
    let mut permuted = reqs.clone();
    let mut seed = case.perm;
    let mut i = 0;
    let mut permuted_runs = 0;
    while i < permuted.len() {
        let v = cmd::verb(&permuted[i]);
        let mut j = i;
        while j < permuted.len() && cmd::verb(&permuted[j]) == v {
            j += 1;
        }
        // listeners are followed by their ActivateListener: keep those pairs in place
        if j - i >= 2 && !v.ends_with("Listener") {
            for k in (i + 1..j).rev() {
                let r = i + (engine::splitmix64(&mut seed) % ((k - i) as u64 + 1)) as usize;
                permuted.swap(k, r);
            }
            permuted_runs += 1;
        }
        i = j;
    }
    replay("p1 permuted within verb groups", &target, &permuted)?;

    let kinds = object_kinds(&s);
    rep.nontrivial = kinds >= 3 && removal_or_patch;
    rep.class_if(kinds >= 3, "3+_object_kinds");
    rep.class_if(removal_or_patch, "history_has_removal_or_patch");
    rep.class_if(s.certificates.values().any(|c| c.len() >= 2), "2+_certs_on_one_address");
    rep.class_if(!s.udp_fronts.is_empty() || !s.udp_listeners.is_empty(), "has_udp");
    rep.class_if(permuted_runs > 0, "permuted_groups");
    rep.class_if(accepted * 2 < case.history.len(), "mostly_rejected_history");
    rep.inner_evaluations = 6;
    Ok(rep)
}


// ------------------------------------------------------------------ sub-check `loadfile`

/// A generated state, saved by sozu's own writer, goes through the main process's real LoadState and
/// SaveState (CommandHub without workers, over its unix command socket).
#[derive(Clone, Debug, Serialize, Deserialize)]
pub struct FileCase {
    pub history: Vec<Request>,
    /// big records: (listener address index, bank certificate, number of chain entries) per extra AddCertificate
    pub big: Vec<(u32, u32, u8)>,
}

pub fn file_strategy() -> impl Strategy<Value = FileCase> {
    (cmd::history(30), prop::collection::vec((any::<u32>(), any::<u32>(), prop_oneof![Just(0u8), 1u8..6, 6u8..40]), 0..3)).prop_map(|(history, big)| FileCase { history, big })
}

pub fn file_check(case: &FileCase) -> CheckResult {
    use sozu_command_lib::proto::command::{request::RequestType, AddCertificate, CertificateAndKey};
    let mut rep = CaseReport::default();
    let mut s = ConfigState::new();
    for r in &case.history {
        let _ = s.dispatch(r);
    }
    let mut biggest = 0usize;
    for (a, c, n) in &case.big {
        let bank = &crate::gens::certs::BANK;
        let cert = &bank[engine::pick_idx(*c, bank.len())];
        let chain: Vec<String> = (0..*n as usize).map(|i| bank[(i + 1) % bank.len()].pem.to_string()).collect();
        let req = Request {
            request_type: Some(RequestType::AddCertificate(AddCertificate {
                address: cmd::sa(cmd::LISTENER_ADDRS[engine::pick_idx(*a, cmd::LISTENER_ADDRS.len())]),
                certificate: CertificateAndKey { certificate: cert.pem.to_string(), certificate_chain: chain, key: cert.key.to_string(), versions: vec![], names: vec![] },
                expired_at: None,
            })),
        };
        if s.dispatch(&req).is_ok() {
            biggest = biggest.max(serde_json::to_string(&req).map(|t| t.len()).unwrap_or(0));
        }
    }
    // the file as sozu writes it
    let mut f = tempfile::tempfile_in("/verif/scratch").expect("temp file");
    if let Err(e) = s.write_requests_to_file(&mut f) {
        fail!("C05/write-failed", "write_requests_to_file failed: {e}");
    }
    let mut bytes = vec![];
    f.seek(SeekFrom::Start(0)).expect("seek");
    f.read_to_end(&mut bytes).expect("read back");
    // sozu's loader reads through a 200 000-byte window: one record above it cannot be loaded (documented limit
    // of the implementation, not generated)
    if biggest > 150_000 {
        rep.excluded_known += 1;
        return Ok(rep);
    }
    let ((load_status, load_msg), (save_status, save_msg), saved) = match super::c09::load_then_save(&bytes) {
        Ok(x) => x,
        Err(e) => fail!("C05/main-process-failed", "{e}"),
    };
    if load_status != "Ok" {
        fail!("C05/loadstate-refused", "LoadState of a {}-byte file written by sozu itself (largest record about {biggest} bytes) was answered {load_status}: {load_msg}", bytes.len());
    }
    if save_status != "Ok" {
        fail!("C05/savestate-refused", "SaveState after LoadState was answered {save_status}: {save_msg}");
    }
    let Ok((rest, requests)) = parse_several_requests::<WorkerRequest>(&saved) else {
        fail!("C05/saved-file-unreadable", "the file written by SaveState does not parse");
    };
    if !rest.is_empty() {
        fail!("C05/saved-file-unreadable", "{} trailing bytes in the file written by SaveState", rest.len());
    }
    let reqs: Vec<Request> = requests.into_iter().map(|w| w.content).collect();
    let target = projection(&s, false);
    replay("loadfile: LoadState + SaveState through the main process", &target, &reqs)?;
    rep.nontrivial = object_kinds(&s) >= 2;
    rep.class_if(biggest > 16_393, "record_above_16393_bytes");
    rep.class_if(biggest > 8_000, "record_above_8000_bytes");
    rep.class_if(bytes.len() > 16_393, "file_above_16393_bytes");
    rep.class_if(bytes.len() > 200_000, "file_above_200000_bytes");
    rep.inner_evaluations = reqs.len() as u64;
    Ok(rep)
}

pub fn run(args: &Args) -> i32 {
    let mut ev = Evidence::new(args, "exploration");
    ev.rule(
        "roundtrip",
        "history = 0..40 commands from G-cmd (every mutating verb of ConfigState::dispatch, valid and invalid arguments over small colliding pools) building a reachable state S; S is replayed through produce_initial_state (in-memory), the protobuf blob, the \\n\\0-separated JSON state file (10% through real files), the JSON upgrade payload, and a within-verb permutation; every replayed request must be accepted and the projection (all maps but request_counts; an empty bucket left behind by a removal counts as a difference, sozu drops them since fix e8642c9) must equal S's. Non-trivial: S has >= 3 object kinds and the history contains an accepted removal/patch; distinct by case hash.",
    );
    ev.assume("the fork/exec of upgrade_main is not run; UpgradeData.state is the ConfigState JSON round trip checked here");
    ev.floor("roundtrip", "3+_object_kinds", 0.3);
    let cases = args.cases(30_000, 400_000);
    engine::with_quiet_stdout(|| engine::run_pbt(&mut ev, args, "roundtrip", cases, strategy, check));
    ev.rule(
        "loadfile",
        "history = 0..30 commands from G-cmd plus 0..2 AddCertificate with a chain of 0..39 certificates (records from 2 kB to about 60 kB); the resulting state is written by ConfigState::write_requests_to_file, loaded by the real main process (CommandHub without workers, LoadState over its unix command socket), saved again with SaveState, and the saved file replayed on a fresh instance: LoadState and SaveState must answer OK and the replayed projection must equal the original state's. Non-trivial: the state has >= 2 object kinds; distinct by case hash.",
    );
    ev.floor("loadfile", "file_above_16393_bytes", 0.15);
    ev.floor("loadfile", "record_above_16393_bytes", 0.1);
    // the hub thread logs through sozu's stdout logger
    {
        let mut args1 = args.clone();
        args1.jobs = 8;
        engine::with_quiet_stdout(|| engine::run_pbt(&mut ev, &args1, "loadfile", args.cases(300, 6_000), file_strategy, file_check));
    }
    engine::with_quiet_stdout(|| engine::fuzz::corpus_check(&mut ev, args, "corpus", "state_stream", "C05/corpus", &["unparsable", "no_records", "empty_state"], vp_oracles::state_stream));
    engine::fuzz::campaign(&mut ev, args, "fuzz", "state_stream", 400_000);
    ev.finish()
}
