//! C03 sub-check `h2smuggle` — the HTTP/2-frontend half of "client and backend agree on request boundaries".
//!
//! One HTTP/2 connection (TLS, ALPN h2) to a live worker whose HTTPS listener routes `c0.lab` to a cluster with one
//! and `c1.lab` to a cluster with two raw-recording HTTP/1.1 keep-alive backends (`c03::serve`). 1..4 request
//! streams, each a valid request plus 0..2 mutations from a catalogue of HTTP/2 -> HTTP/1.1 smuggling / desync
//! shapes. The oracle is black box: what every backend connection received is read by the strict RFC 9112 reader and
//! the permissive variants of `model::http`; every message found must be one client stream's request, unchanged in
//! method / target / host / body.
//!
//! Exploration aids: VP_C03H2_SURVEY=1 (tally failure signatures instead of stopping), VP_C03H2_EXCLUSIONS=1.

use std::{
    cell::RefCell,
    collections::{BTreeMap, BTreeSet},
    net::{SocketAddr, TcpStream},
    sync::{
        Arc, Mutex,
        atomic::{AtomicBool, Ordering},
    },
    time::{Duration, Instant},
};

use proptest::prelude::*;
use serde::{Deserialize, Serialize};
use sozu_command_lib::{
    config::ListenerBuilder,
    proto::command::{ActivateListener, AddCertificate, CertificateAndKey, ListenerType, PathRule, RequestHttpFrontend, RulePosition, request::RequestType},
    scm_socket::Listeners,
    state::ConfigState,
};

use super::c03;
use crate::{
    engine::{self, Args, CaseReport, CheckResult, Failure, Stats},
    gens::certs,
    lab::{
        self, LabConfig, LabWorker,
        h1::Acceptor,
        h2::{self, Frame, H2Conn, H2Event, Settings},
    },
    model::http::{self, Framing, Opts, Req, Tail},
};

pub const SUB: &str = "h2smuggle";
pub const QUICK: u64 = 4_000;
pub const THOROUGH: u64 = 80_000;

// ------------------------------------------------------------------ case

pub const METHODS: &[&str] = &["GET", "POST", "PUT", "DELETE", "OPTIONS", "HEAD"];
const EXTRA: &[&str] = &["accept", "user-agent", "x-pad", "content-type", "accept-encoding", "x-forwarded-for", "cookie", "te", "x-request-id", "authorization"];
const HOSTS: [&str; 2] = ["c0.lab", "c1.lab"];
/// backend index -> cluster index
const CLUSTER_OF: [usize; 3] = [0, 1, 1];

#[derive(Clone, Debug, Serialize, Deserialize)]
pub enum Mut {
    /// content-length = DATA total + delta (delta != 0); end: 0 DATA+END_STREAM, 1 empty DATA+END_STREAM, 2 trailer HEADERS+END_STREAM, 3 END_STREAM on the initial HEADERS
    ClMismatch { delta: i16, end: u8 },
    /// a second content-length field: the value shifted by delta (0: equal)
    ClDup { delta: i8 },
    /// content-length value written in one of c03's CL forms
    ClForm { form: u8 },
    /// a transfer-encoding field (TE_FORMS); keep_cl: next to content-length; upper: name `Transfer-Encoding`; chunked_body: the DATA is chunk framing ending in a smuggled request
    Te { form: u8, keep_cl: bool, upper: bool, chunked_body: bool },
    /// CONN_FIELDS
    ConnSpecific { which: u8 },
    /// a field whose NAME holds forbidden bytes (NAME_FORMS), in the header block or the trailers
    NameBytes { which: u8, trailer: bool },
    /// a field whose VALUE holds forbidden bytes (VALUE_FORMS), in the header block or the trailers
    ValueBytes { which: u8, trailer: bool },
    /// PSEUDO_FORMS
    Pseudo { which: u8 },
    /// PATH_FORMS
    Path { which: u8 },
    /// METHOD_FORMS
    Method { which: u8 },
    /// AUTHORITY_FORMS
    Authority { which: u8 },
    /// SCHEME_FORMS
    Scheme { which: u8 },
    /// DATA on a request whose method usually has none (GET / HEAD / DELETE / OPTIONS), with or without content-length
    BodyOnBodiless { cl: bool },
    /// HEAD with content-length N > 0 and END_STREAM on HEADERS
    HeadCl,
    /// CONNECT_FORMS
    Connect { which: u8 },
    /// content-length: 0 and DATA
    Cl0Data,
    /// TRAILER_FORMS
    TrailerField { which: u8 },
    /// frame sequence: 0 trailers without END_STREAM (the stream never ends), 1 DATA after END_STREAM, 2 the initial HEADERS again after END_STREAM
    Frames { which: u8 },
}

#[derive(Clone, Debug, Serialize, Deserialize)]
pub struct StreamSpec {
    pub method: u8,
    /// what follows the marker in :path
    pub path: String,
    pub extra: Vec<(u8, String)>,
    /// DATA payload sizes (POST / PUT only; 0 = an empty DATA frame)
    pub data: Vec<u16>,
    pub declare_cl: bool,
    /// number of trailer fields (POST / PUT only)
    pub trailers: u8,
    /// body content: 0 letters, 1 a complete HTTP/1.1 request, 2 `0 CRLF CRLF` + a complete request
    pub payload: u8,
    pub pad: Option<u8>,
    /// split the header block into HEADERS + CONTINUATION after this many bytes
    pub cont_split: Option<u16>,
    pub muts: Vec<Mut>,
}

#[derive(Clone, Debug, Serialize, Deserialize)]
pub struct Case {
    pub nonce: u32,
    /// routed host: 0 c0.lab (one backend), 1 c1.lab (two backends)
    pub host: u8,
    /// send every stream before reading any answer
    pub all_at_once: bool,
    /// sizes of the pieces the client's bytes are written in (cycled; empty: one write per stream)
    pub seg: Vec<u16>,
    /// pause after each of the first pieces, ms
    pub seg_pause_ms: u8,
    /// after the initial HEADERS of a stream that has more frames, wait up to this many ms for a refusal before sending
    /// the rest (0: everything is written at once; sozu answers frames on a stream it has reset with GOAWAY STREAM_CLOSED)
    #[serde(default)]
    pub probe_ms: u8,
    pub streams: Vec<StreamSpec>,
    /// reproducer mode: mutations that hit a known finding are applied (generated cases leave them out)
    #[serde(default)]
    pub strict: bool,
}

pub const TE_FORMS: &[&[u8]] = &[b"chunked", b"Chunked", b"chunked, identity", b" chunked", b"identity", b"gzip, chunked", b"CHUNKED", b"xchunked", b"chunked\t", b"trailers", b"chunked,chunked"];
pub const CONN_FIELDS: &[(&str, &str)] = &[
    ("connection", "x-hop"),
    ("connection", "keep-alive, x-hop"),
    ("keep-alive", "timeout=5, x-hop"),
    ("proxy-connection", "keep-alive"),
    ("upgrade", "h2c"),
    ("te", "gzip"),
    ("te", "trailers, deflate"),
    ("connection", "content-length, x-hop"),
    ("connection", "x-m, x-hop"),
    ("upgrade", "websocket"),
    ("connection", "transfer-encoding, x-hop"),
];
pub const NAME_FORMS: &[&[u8]] = &[
    b"x-a\rb",
    b"x-a\nb",
    b"x-a\r\nx-injected",
    b"x-a\0b",
    b"x-a:b",
    b"x-a b",
    b"X-Upper",
    b"",
    b"transfer-encoding: chunked\r\nx-b",
    b"x-a\tb",
    b"x-(a)",
    b"x-\xc3\xa9",
    b"x-a: 1\r\n\r\nGET /smuggled HTTP/1.1\r\nhost: OWN\r\nx-b",
    b"Content-Length",
    b"x-a ",
    b" x-a",
];
pub const VALUE_FORMS: &[&[u8]] = &[
    b"x\r\ntransfer-encoding: chunked",
    b"x\r\n\r\nGET /smuggled HTTP/1.1\r\nhost: OWN",
    b"x\nx-injected: 1",
    b"x\rx-injected: 1",
    b"a\0b",
    b"x\r\ncontent-length: 0\r\n\r\nGET /smuggled HTTP/1.1\r\nhost: OWN\r\nx-ignore: ",
    b"x\r\n x-folded: 1",
    b" lead",
    b"trail ",
    b"\tx",
    b"a\x01b",
    b"a\x7fb",
    b"caf\xc3\xa9",
    b"x\r\nhost: OTHER",
    b"x\r\nx-injected: 1",
    b"x\n\nGET /smuggled HTTP/1.1\nhost: OWN\n\n",
];
/// 0 no :method, 1 no :path, 2 no :scheme, 3 no :authority (and no host), 4 two equal :path, 5 two different :path, 6 two :method,
/// 7 :path after the regular fields, 8 unknown pseudo-header :foo, 9 :status in a request, 10 :protocol, 11 :path in the trailers,
/// 12 two :authority, 13 two :scheme, 14 :method after a regular field, 15 every pseudo-header after the regular fields
pub const PSEUDO_FORMS: u8 = 16;
/// 0 empty, 1 no leading slash, 2 space, 3 CRLF + field, 4 ` HTTP/1.1 CRLF field`, 5 absolute-form, 6 asterisk, 7 fragment, 8 tab, 9 NUL,
/// 10 LF + field, 11 a complete second request behind the first, 12 UTF-8 bytes, 13 DEL, 14 CR only
pub const PATH_FORMS: u8 = 15;
/// 0 `GET /smuggled`, 1 `GET / HTTP/1.1 CRLF Host: evil CRLF CRLF GET`, 2 empty, 3 lower case, 4 colon, 5 trailing tab, 6 NUL, 7 unknown token FOO, 8 trailing space, 9 CRLF only
pub const METHOD_FORMS: u8 = 10;
/// 0 space, 1 CRLF + field, 2 userinfo, 3 :authority other + host own, 4 host field only, 5 :authority and host equal, 6 :authority own + host other,
/// 7 two host fields, 8 with port 443, 9 upper case, 10 empty :authority + host, 11 unknown host, 12 `own:evil`, 13 with a path, 14 tab, 15 host field with CRLF,
/// 16 host field only, other cluster's SNI-independent name, 17 :authority own + host `own:443`
pub const AUTHORITY_FORMS: u8 = 18;
/// 0 http, 1 ftp, 2 HTTP, 3 empty, 4 `https://evil`, 5 CRLF + field, 6 trailing space, 7 javascript
pub const SCHEME_FORMS: u8 = 8;
/// 0 CONNECT with :scheme and :path, 1 CONNECT with :authority only, 2 CONNECT + :protocol websocket
pub const CONNECT_FORMS: u8 = 3;
/// 0 content-length (the DATA total), 1 content-length (another number), 2 transfer-encoding: chunked, 3 host: other, 4 x-m of another stream,
/// 5 connection: close, 6 te: trailers, 7 :path, 8 content-length: 0
pub const TRAILER_FORMS: u8 = 9;

// ------------------------------------------------------------------ what goes on the wire

type Field = (Vec<u8>, Vec<u8>);

#[derive(Clone, Debug, PartialEq)]
pub enum End {
    OnHeaders,
    OnData,
    OnEmptyData,
    OnTrailers,
    /// the client never ends the stream (it cancels it after a moment)
    Never,
}

#[derive(Clone, Debug)]
pub struct Wire {
    pub id: u32,
    /// the field list of the initial HEADERS, in order, pseudo-header fields included
    pub headers: Vec<Field>,
    pub data: Vec<Vec<u8>>,
    pub trailers: Option<Vec<Field>>,
    pub end: End,
    /// frames sent after the end of the stream
    pub after: Vec<Frame>,
    pub pad: Option<u8>,
    pub cont_split: Option<usize>,
    pub labels: Vec<&'static str>,
    pub excluded: u64,
}

fn f(n: &str, v: &str) -> Field {
    (n.as_bytes().to_vec(), v.as_bytes().to_vec())
}

impl Wire {
    pub fn pseudo(&self, name: &str) -> Vec<&[u8]> {
        self.headers.iter().filter(|(n, _)| n == name.as_bytes()).map(|(_, v)| v.as_slice()).collect()
    }
    fn pos(&self, name: &str) -> Option<usize> {
        self.headers.iter().position(|(n, _)| n == name.as_bytes())
    }
    fn set(&mut self, name: &str, value: &[u8]) {
        match self.pos(name) {
            Some(i) => self.headers[i].1 = value.to_vec(),
            None => self.headers.push((name.as_bytes().to_vec(), value.to_vec())),
        }
    }
    fn remove(&mut self, name: &str) {
        self.headers.retain(|(n, _)| n != name.as_bytes());
    }
    /// the DATA payload the client sends before the end of the stream
    pub fn sent_body(&self) -> Vec<u8> {
        if self.end == End::OnHeaders {
            return vec![];
        }
        self.data.concat()
    }
    fn body_len(&self) -> usize {
        self.data.iter().map(|d| d.len()).sum()
    }
    pub fn mutated(&self) -> bool {
        !self.labels.is_empty()
    }
    /// lower-cased names the client sent as field names (header block)
    pub fn names(&self) -> BTreeSet<Vec<u8>> {
        self.headers.iter().filter(|(n, _)| n.first() != Some(&b':')).map(|(n, _)| n.to_ascii_lowercase()).collect()
    }
    pub fn trailer_names(&self) -> BTreeSet<Vec<u8>> {
        self.trailers.iter().flatten().map(|(n, _)| n.to_ascii_lowercase()).collect()
    }
    /// the host the request names: :authority, or the Host field when there is no :authority
    pub fn expected_hosts(&self) -> Vec<Vec<u8>> {
        let a = self.pseudo(":authority");
        if !a.is_empty() {
            return a.into_iter().map(|v| v.to_vec()).collect();
        }
        self.headers.iter().filter(|(n, _)| n.eq_ignore_ascii_case(b"host")).map(|(_, v)| v.clone()).collect()
    }
}

pub fn path_marker(nonce: u32, k: usize) -> String {
    format!("/n{nonce:08x}/k{k}")
}
pub fn field_marker(nonce: u32, k: usize) -> String {
    format!("n{nonce:08x}k{k}")
}

fn subst(v: &[u8], own: &str, other: &str) -> Vec<u8> {
    let s: Vec<u8> = v.to_vec();
    let rep = |s: Vec<u8>, from: &[u8], to: &[u8]| -> Vec<u8> {
        let mut out = vec![];
        let mut i = 0;
        while i < s.len() {
            if s[i..].starts_with(from) {
                out.extend_from_slice(to);
                i += from.len();
            } else {
                out.push(s[i]);
                i += 1;
            }
        }
        out
    };
    rep(rep(s, b"OWN", own.as_bytes()), b"OTHER", other.as_bytes())
}

fn embedded(own: &str, k: usize) -> Vec<u8> {
    format!("GET /smuggled{k} HTTP/1.1\r\nHost: {own}\r\nContent-Length: 0\r\n\r\n").into_bytes()
}

fn cut(content: &[u8], sizes: &[u16]) -> Vec<Vec<u8>> {
    let mut out = vec![];
    let mut pos = 0;
    for s in sizes {
        let n = (*s as usize).min(content.len() - pos);
        out.push(content[pos..pos + n].to_vec());
        pos += n;
    }
    if pos < content.len() {
        out.push(content[pos..].to_vec());
    }
    out
}

fn bodied(method: &str) -> bool {
    matches!(method, "POST" | "PUT")
}

thread_local! {
    /// the three shapes below are repaired in sozu (84a07a5): they are generated like any other unless
    /// VP_C03H2_EXCLUSIONS is set (exploring an older tree)
    static EXCLUSIONS: std::cell::Cell<bool> = std::cell::Cell::new(std::env::var("VP_C03H2_EXCLUSIONS").is_ok());
}

/// Findings repaired in sozu (reproducers kept as regressions/C03/h2smuggle-fixed-*.json; with VP_C03H2_EXCLUSIONS set
/// generated cases leave the shapes out and count them in `excluded_known`):
/// * `C03/h2-duplicate-framing-field-forwarded` — two content-length fields with the same value are both written to the
///   HTTP/1.1 backend (RFC 9112 6.3: the value MUST be replaced by the single value before forwarding; a strict
///   backend answers 400 / never answers);
/// * `C03/h2-backend-stream-not-rfc9112:request-line` — a :path holding a space is written into the request line as it
///   came (`GET /a b HTTP/1.1`);
/// * `C03/h2-backend-stream-not-rfc9112:request-target` — a :path holding bytes above 0x7f is written into the request
///   line as it came (the HTTP/1.1 frontend refuses the same bytes).
pub fn known_shape(mu: &Mut, w: &Wire) -> Option<&'static str> {
    if !EXCLUSIONS.with(|k| k.get()) {
        return None;
    }
    match mu {
        Mut::ClDup { delta } => {
            let n = w.body_len() as i64;
            let second = (n + *delta as i64).max(0).to_string().into_bytes();
            let first = w.headers.iter().find(|(k, _)| k == b"content-length").map(|(_, v)| v.clone()).unwrap_or_else(|| n.to_string().into_bytes());
            // the same number, whatever the spelling (`000` and `0`)
            let num = |v: &[u8]| -> Option<u128> { (!v.is_empty() && v.len() < 30 && v.iter().all(|c| c.is_ascii_digit())).then(|| String::from_utf8_lossy(v).parse::<u128>().ok()).flatten() };
            (num(&first).is_some() && num(&first) == num(&second)).then_some("duplicate-content-length-forwarded")
        }
        Mut::Path { which } if which % PATH_FORMS == 2 => Some("space-in-path-forwarded"),
        Mut::Path { which } if which % PATH_FORMS == 12 => Some("obs-text-in-path-forwarded"),
        _ => None,
    }
}

pub fn mut_label(mu: &Mut) -> &'static str {
    match mu {
        Mut::ClMismatch { delta, .. } if *delta > 0 => "mut:cl_larger_than_data",
        Mut::ClMismatch { .. } => "mut:cl_smaller_than_data",
        Mut::ClDup { .. } => "mut:cl_duplicate",
        Mut::ClForm { .. } => "mut:cl_form",
        Mut::Te { .. } => "mut:transfer_encoding",
        Mut::ConnSpecific { .. } => "mut:connection_specific",
        Mut::NameBytes { .. } => "mut:name_bytes",
        Mut::ValueBytes { .. } => "mut:value_bytes",
        Mut::Pseudo { .. } => "mut:pseudo_header",
        Mut::Path { .. } => "mut:path",
        Mut::Method { .. } => "mut:method",
        Mut::Authority { .. } => "mut:authority_host",
        Mut::Scheme { .. } => "mut:scheme",
        Mut::BodyOnBodiless { .. } => "mut:body_on_bodiless_method",
        Mut::HeadCl => "mut:head_with_content_length",
        Mut::Connect { .. } => "mut:connect",
        Mut::Cl0Data => "mut:cl_0_with_data",
        Mut::TrailerField { .. } => "mut:trailer_field",
        Mut::Frames { .. } => "mut:frame_sequence",
    }
}

fn default_trailers() -> Vec<Field> {
    vec![f("x-t1", "v1")]
}

fn ensure_trailers(w: &mut Wire) {
    if w.trailers.is_none() {
        w.trailers = Some(default_trailers());
    }
    if w.end != End::Never {
        w.end = End::OnTrailers;
    }
}

fn ensure_body(w: &mut Wire, seed: u64, len: usize) {
    if w.body_len() == 0 {
        w.data = vec![lab::h1::content(seed, len)];
    }
    if w.end == End::OnHeaders {
        w.end = End::OnData;
    }
}

fn apply(w: &mut Wire, case: &Case, k: usize, mu: &Mut) {
    let own = HOSTS[case.host as usize % 2];
    let other = HOSTS[(case.host as usize + 1) % 2];
    let marker = path_marker(case.nonce, k);
    let seed = case.nonce as u64 ^ ((k as u64) << 40) ^ 0xC03;
    match mu {
        Mut::ClMismatch { delta, end } => {
            let delta = if *delta == 0 { 1 } else { *delta as i64 };
            if delta < 0 {
                ensure_body(w, seed, 8);
            }
            let n = w.body_len() as i64;
            let mut cl = (n + delta).max(0);
            match end % 4 {
                0 => {
                    if w.data.is_empty() {
                        w.data.push(vec![]);
                    }
                    if w.end != End::Never {
                        w.end = End::OnData;
                    }
                    w.trailers = None;
                }
                1 => {
                    if w.end != End::Never {
                        w.end = End::OnEmptyData;
                    }
                    w.trailers = None;
                }
                2 => ensure_trailers(w),
                _ => {
                    // END_STREAM on HEADERS: no DATA at all, any content-length above 0 disagrees
                    w.end = End::OnHeaders;
                    w.trailers = None;
                    if cl == 0 {
                        cl = n.max(1);
                    }
                }
            }
            w.set("content-length", cl.to_string().as_bytes());
        }
        Mut::ClDup { delta } => {
            let n = w.body_len() as i64;
            if w.pos("content-length").is_none() {
                w.set("content-length", n.to_string().as_bytes());
            }
            w.headers.push(f("content-length", &(n + *delta as i64).max(0).to_string()));
        }
        Mut::ClForm { form } => {
            let n = w.body_len();
            w.set("content-length", &c03::cl_form(form % c03::CL_FORMS, n));
        }
        Mut::Te { form, keep_cl, upper, chunked_body } => {
            if *chunked_body {
                let mut b = if form % 2 == 0 { b"0\r\n\r\n".to_vec() } else { b"5\r\nhello\r\n0\r\n\r\n".to_vec() };
                b.extend(format!("GET /smuggled{k} HTTP/1.1\r\nhost: {own}\r\ncontent-length: 0\r\n\r\n").into_bytes());
                w.data = vec![b];
                if w.end == End::OnHeaders {
                    w.end = End::OnData;
                }
            }
            if *keep_cl {
                let n = w.body_len();
                w.set("content-length", n.to_string().as_bytes());
            } else {
                w.remove("content-length");
            }
            let name = if *upper { "Transfer-Encoding" } else { "transfer-encoding" };
            w.headers.push((name.as_bytes().to_vec(), TE_FORMS[*form as usize % TE_FORMS.len()].to_vec()));
        }
        Mut::ConnSpecific { which } => {
            let (n, v) = CONN_FIELDS[*which as usize % CONN_FIELDS.len()];
            w.headers.push(f(n, v));
        }
        Mut::NameBytes { which, trailer } => {
            let name = subst(NAME_FORMS[*which as usize % NAME_FORMS.len()], own, other);
            if *trailer {
                ensure_trailers(w);
                w.trailers.as_mut().unwrap().push((name, b"1".to_vec()));
            } else {
                w.headers.push((name, b"1".to_vec()));
            }
        }
        Mut::ValueBytes { which, trailer } => {
            let v = subst(VALUE_FORMS[*which as usize % VALUE_FORMS.len()], own, other);
            if *trailer {
                ensure_trailers(w);
                w.trailers.as_mut().unwrap().push((b"x-inj".to_vec(), v));
            } else {
                w.headers.push((b"x-inj".to_vec(), v));
            }
        }
        Mut::Pseudo { which } => match which % PSEUDO_FORMS {
            0 => w.remove(":method"),
            1 => w.remove(":path"),
            2 => w.remove(":scheme"),
            3 => w.remove(":authority"),
            4 => {
                let i = w.pos(":path").unwrap_or(0);
                let dup = w.headers.get(i).cloned().unwrap_or_else(|| f(":path", &marker));
                w.headers.insert(i, dup);
            }
            5 => {
                let i = w.pos(":path").map(|i| i + 1).unwrap_or(0);
                w.headers.insert(i, f(":path", &format!("{marker}/second")));
            }
            6 => {
                let i = w.pos(":method").map(|i| i + 1).unwrap_or(0);
                w.headers.insert(i, f(":method", "POST"));
            }
            7 => {
                if let Some(i) = w.pos(":path") {
                    let p = w.headers.remove(i);
                    w.headers.push(p);
                }
            }
            8 => {
                let i = w.headers.iter().position(|(n, _)| n.first() != Some(&b':')).unwrap_or(w.headers.len());
                w.headers.insert(i, f(":foo", "bar"));
            }
            9 => w.headers.insert(0, f(":status", "200")),
            10 => w.headers.insert(0, f(":protocol", "websocket")),
            11 => {
                ensure_trailers(w);
                w.trailers.as_mut().unwrap().insert(0, f(":path", &format!("{marker}/trailer")));
            }
            12 => {
                let i = w.pos(":authority").map(|i| i + 1).unwrap_or(0);
                w.headers.insert(i, f(":authority", other));
            }
            13 => {
                let i = w.pos(":scheme").map(|i| i + 1).unwrap_or(0);
                w.headers.insert(i, f(":scheme", "http"));
            }
            14 => {
                if let Some(i) = w.pos(":method") {
                    let p = w.headers.remove(i);
                    let at = w.headers.iter().position(|(n, _)| n.first() != Some(&b':')).map(|i| i + 1).unwrap_or(w.headers.len());
                    w.headers.insert(at, p);
                }
            }
            _ => {
                let (ps, rest): (Vec<Field>, Vec<Field>) = w.headers.drain(..).partition(|(n, _)| n.first() == Some(&b':'));
                w.headers = rest;
                w.headers.extend(ps);
            }
        },
        Mut::Path { which } => {
            let v: Vec<u8> = match which % PATH_FORMS {
                0 => vec![],
                1 => marker[1..].as_bytes().to_vec(),
                2 => format!("{marker} x").into_bytes(),
                3 => format!("{marker}\r\nx-injected: y").into_bytes(),
                4 => format!("{marker} HTTP/1.1\r\nx-injected: y").into_bytes(),
                5 => format!("https://{own}{marker}").into_bytes(),
                6 => b"*".to_vec(),
                7 => format!("{marker}#frag").into_bytes(),
                8 => format!("{marker}\tx").into_bytes(),
                9 => format!("{marker}\0x").into_bytes(),
                10 => format!("{marker}\nx-injected: y").into_bytes(),
                11 => format!("{marker} HTTP/1.1\r\nhost: {own}\r\ncontent-length: 0\r\n\r\nGET /smuggled{k} HTTP/1.1\r\nx-ignore: ").into_bytes(),
                12 => format!("{marker}/caf\u{e9}").into_bytes(),
                13 => format!("{marker}\x7fx").into_bytes(),
                _ => format!("{marker}\rx-injected: y").into_bytes(),
            };
            w.set(":path", &v);
        }
        Mut::Method { which } => {
            let v: &[u8] = match which % METHOD_FORMS {
                0 => b"GET /smuggled",
                1 => b"GET / HTTP/1.1\r\nHost: evil\r\n\r\nGET",
                2 => b"",
                3 => b"get",
                4 => b"GE:T",
                5 => b"GET\t",
                6 => b"G\0T",
                7 => b"FOO",
                8 => b"GET ",
                _ => b"GET\r\n",
            };
            w.set(":method", v);
        }
        Mut::Authority { which } => {
            let after_pseudo = |w: &Wire| w.headers.iter().position(|(n, _)| n.first() != Some(&b':')).unwrap_or(w.headers.len());
            match which % AUTHORITY_FORMS {
                0 => w.set(":authority", format!("{own} evil").as_bytes()),
                1 => w.set(":authority", format!("{own}\r\nx-injected: 1").as_bytes()),
                2 => w.set(":authority", format!("evil@{own}").as_bytes()),
                3 => {
                    w.set(":authority", other.as_bytes());
                    let at = after_pseudo(w);
                    w.headers.insert(at, f("host", own));
                }
                4 => {
                    w.remove(":authority");
                    let at = after_pseudo(w);
                    w.headers.insert(at, f("host", own));
                }
                5 => {
                    let at = after_pseudo(w);
                    w.headers.insert(at, f("host", own));
                }
                6 => {
                    let at = after_pseudo(w);
                    w.headers.insert(at, f("host", other));
                }
                7 => {
                    let at = after_pseudo(w);
                    w.headers.insert(at, f("host", own));
                    w.headers.push(f("host", own));
                }
                8 => w.set(":authority", format!("{own}:443").as_bytes()),
                9 => w.set(":authority", own.to_ascii_uppercase().as_bytes()),
                10 => {
                    w.set(":authority", b"");
                    let at = after_pseudo(w);
                    w.headers.insert(at, f("host", own));
                }
                11 => w.set(":authority", b"evil.lab"),
                12 => w.set(":authority", format!("{own}:evil").as_bytes()),
                13 => w.set(":authority", format!("{own}/x").as_bytes()),
                14 => w.set(":authority", format!("{own}\tx").as_bytes()),
                15 => {
                    let at = after_pseudo(w);
                    w.headers.insert(at, (b"host".to_vec(), format!("{own}\r\nx-injected: 1").into_bytes()));
                }
                16 => {
                    w.remove(":authority");
                    let at = after_pseudo(w);
                    w.headers.insert(at, f("host", other));
                }
                _ => {
                    let at = after_pseudo(w);
                    w.headers.insert(at, f("host", &format!("{own}:443")));
                }
            }
        }
        Mut::Scheme { which } => {
            let v: &[u8] = match which % SCHEME_FORMS {
                0 => b"http",
                1 => b"ftp",
                2 => b"HTTP",
                3 => b"",
                4 => b"https://evil",
                5 => b"https\r\nx-injected: y",
                6 => b"https ",
                _ => b"javascript",
            };
            w.set(":scheme", v);
        }
        Mut::BodyOnBodiless { cl } => {
            let m = w.pseudo(":method").first().map(|m| m.to_vec()).unwrap_or_default();
            if bodied(&String::from_utf8_lossy(&m)) {
                w.set(":method", b"GET");
            }
            ensure_body(w, seed, 16);
            if *cl {
                let n = w.body_len();
                w.set("content-length", n.to_string().as_bytes());
            } else {
                w.remove("content-length");
            }
        }
        Mut::HeadCl => {
            w.set(":method", b"HEAD");
            w.set("content-length", b"7");
            w.end = End::OnHeaders;
            w.trailers = None;
        }
        Mut::Connect { which } => match which % CONNECT_FORMS {
            0 => w.set(":method", b"CONNECT"),
            1 => {
                w.set(":method", b"CONNECT");
                w.remove(":scheme");
                w.remove(":path");
                w.set(":authority", format!("{own}:443").as_bytes());
            }
            _ => {
                w.set(":method", b"CONNECT");
                w.headers.insert(0, f(":protocol", "websocket"));
            }
        },
        Mut::Cl0Data => {
            ensure_body(w, seed, 12);
            w.set("content-length", b"0");
        }
        Mut::TrailerField { which } => {
            ensure_trailers(w);
            let n = w.body_len();
            let t = match which % TRAILER_FORMS {
                0 => f("content-length", &n.to_string()),
                1 => f("content-length", &(n + 5).to_string()),
                2 => f("transfer-encoding", "chunked"),
                3 => f("host", other),
                4 => f("x-m", &field_marker(case.nonce, (k + 1) % case.streams.len().max(2))),
                5 => f("connection", "close"),
                6 => f("te", "trailers"),
                7 => f(":path", &format!("{marker}/trailer")),
                _ => f("content-length", "0"),
            };
            w.trailers.as_mut().unwrap().push(t);
        }
        Mut::Frames { which } => match which % 3 {
            0 => {
                if w.trailers.is_none() {
                    w.trailers = Some(default_trailers());
                }
                w.end = End::Never;
            }
            1 => w.after.push(Frame::data(w.id, b"extra", false, None)),
            _ => {
                let block = hpack_block(&w.headers);
                w.after.push(Frame::new(h2::HEADERS, h2::F_END_HEADERS | h2::F_END_STREAM, w.id, block));
            }
        },
    }
}

pub fn build_wire(case: &Case, k: usize) -> Wire {
    let s = &case.streams[k];
    let own = HOSTS[case.host as usize % 2];
    let method = METHODS[s.method as usize % METHODS.len()];
    let mut headers = vec![f(":method", method), f(":scheme", "https"), f(":authority", own), f(":path", &format!("{}{}", path_marker(case.nonce, k), s.path)), f("x-m", &field_marker(case.nonce, k))];
    for (n, v) in &s.extra {
        let name = EXTRA[*n as usize % EXTRA.len()];
        let clean: String = v.chars().filter(|c| c.is_ascii_alphanumeric()).collect();
        let value = match name {
            "te" => "trailers".to_string(),
            "cookie" => format!("a={clean}; b=2"),
            "x-forwarded-for" => "10.1.2.3".to_string(),
            _ => {
                if clean.is_empty() {
                    "v".to_string()
                } else {
                    clean
                }
            }
        };
        headers.push(f(name, &value));
    }
    let mut w = Wire { id: (2 * k + 1) as u32, headers, data: vec![], trailers: None, end: End::OnHeaders, after: vec![], pad: s.pad, cont_split: s.cont_split.map(|c| c as usize), labels: vec![], excluded: 0 };
    if bodied(method) {
        let total: usize = s.data.iter().map(|d| *d as usize).sum();
        let content = match s.payload {
            1 => embedded(own, k),
            2 => {
                let mut v = b"0\r\n\r\n".to_vec();
                v.extend(embedded(own, k));
                v
            }
            _ => lab::h1::content(case.nonce as u64 ^ ((k as u64) << 32), total),
        };
        if !s.data.is_empty() {
            w.data = cut(&content, &s.data);
        }
        if s.declare_cl {
            let n = w.body_len();
            w.headers.push(f("content-length", &n.to_string()));
        }
        if s.trailers > 0 {
            w.trailers = Some((0..s.trailers.min(3)).map(|i| f(&format!("x-t{}", i + 1), &format!("tv{i}"))).collect());
        }
        w.end = if w.trailers.is_some() {
            End::OnTrailers
        } else if w.data.is_empty() {
            End::OnHeaders
        } else {
            End::OnData
        };
    }
    // Known finding C03/h2-next-request-lost-after-length-complete-request-ended-by-later-empty-data: a request that
    // declares its length and carries END_STREAM on an empty DATA frame after the length is met (sozu ends the
    // HTTP/1.1 message at the declared length, the backend answers, the stream is recycled while frames of it are
    // still arriving) can cost the next stream its forwarding (answered 504, nothing at the backend). Generated
    // cases drop the empty frames behind the declared length: END_STREAM sits on the frame that completes it.
    if !case.strict && s.declare_cl && w.end == End::OnData {
        let before = w.data.len();
        while w.data.len() > 1 && w.data.last().map(|d| d.is_empty()).unwrap_or(false) {
            w.data.pop();
        }
        if w.data.len() != before {
            w.excluded += 1;
            w.labels.push("known_excluded:empty_data_behind_declared_length");
        }
    }
    for mu in &s.muts {
        if !case.strict && known_shape(mu, &w).is_some() {
            w.excluded += 1;
            continue;
        }
        w.labels.push(mut_label(mu));
        apply(&mut w, case, k, mu);
    }
    // the same known shape reached by a combination (a later mutation rewrote the first content-length): one field is left
    if !case.strict && EXCLUSIONS.with(|k| k.get()) {
        let num = |v: &[u8]| -> Option<u128> { (!v.is_empty() && v.len() < 30 && v.iter().all(|c| c.is_ascii_digit())).then(|| String::from_utf8_lossy(v).parse::<u128>().ok()).flatten() };
        let cls: Vec<Option<u128>> = w.headers.iter().filter(|(n, _)| n == b"content-length").map(|(_, v)| num(v)).collect();
        if cls.len() >= 2 && cls[0].is_some() && cls.iter().all(|c| *c == cls[0]) {
            let mut first = true;
            w.headers.retain(|(n, _)| {
                if n != b"content-length" {
                    return true;
                }
                std::mem::replace(&mut first, false)
            });
            w.excluded += 1;
        }
    }
    w
}

// ------------------------------------------------------------------ frames

fn hpack_int(out: &mut Vec<u8>, first: u8, prefix_bits: u8, mut v: usize) {
    let max = (1usize << prefix_bits) - 1;
    if v < max {
        out.push(first | v as u8);
        return;
    }
    out.push(first | max as u8);
    v -= max;
    while v >= 128 {
        out.push((v % 128) as u8 | 0x80);
        v /= 128;
    }
    out.push(v as u8);
}

/// every field as "literal header field without indexing, new name", no Huffman coding: arbitrary bytes survive
pub fn hpack_block(list: &[Field]) -> Vec<u8> {
    let mut out = vec![];
    for (n, v) in list {
        out.push(0x00);
        hpack_int(&mut out, 0, 7, n.len());
        out.extend_from_slice(n);
        hpack_int(&mut out, 0, 7, v.len());
        out.extend_from_slice(v);
    }
    out
}

fn header_frames(id: u32, block: &[u8], end_stream: bool, split: Option<usize>) -> Vec<u8> {
    let es = if end_stream { h2::F_END_STREAM } else { 0 };
    match split {
        Some(at) if at > 0 && at < block.len() => {
            let mut v = Frame::new(h2::HEADERS, es, id, block[..at].to_vec()).encode();
            v.extend(Frame::new(h2::CONTINUATION, h2::F_END_HEADERS, id, block[at..].to_vec()).encode());
            v
        }
        _ => Frame::new(h2::HEADERS, es | h2::F_END_HEADERS, id, block.to_vec()).encode(),
    }
}

/// the frames of one stream: (bytes, flow-controlled length)
pub fn frames_of(w: &Wire) -> Vec<(Vec<u8>, usize)> {
    let mut out = vec![(header_frames(w.id, &hpack_block(&w.headers), w.end == End::OnHeaders, w.cont_split), 0)];
    if w.end != End::OnHeaders {
        let n = w.data.len();
        for (i, d) in w.data.iter().enumerate() {
            let end = w.end == End::OnData && i + 1 == n;
            let fr = Frame::data(w.id, d, end, w.pad);
            let flow = fr.payload.len();
            out.push((fr.encode(), flow));
        }
        match w.end {
            End::OnData if w.data.is_empty() => out.push((Frame::data(w.id, &[], true, None).encode(), 0)),
            End::OnEmptyData => out.push((Frame::data(w.id, &[], true, None).encode(), 0)),
            End::OnTrailers => out.push((header_frames(w.id, &hpack_block(w.trailers.as_deref().unwrap_or(&[])), true, None), 0)),
            End::Never => {
                if let Some(t) = &w.trailers {
                    out.push((header_frames(w.id, &hpack_block(t), false, None), 0));
                }
            }
            _ => {}
        }
    }
    for fr in &w.after {
        let flow = if fr.typ == h2::DATA { fr.payload.len() } else { 0 };
        out.push((fr.encode(), flow));
    }
    out
}

// ------------------------------------------------------------------ strategies

fn data_frames() -> impl Strategy<Value = Vec<u16>> {
    prop::collection::vec(prop_oneof![2 => Just(0u16), 5 => 1u16..200, 2 => 200u16..4000, 1 => 4000u16..16000], 0..5).prop_map(|mut v| {
        let mut tot = 0usize;
        for x in v.iter_mut() {
            if tot + *x as usize > 20_000 {
                *x = (20_000 - tot) as u16;
            }
            tot += *x as usize;
        }
        v
    })
}

fn mutation() -> impl Strategy<Value = Mut> {
    prop_oneof![
        6 => (prop_oneof![Just(1i16), Just(-1), Just(5), Just(-5), 1i16..2000, -2000i16..-1], 0u8..4).prop_map(|(delta, end)| Mut::ClMismatch { delta, end }),
        2 => prop_oneof![Just(0i8), Just(1), Just(-1), -20i8..20].prop_map(|delta| Mut::ClDup { delta }),
        3 => (0u8..c03::CL_FORMS).prop_map(|form| Mut::ClForm { form }),
        4 => (0u8..TE_FORMS.len() as u8, any::<bool>(), prop::bool::weighted(0.2), any::<bool>()).prop_map(|(form, keep_cl, upper, chunked_body)| Mut::Te { form, keep_cl, upper, chunked_body }),
        2 => (0u8..CONN_FIELDS.len() as u8).prop_map(|which| Mut::ConnSpecific { which }),
        3 => (0u8..NAME_FORMS.len() as u8, prop::bool::weighted(0.25)).prop_map(|(which, trailer)| Mut::NameBytes { which, trailer }),
        4 => (0u8..VALUE_FORMS.len() as u8, prop::bool::weighted(0.25)).prop_map(|(which, trailer)| Mut::ValueBytes { which, trailer }),
        3 => (0u8..PSEUDO_FORMS).prop_map(|which| Mut::Pseudo { which }),
        3 => (0u8..PATH_FORMS).prop_map(|which| Mut::Path { which }),
        2 => (0u8..METHOD_FORMS).prop_map(|which| Mut::Method { which }),
        3 => (0u8..AUTHORITY_FORMS).prop_map(|which| Mut::Authority { which }),
        1 => (0u8..SCHEME_FORMS).prop_map(|which| Mut::Scheme { which }),
        2 => any::<bool>().prop_map(|cl| Mut::BodyOnBodiless { cl }),
        1 => Just(Mut::HeadCl),
        1 => (0u8..CONNECT_FORMS).prop_map(|which| Mut::Connect { which }),
        1 => Just(Mut::Cl0Data),
        2 => (0u8..TRAILER_FORMS).prop_map(|which| Mut::TrailerField { which }),
        1 => (0u8..3).prop_map(|which| Mut::Frames { which }),
    ]
}

fn stream_spec() -> impl Strategy<Value = StreamSpec> {
    (
        prop_oneof![3 => Just(0u8), 5 => Just(1u8), 3 => Just(2u8), 1 => Just(3u8), 1 => Just(4u8), 1 => Just(5u8)],
        "(/[a-z0-9]{1,6})?(\\?[a-z]=[0-9]{1,3})?",
        prop::collection::vec((0u8..EXTRA.len() as u8, "[a-z0-9]{1,12}"), 0..4),
        data_frames(),
        any::<bool>(),
        prop_oneof![3 => Just(0u8), 1 => 1u8..4],
        prop_oneof![6 => Just(0u8), 1 => Just(1u8), 1 => Just(2u8)],
        proptest::option::weighted(0.15, 0u8..100),
        proptest::option::weighted(0.15, 1u16..120),
        prop_oneof![7 => Just(vec![]), 10 => prop::collection::vec(mutation(), 1..2), 3 => prop::collection::vec(mutation(), 2..3)],
    )
        .prop_map(|(method, path, mut extra, data, declare_cl, trailers, payload, pad, cont_split, muts)| {
            let mut seen = vec![];
            extra.retain(|(n, _)| {
                let keep = !seen.contains(n);
                seen.push(*n);
                keep
            });
            StreamSpec { method, path, extra, data, declare_cl, trailers, payload, pad, cont_split, muts }
        })
}

pub fn strategy() -> impl Strategy<Value = Case> {
    (
        any::<u32>(),
        0u8..2,
        prop::bool::weighted(0.35),
        prop_oneof![3 => Just(vec![]), 2 => prop::collection::vec(prop_oneof![Just(1u16), Just(9), 1u16..60, 60u16..2000, 2000u16..20000], 1..6)],
        prop_oneof![2 => Just(0u8), 1 => 1u8..6],
        prop_oneof![1 => Just(0u8), 1 => Just(20u8)],
        prop::collection::vec(stream_spec(), 1..5),
    )
        .prop_map(|(nonce, host, all_at_once, seg, seg_pause_ms, probe_ms, streams)| Case { nonce, host, all_at_once: all_at_once && streams.len() > 1, seg, seg_pause_ms, probe_ms, streams, strict: false })
}

// ------------------------------------------------------------------ lab

pub struct Lab {
    pub worker: LabWorker,
    pub https: SocketAddr,
    backends: Vec<Acceptor>,
    rec: Arc<Mutex<c03::Rec>>,
    stop: Arc<AtomicBool>,
}

impl Lab {
    pub fn new() -> Lab {
        let mut worker = LabWorker::start("c03h2", LabConfig { back_timeout: 2, ..LabConfig::default() }, Listeners::default(), &ConfigState::new());
        let https = lab::free_addr();
        {
            let mut b = ListenerBuilder::new_https(https.into());
            b.with_front_timeout(Some(worker.lab.front_timeout)).with_back_timeout(Some(worker.lab.back_timeout)).with_connect_timeout(Some(worker.lab.connect_timeout)).with_request_timeout(Some(worker.lab.request_timeout));
            let mut l = b.to_tls(None).expect("https listener config");
            l.certificate = Some(certs::LAB_CERT.to_string());
            l.key = Some(certs::LAB_KEY.to_string());
            l.alpn_protocols = vec!["h2".into(), "http/1.1".into()];
            worker.must(RequestType::AddHttpsListener(l));
            worker.must(RequestType::AddCertificate(AddCertificate {
                address: https.into(),
                certificate: CertificateAndKey { certificate: certs::LAB_CERT.to_string(), certificate_chain: vec![], key: certs::LAB_KEY.to_string(), versions: vec![], names: vec![] },
                expired_at: None,
            }));
            worker.must(RequestType::ActivateListener(ActivateListener { address: https.into(), proxy: ListenerType::Https.into(), from_scm: false }));
        }
        let rec = Arc::new(Mutex::new(c03::Rec::default()));
        let stop = Arc::new(AtomicBool::new(false));
        let mut backends = vec![];
        for (cluster, host) in HOSTS.iter().enumerate() {
            let id = format!("c{cluster}");
            worker.add_cluster(&id, |_| {});
            worker.must(RequestType::AddHttpsFrontend(RequestHttpFrontend {
                cluster_id: Some(id.clone()),
                address: https.into(),
                hostname: host.to_string(),
                path: PathRule::prefix("/".to_string()),
                position: RulePosition::Tree.into(),
                ..Default::default()
            }));
        }
        for (b, cluster) in CLUSTER_OF.iter().enumerate() {
            let (addr, listener) = lab::bound_listener();
            worker.add_backend(&format!("c{cluster}"), &format!("c{cluster}-{b}"), addr);
            let (r2, s2) = (rec.clone(), stop.clone());
            backends.push(Acceptor::spawn(listener, move |conn, stream: TcpStream| c03::serve(b, conn, stream, r2.clone(), s2.clone())));
        }
        Lab { worker, https, backends, rec, stop }
    }
}

impl Drop for Lab {
    fn drop(&mut self) {
        self.stop.store(true, Ordering::SeqCst);
        for b in self.backends.iter_mut() {
            b.stop();
        }
    }
}

// ------------------------------------------------------------------ the client

type Tls = rustls::StreamOwned<rustls::ClientConnection, TcpStream>;

#[derive(Clone, Debug, Default)]
pub struct StreamObs {
    pub sent: bool,
    /// every frame of the stream was written
    pub sent_all: bool,
    pub status: Option<u16>,
    /// `x-c03` of the response: backend-connection-index of the answer
    pub x_c03: Option<String>,
    pub complete: bool,
    pub reset: Option<u32>,
    pub cancelled_by_client: bool,
    /// the connection was gone (GOAWAY / closed) when the wait for this stream ended
    pub conn_dead: bool,
    /// a GOAWAY (any code, any last stream id) had arrived when the wait for this stream ended
    pub goaway_seen: bool,
}

pub struct Observed {
    pub streams: Vec<StreamObs>,
    pub goaway: Option<(u32, u32)>,
    pub eof: bool,
    pub at_backend: BTreeMap<(usize, usize), Vec<u8>>,
    pub dirty: bool,
    pub undecodable: Option<String>,
}

fn connect(addr: SocketAddr, sni: &str) -> Result<H2Conn<Tls>, String> {
    let (tls, _info) = h2::tls_connect(addr, sni, &["h2"]).map_err(|e| format!("TLS connect: {e}"))?;
    if tls.conn.alpn_protocol() != Some(b"h2") {
        return Err(format!("ALPN negotiated {:?}, wanted h2", tls.conn.alpn_protocol().map(String::from_utf8_lossy)));
    }
    let mut c = H2Conn::new(tls, false, Settings::default());
    c.start().map_err(|e| format!("send preface: {e}"))?;
    let deadline = Instant::now() + Duration::from_secs(5);
    loop {
        match c.next_frame(deadline) {
            H2Event::Frame(f) => {
                if f.typ == h2::SETTINGS && f.flags & h2::F_ACK == 0 {
                    break;
                }
            }
            H2Event::Timeout => {
                if Instant::now() >= deadline {
                    return Err("sozu sent no SETTINGS".into());
                }
            }
            other => return Err(format!("connection ended during the SETTINGS exchange: {other:?}")),
        }
    }
    c.auto_window_update = true;
    c.replenish(0);
    // short waits (a refusal after HEADERS, the quiet moment at the end) must not cost a 50 ms read each
    let _ = c.s.sock.set_read_timeout(Some(Duration::from_millis(2)));
    Ok(c)
}

fn finished(c: &H2Conn<Tls>, id: u32) -> bool {
    c.streams.get(&id).map(|s| (s.end_stream && s.headers_done) || s.reset.is_some()).unwrap_or(false)
}

fn dead(c: &H2Conn<Tls>, id: u32) -> bool {
    c.eof || c.goaway.map(|(last, code)| code != h2::NO_ERROR || last < id).unwrap_or(false)
}

fn pump(c: &mut H2Conn<Tls>, ids: &[u32], deadline: Instant) {
    loop {
        if ids.iter().all(|id| finished(c, *id) || dead(c, *id)) {
            return;
        }
        match c.next_frame(Instant::now() + Duration::from_millis(10)) {
            H2Event::Frame(_) => {}
            H2Event::Timeout => {
                if Instant::now() >= deadline {
                    return;
                }
            }
            H2Event::Eof | H2Event::Reset => return,
        }
    }
}

struct Writer<'a> {
    seg: &'a [u16],
    pause_ms: u8,
    pieces: usize,
}

impl Writer<'_> {
    fn write(&mut self, c: &mut H2Conn<Tls>, bytes: &[u8]) -> bool {
        if self.seg.is_empty() {
            return c.write_raw(bytes).is_ok();
        }
        let mut pos = 0;
        while pos < bytes.len() {
            let n = (self.seg[self.pieces % self.seg.len()] as usize).max(1).min(bytes.len() - pos);
            if c.write_raw(&bytes[pos..pos + n]).is_err() {
                return false;
            }
            pos += n;
            self.pieces += 1;
            if self.pause_ms > 0 && self.pieces <= 8 {
                std::thread::sleep(Duration::from_millis(self.pause_ms as u64));
            }
        }
        true
    }
}

/// write the frames of one stream, waiting for flow-control credit where DATA needs it; false: not everything was written
fn send_stream(c: &mut H2Conn<Tls>, w: &Wire, wr: &mut Writer, probe_ms: u8) -> bool {
    let mut buf: Vec<u8> = vec![];
    let frames = frames_of(w);
    let n_frames = frames.len();
    for (i, (bytes, flow)) in frames.into_iter().enumerate() {
        if i == 1 && probe_ms > 0 && n_frames > 1 {
            if !wr.write(c, &buf) {
                return false;
            }
            buf.clear();
            let deadline = Instant::now() + Duration::from_millis(probe_ms as u64);
            while Instant::now() < deadline && !finished(c, w.id) && !dead(c, w.id) {
                let _ = c.next_frame(Instant::now() + Duration::from_millis(2));
            }
            if finished(c, w.id) || dead(c, w.id) {
                return false;
            }
        }
        if flow > 0 {
            let deadline = Instant::now() + Duration::from_secs(3);
            loop {
                let sw = *c.send_stream_window.entry(w.id).or_insert(c.theirs.initial_window_size as i64);
                if sw.min(c.send_conn_window) >= flow as i64 {
                    break;
                }
                if !buf.is_empty() {
                    if !wr.write(c, &buf) {
                        return false;
                    }
                    buf.clear();
                }
                if finished(c, w.id) || dead(c, w.id) || Instant::now() >= deadline {
                    return false;
                }
                let _ = c.next_frame(Instant::now() + Duration::from_millis(10));
            }
            c.send_conn_window -= flow as i64;
            *c.send_stream_window.get_mut(&w.id).unwrap() -= flow as i64;
        }
        buf.extend(bytes);
    }
    wr.write(c, &buf)
}

fn collect(c: &H2Conn<Tls>, id: u32, o: &mut StreamObs) {
    if let Some(st) = c.streams.get(&id) {
        o.reset = st.reset;
        if st.headers_done {
            o.status = h2::hdr(&st.headers, ":status").and_then(|s| s.parse().ok());
            o.x_c03 = h2::hdr(&st.headers, "x-c03");
            o.complete = st.end_stream;
        }
    }
    o.conn_dead = dead(c, id);
    o.goaway_seen = c.goaway.is_some();
}

const STREAM_WAIT: Duration = Duration::from_millis(3500);

/// one scenario on the wire; Err: the harness could not connect
pub fn drive(lab: &mut Lab, case: &Case, wires: &[Wire]) -> Result<Observed, String> {
    {
        let mut g = lab.rec.lock().unwrap();
        g.raw.clear();
        g.total = 0;
    }
    let host = HOSTS[case.host as usize % 2];
    let mut c = connect(lab.https, host)?;
    let mut wr = Writer { seg: &case.seg, pause_ms: case.seg_pause_ms, pieces: 0 };
    let mut obs: Vec<StreamObs> = vec![StreamObs::default(); wires.len()];
    let mut pending: Vec<usize> = vec![];
    for (k, w) in wires.iter().enumerate() {
        if c.eof || c.goaway.is_some() {
            obs[k].conn_dead = true;
            continue;
        }
        obs[k].sent = true;
        obs[k].sent_all = send_stream(&mut c, w, &mut wr, case.probe_ms);
        pending.push(k);
        if !case.all_at_once || k + 1 == wires.len() {
            let ids: Vec<u32> = pending.iter().map(|k| wires[*k].id).collect();
            let never = pending.iter().all(|k| wires[*k].end == End::Never);
            pump(&mut c, &ids, Instant::now() + if never { Duration::from_millis(400) } else { STREAM_WAIT });
            for j in pending.drain(..) {
                let id = wires[j].id;
                if !finished(&c, id) && !dead(&c, id) && (wires[j].end == End::Never || !obs[j].sent_all) {
                    // the client gives up on a stream it never ended
                    let _ = c.send(&Frame::rst(id, h2::CANCEL));
                    obs[j].cancelled_by_client = true;
                }
                collect(&c, id, &mut obs[j]);
            }
        }
    }
    // late frames (a reset that follows an answer)
    let _ = c.next_frame(Instant::now() + Duration::from_millis(5));
    for (k, w) in wires.iter().enumerate() {
        if obs[k].sent {
            let dead_before = obs[k].conn_dead;
            collect(&c, w.id, &mut obs[k]);
            obs[k].conn_dead |= dead_before;
        }
    }
    let undecodable = c.violations.iter().find(|v| v.what.contains("HPACK")).map(|v| v.what.clone());
    let (goaway, eof) = (c.goaway, c.eof);
    let _ = c.send(&Frame::goaway(0, h2::NO_ERROR));
    c.s.conn.send_close_notify();
    let _ = c.s.conn.complete_io(&mut c.s.sock);
    let _ = c.s.sock.shutdown(std::net::Shutdown::Both);
    drop(c);
    // sozu closes its backend connections with the session
    let end = Instant::now() + Duration::from_millis(900);
    let mut dirty = true;
    let mut calm_since: Option<(Instant, usize)> = None;
    while Instant::now() < end {
        let accepted: usize = lab.backends.iter().map(|b| b.accepted.load(Ordering::SeqCst)).sum();
        let open = lab.rec.lock().unwrap().open;
        match (open, calm_since) {
            (0, Some((t, a))) if a == accepted => {
                if t.elapsed() >= Duration::from_millis(25) {
                    dirty = false;
                    break;
                }
            }
            (0, _) => calm_since = Some((Instant::now(), accepted)),
            _ => calm_since = None,
        }
        std::thread::sleep(Duration::from_millis(2));
    }
    let at_backend = lab.rec.lock().unwrap().raw.clone();
    Ok(Observed { streams: obs, goaway, eof, at_backend, dirty, undecodable })
}

// ------------------------------------------------------------------ oracle

/// names sozu writes or rewrites itself on the HTTP/1.1 side
const MANAGED: &[&str] = &["host", "content-length", "transfer-encoding", "connection", "x-forwarded-for", "x-forwarded-proto", "x-forwarded-port", "forwarded", "x-request-id", "sozu-id", "cookie"];

#[derive(Clone, Debug, PartialEq)]
pub enum Fate {
    NotSent,
    /// RST_STREAM, GOAWAY / connection closed before an answer, a 4xx written by sozu, or cancelled by the client
    Refused(String),
    /// a complete response: status, the `x-c03` of a backend's answer
    Answered(u16, Option<(usize, usize, usize)>),
    NoAnswer,
}

fn parse_x_c03(v: &str) -> Option<(usize, usize, usize)> {
    let mut it = v.trim().split('-').map(|p| p.parse::<usize>().ok());
    Some((it.next()??, it.next()??, it.next()??))
}

pub fn fate(o: &StreamObs) -> Fate {
    if !o.sent {
        return Fate::NotSent;
    }
    if let Some(code) = o.reset {
        return Fate::Refused(format!("RST_STREAM code {code}"));
    }
    if o.complete {
        let status = o.status.unwrap_or(0);
        let from = o.x_c03.as_deref().and_then(parse_x_c03);
        if from.is_none() && (400..500).contains(&status) {
            return Fate::Refused(format!("{status} written by sozu"));
        }
        return Fate::Answered(status, from);
    }
    if o.cancelled_by_client {
        return Fate::Refused("cancelled by the client".into());
    }
    if o.conn_dead {
        return Fate::Refused("GOAWAY / connection closed".into());
    }
    if o.goaway_seen {
        // sozu is shutting the connection down (GOAWAY NO_ERROR after one of its own answers): a stream it drops in that
        // state gets no RST_STREAM any more
        return Fate::Refused("GOAWAY received, the stream was never answered".into());
    }
    Fate::NoAnswer
}

/// stream indices whose marker a message carries (x-m fields and the request target)
fn markers_of(q: &Req, nonce: u32) -> BTreeSet<usize> {
    let mut set = BTreeSet::new();
    let tag = format!("n{nonce:08x}");
    for v in q.header_values("x-m") {
        let v = String::from_utf8_lossy(v).to_string();
        if let Some(rest) = v.strip_prefix(&format!("{tag}k")) {
            if let Ok(k) = rest.parse::<usize>() {
                set.insert(k);
            }
        }
    }
    let needle = format!("{tag}/k");
    let mut from = 0;
    while let Some(p) = q.target[from..].find(&needle) {
        let at = from + p + needle.len();
        let digits: String = q.target[at..].chars().take_while(|c| c.is_ascii_digit()).collect();
        if let Ok(k) = digits.parse::<usize>() {
            set.insert(k);
        }
        from = at;
    }
    set
}

/// a connection whose first bytes carry the marker of another scenario (sozu opened it late for a session that had gone)
fn stale(o: &[u8], nonce: u32) -> bool {
    let head = &o[..o.len().min(200)];
    let own = format!("/n{nonce:08x}/k");
    if c03::find_sub(head, own.as_bytes()) {
        return false;
    }
    head.windows(12).any(|w| w[0] == b'/' && w[1] == b'n' && w[2..10].iter().all(|c| c.is_ascii_hexdigit()) && w[10] == b'/' && w[11] == b'k')
}

fn show_list(l: &[Field]) -> String {
    let v: Vec<String> = l.iter().map(|(n, v)| format!("{}: {}", n.escape_ascii(), v.escape_ascii())).collect();
    engine::truncate(&format!("[{}]", v.join(" | ")), 700)
}

fn describe_wire(w: &Wire) -> String {
    format!(
        "stream {} headers {} DATA {:?} ({:?}{}) trailers {} mutations {:?}",
        w.id,
        show_list(&w.headers),
        w.data.iter().map(|d| d.len()).collect::<Vec<_>>(),
        w.end,
        if w.after.is_empty() { String::new() } else { format!(", then {} more frame(s)", w.after.len()) },
        w.trailers.as_ref().map(|t| show_list(t)).unwrap_or_else(|| "none".into()),
        w.labels
    )
}

struct Judge<'a> {
    case: &'a Case,
    wires: &'a [Wire],
    fates: Vec<Fate>,
    seen: Vec<usize>,
    /// (backend, conn) -> marker of each message the strict reader finds
    order: BTreeMap<(usize, usize), Vec<Option<usize>>>,
    judged: u64,
    partial_forward: bool,
    truncated_to_declared: bool,
}

impl Judge<'_> {
    fn lenient(&self, k: usize) -> bool {
        // a stream the client never ended is an unfinished request whatever answer a timeout later produces: what
        // the backend holds of it is a prefix of a message still under way, not a framing disagreement
        matches!(self.fates[k], Fate::Refused(_) | Fate::NotSent) || self.wires[k].end == End::Never
    }

    /// one message a reader found on a backend connection
    fn message(&mut self, b: usize, conn: usize, q: &Req, count: bool, ctx: &dyn Fn() -> String) -> Result<Option<usize>, Failure> {
        let nonce = self.case.nonce;
        let ids = q.header_values("sozu-id").len();
        let marks = markers_of(q, nonce);
        let marks: Vec<usize> = marks.into_iter().collect();
        if marks.is_empty() || marks.iter().any(|k| *k >= self.wires.len()) {
            fail!("C03/h2-unmarked-request-at-backend", "backend {b} connection {conn}: the request {} {} carries no client stream's marker: no client stream sent it as a request (Sozu-Id fields: {ids}). {}", q.method, q.target, ctx());
        }
        if marks.len() > 1 {
            fail!("C03/h2-message-mixes-streams", "backend {b} connection {conn}: the request {} {} carries the markers of streams {marks:?}. {}", q.method, q.target, ctx());
        }
        let k = marks[0];
        let w = &self.wires[k];
        let here = || format!("backend {b} connection {conn}: request {} {} (client {}; fate: {:?})", q.method, q.target, describe_wire(w), self.fates[k]);
        if ids != 1 {
            fail!("C03/h2-request-not-emitted-by-sozu", "{}: it carries {ids} Sozu-Id fields, sozu did not write it as one request head. {}", here(), ctx());
        }
        if count {
            self.seen[k] += 1;
            if self.seen[k] > 1 {
                fail!("C03/h2-stream-forwarded-twice", "{}: this stream's request reached the backends {} times. {}", here(), self.seen[k], ctx());
            }
        }
        if self.fates[k] == Fate::NotSent {
            fail!("C03/h2-unsent-stream-at-backend", "{}: the client never sent this stream. {}", here(), ctx());
        }
        // ---- request line and host
        if !w.pseudo(":method").iter().any(|m| *m == q.method.as_bytes()) {
            fail!("C03/h2-forwarded-differs:method", "{}: the client's :method is {:?}. {}", here(), w.pseudo(":method").iter().map(|m| m.escape_ascii().to_string()).collect::<Vec<_>>(), ctx());
        }
        if !w.pseudo(":path").iter().any(|p| *p == q.target.as_bytes()) {
            fail!("C03/h2-forwarded-differs:target", "{}: the client's :path is {:?}. {}", here(), w.pseudo(":path").iter().map(|m| m.escape_ascii().to_string()).collect::<Vec<_>>(), ctx());
        }
        let got_host = c03::host_only(&q.host.clone().unwrap_or_default());
        let want: Vec<String> = w.expected_hosts().iter().map(|h| c03::host_only(&String::from_utf8_lossy(h))).collect();
        if !want.iter().any(|h| *h == got_host) {
            fail!("C03/h2-forwarded-differs:host", "{}: a backend reads host {got_host:?}, the client named {want:?} (:authority, or Host without :authority). {}", here(), ctx());
        }
        if got_host != HOSTS[CLUSTER_OF[b]] {
            fail!("C03/h2-host-differs-from-route", "{}: routed to cluster c{} ({}) but a backend reads host {got_host:?}. {}", here(), CLUSTER_OF[b], HOSTS[CLUSTER_OF[b]], ctx());
        }
        // ---- field lines
        let names = w.names();
        for (n, v) in &q.headers {
            let ln = n.to_ascii_lowercase();
            if MANAGED.contains(&ln.as_str()) {
                continue;
            }
            if !names.contains(ln.as_bytes()) {
                fail!("C03/h2-injected-header-line", "{}: the field line {n:?}: {:?} is its own line at the backend, the client never sent a field of that name. {}", here(), c03::esc(v, 120), ctx());
            }
        }
        for name in ["content-length", "transfer-encoding", "host"] {
            if q.header_values(name).len() > 1 {
                fail!("C03/h2-duplicate-framing-field-forwarded", "{}: {} {name} fields at the backend. {}", here(), q.header_values(name).len(), ctx());
            }
        }
        for v in q.header_values("transfer-encoding") {
            if v != b"chunked" {
                fail!("C03/h2-transfer-encoding-forwarded", "{}: Transfer-Encoding {:?} at the backend (sozu's own is `chunked`). {}", here(), c03::esc(v, 80), ctx());
            }
        }
        let client_conn_specific = |name: &str| w.headers.iter().any(|(n, _)| n.eq_ignore_ascii_case(name.as_bytes()));
        for name in ["keep-alive", "proxy-connection", "upgrade"] {
            if client_conn_specific(name) && !q.header_values(name).is_empty() {
                fail!("C03/h2-connection-specific-field-forwarded", "{}: the client's {name} field reached the backend. {}", here(), ctx());
            }
        }
        for v in q.header_values("te") {
            if !v.eq_ignore_ascii_case(b"trailers") {
                fail!("C03/h2-connection-specific-field-forwarded", "{}: TE {:?} reached the backend. {}", here(), c03::esc(v, 80), ctx());
            }
        }
        for v in q.header_values("connection") {
            if c03::find_sub(&v.to_ascii_lowercase(), b"x-hop") {
                fail!("C03/h2-connection-specific-field-forwarded", "{}: the client's Connection field ({:?}) reached the backend. {}", here(), c03::esc(v, 80), ctx());
            }
        }
        let tnames = w.trailer_names();
        for (n, v) in &q.trailers {
            if !tnames.contains(n.to_ascii_lowercase().as_bytes()) {
                fail!("C03/h2-injected-header-line", "{}: the trailer line {n:?}: {:?} is its own line at the backend, the client never sent a trailer field of that name. {}", here(), c03::esc(v, 120), ctx());
            }
        }
        // ---- body
        let sent = w.sent_body();
        let declared = match q.framing {
            Framing::ContentLength(n) => Some(n as usize),
            _ => None,
        };
        if self.lenient(k) {
            if !sent.starts_with(&q.body) {
                fail!("C03/h2-body-differs", "{}: the stream was refused and {} body bytes had reached the backend, which are not a prefix of the {} bytes of DATA the client sent. {}", here(), q.body.len(), sent.len(), ctx());
            }
            self.partial_forward = true;
        } else if !q.complete {
            if let Some(n) = declared.filter(|n| *n != sent.len()) {
                fail!("C03/h2-content-length-disagrees-with-data-forwarded", "{}: forwarded with Content-Length {n} although the client's DATA frames total {} bytes and the stream was not refused; the backend waits for a body that will not come (or takes the next request's bytes for it). {}", here(), sent.len(), ctx());
            }
            fail!("C03/h2-forwarded-message-incomplete", "{}: the message is incomplete at the backend ({} of its body so far, framing {}), the stream was not refused. {}", here(), q.body.len(), c03::framing_name(&q.framing), ctx());
        } else if q.body != sent {
            // sozu forwards a head before the DATA frames are in: a request whose DATA later exceeds its own
            // content-length has by then reached the backend exactly as its head declared it, and the excess goes
            // nowhere (were it written to the backend connection, the readers would find it there)
            let own_cl = |n: usize| w.headers.iter().any(|(k, v)| k == b"content-length" && v == n.to_string().as_bytes());
            if let Some(n) = declared.filter(|n| *n < sent.len() && q.body == sent[..*n] && own_cl(*n)) {
                let _ = n;
                self.truncated_to_declared = true;
                self.judged += 1;
                return Ok(Some(k));
            }
            if let Some(n) = declared.filter(|n| *n != sent.len()) {
                fail!("C03/h2-content-length-disagrees-with-data-forwarded", "{}: forwarded with Content-Length {n} although the client's DATA frames total {} bytes. {}", here(), sent.len(), ctx());
            }
            fail!("C03/h2-body-differs", "{}: the backend reads a body of {} bytes ({}), the client's DATA frames total {} bytes{}. {}", here(), q.body.len(), c03::framing_name(&q.framing), sent.len(), lab::h1::first_mismatch(&q.body, &sent).map(|i| format!(", first difference at offset {i}")).unwrap_or_default(), ctx());
        }
        self.judged += 1;
        Ok(Some(k))
    }
}

/// The oracle: a pure function of what the client sent, what it got back and what every backend connection received.
pub fn judge(case: &Case, wires: &[Wire], obs: &Observed) -> CheckResult {
    let mut rep = CaseReport::default();
    let strict = Opts::strict();
    let variants = http::variants();
    let fates: Vec<Fate> = obs.streams.iter().map(fate).collect();
    let mut j = Judge { case, wires, fates: fates.clone(), seen: vec![0; wires.len()], order: BTreeMap::new(), judged: 0, partial_forward: false, truncated_to_declared: false };
    let client = || wires.iter().zip(&fates).map(|(w, f)| format!("{} -> {f:?}", describe_wire(w))).collect::<Vec<_>>().join(" ;; ");
    if let Some(v) = &obs.undecodable {
        fail!("C03/h2-undecodable-header-block-toward-client", "{v}. client: {}", client());
    }
    let any_lenient = (0..wires.len()).any(|k| j.lenient(k));
    let mut shared = false;
    for ((b, conn), o) in &obs.at_backend {
        let (b, conn) = (*b, *conn);
        if stale(o, case.nonce) {
            rep.class("stale_backend_connection_ignored");
            continue;
        }
        let ctx = || format!("backend connection received {:?}. client: {}", c03::esc(o, 1100), engine::truncate(&client(), 1500));
        let s = http::read_requests(o, &strict);
        let mut marks = vec![];
        for q in &s.reqs {
            marks.push(j.message(b, conn, q, true, &ctx)?);
        }
        shared |= s.reqs.iter().filter(|q| q.complete).count() >= 2;
        match &s.tail {
            Tail::Clean => {}
            Tail::Incomplete { what, .. } => {
                // (an incomplete message whose head was read has been judged above: admitted only for a refused stream)
                if s.reqs.last().map(|q| q.complete).unwrap_or(true) && !any_lenient {
                    fail!("C03/h2-backend-stream-truncated", "backend {b} connection {conn}: the bytes end inside a {what} although no stream was refused. {}", ctx());
                }
                rep.class("partial_message_at_backend_of_a_refused_stream");
            }
            Tail::Reject { at, class, detail } => {
                // a more specific name for the same bytes: what a permissive backend makes of them
                let mut others = String::new();
                for v in variants.iter().chain(http::diagnostic_variants().iter()) {
                    let rv = http::read_requests(o, v);
                    for q in rv.reqs.iter().skip(s.reqs.len()) {
                        j.message(b, conn, q, false, &ctx)?;
                    }
                    if rv.accepted() && rv.reqs.len() > s.reqs.len() && others.len() < 700 {
                        others.push_str(&format!(" | a `{}` backend reads: {}", v.name, rv.describe()));
                    }
                }
                fail!(format!("C03/h2-backend-stream-not-rfc9112:{class}"), "backend {b} connection {conn}: what sozu wrote is refused by a strict RFC 9112 reader at offset {at}: {detail} (after {} readable requests){}. {}", s.reqs.len(), others, ctx());
            }
        }
        if let Some((name, reading)) = c03::first_variant_disagreeing(o, &s, &variants) {
            fail!(format!("C03/h2-backend-stream-ambiguous:{name}"), "backend {b} connection {conn}: the strict reader finds {} but a `{name}` backend finds {}. {}", s.describe(), reading, ctx());
        }
        j.order.insert((b, conn), marks);
    }
    // ---- every stream
    // a GOAWAY of any kind counts: after an answer it wrote itself (`Connection: close`) sozu drains the connection
    // with GOAWAY(NO_ERROR) and refuses streams opened afterwards with REFUSED_STREAM, which RFC 9113 6.8 allows
    // (the client retries them on a new connection)
    let conn_died = obs.eof || obs.goaway.is_some() || obs.streams.iter().any(|s| s.conn_dead);
    let (mut forwarded, mut refused, mut normalised) = (0u64, 0u64, 0u64);
    for (k, w) in wires.iter().enumerate() {
        let here = || format!("{} -> {:?}", describe_wire(w), fates[k]);
        if let Fate::Answered(status, Some((b, c, i))) = &fates[k] {
            match j.order.get(&(*b, *c)).and_then(|m| m.get(*i)) {
                Some(Some(m)) if *m == k => {}
                other => fail!("C03/h2-response-of-another-request", "{}: the answer the client received on this stream is the backend's answer number {i} on backend {b} connection {c}, which answers {} (status {status}). client: {}", here(), match other { Some(Some(m)) => format!("stream index {m}'s request"), _ => "a request that is not this stream's".into() }, client()),
            }
            forwarded += 1;
            if w.mutated() {
                normalised += 1;
                for l in &w.labels {
                    rep.class(format!("forwarded_normalised:{}", &l[4..]));
                }
            }
        }
        if matches!(fates[k], Fate::Refused(_)) {
            refused += 1;
            if j.seen[k] > 0 {
                rep.class("refused_after_forwarding_had_started");
            }
        }
        if !w.mutated() {
            let ok = matches!(&fates[k], Fate::Answered(s, Some(_)) if (200..300).contains(s)) && j.seen[k] == 1;
            let excused = conn_died && wires.iter().enumerate().any(|(i, o)| o.mutated() && obs.streams[i].sent && (case.all_at_once || i < k));
            // Known finding C03/h2-connection-parked-after-early-answer: a stream that sozu answers itself at its
            // HEADERS (400 / 401 / 404 / 421 ...) while the client goes on sending its body: the DATA frames keep
            // being stored in that stream's buffer, which nothing drains; the first frame that no longer fits
            // (here: more than ~12 kB of body) parks the whole connection, later streams are never read.
            let parked_by = wires.iter().enumerate().find(|(i, o)| *i != k && (case.all_at_once || *i < k) && matches!(&fates[*i], Fate::Refused(why) if why.contains("written by sozu")) && o.sent_body().len() > 12_000);
            let late_end = |o: &Wire| o.end == End::OnData && o.headers.iter().any(|(n, _)| n == b"content-length") && o.data.len() > 1 && o.data.last().map(|d| d.is_empty()).unwrap_or(false);
            if case.strict && !ok && !excused && wires.iter().enumerate().any(|(i, o)| i < k && late_end(o)) {
                fail!("C03/h2-next-request-lost-after-length-complete-request-ended-by-later-empty-data", "{}: not forwarded after a stream whose END_STREAM came on an empty DATA frame behind its declared length. client: {}", here(), client());
            }
            if !ok && !excused && fates[k] == Fate::NoAnswer {
                if let Some((i, _)) = parked_by {
                    if case.strict {
                        fail!("C03/h2-connection-parked-after-early-answer", "{}: never read by sozu: stream {} was answered by sozu itself while {} bytes of its body were still arriving, the connection has been parked on that stream's buffer since. client: {}", here(), 2 * i + 1, wires[i].sent_body().len(), client());
                    }
                    rep.excluded_known += 1;
                    rep.class("known_excluded:connection-parked-after-early-answer");
                    continue;
                }
            }
            if !ok && !excused {
                fail!("C03/h2-valid-request-not-forwarded", "{}: a well-formed request (no mutation) was not forwarded and answered 2xx by the backend ({} message(s) with its marker at the backends; GOAWAY {:?}, connection closed {}). client: {}", here(), j.seen[k], obs.goaway, obs.eof, client());
            }
            rep.class_if(ok, "valid_stream_forwarded");
            rep.class_if(!ok, "valid_stream_lost_with_the_connection");
        }
        rep.class_if(matches!(&fates[k], Fate::Answered(s, None) if *s >= 500), "answered_5xx_by_sozu");
        rep.class_if(fates[k] == Fate::NoAnswer, "no_answer");
        rep.class_if(obs.streams[k].cancelled_by_client, "cancelled_by_client");
    }
    // ---- measurement
    let any_mut = wires.iter().any(|w| w.mutated());
    for w in wires {
        for l in &w.labels {
            rep.class(*l);
        }
        rep.excluded_known += w.excluded;
        rep.class_if(w.trailers.is_some(), "trailers");
        rep.class_if(w.cont_split.is_some(), "continuation_split");
        rep.class_if(w.pad.is_some() && !w.data.is_empty(), "padded_data");
        rep.class_if(w.data.iter().any(|d| d.is_empty()), "empty_data_frame");
        rep.class_if(w.body_len() >= 4000, "body_4000+");
    }
    rep.class_if(case.streams.iter().any(|s| s.payload != 0 && !s.data.is_empty()), "body_looks_like_a_request");
    rep.class_if(j.truncated_to_declared, "data_beyond_the_declared_length_dropped_after_the_head_was_forwarded");
    rep.class_if(!any_mut, "no_mutation_applied");
    rep.class_if(refused > 0, "refused");
    rep.class_if(normalised > 0, "forwarded_normalised");
    rep.class_if(forwarded > 0, "forwarded");
    rep.class_if(shared, "streams_share_backend_connection");
    rep.class_if(case.all_at_once, "all_at_once");
    rep.class_if(!case.all_at_once && wires.len() > 1, "sequential_2+");
    rep.class_if(!case.seg.is_empty(), "segmented_writes");
    rep.class_if(case.probe_ms > 0, "waits_for_refusal_after_headers");
    rep.class_if(obs.goaway.is_some(), "goaway_received");
    if let Some((_, code)) = obs.goaway {
        rep.class(format!("goaway_code_{code}"));
        if std::env::var("VP_C03H2_GOAWAY").is_ok() {
            eprintln!("GOAWAY {:?} :: {}", obs.goaway, client());
        }
    }
    rep.class_if(obs.at_backend.len() >= 2, "2+_backend_connections");
    rep.class_if(case.host % 2 == 1, "cluster_with_two_backends");
    if let Ok(show) = std::env::var("VP_C03H2_SHOW") {
        if rep.classes.iter().any(|c| c.contains(&show)) {
            eprintln!("SHOW {show} :: {}", client());
        }
    }
    let uniq: BTreeSet<String> = rep.classes.drain(..).collect();
    rep.classes = uniq.into_iter().collect();
    rep.nontrivial = forwarded > 0 && (any_mut || shared);
    rep.inner_evaluations = j.judged + wires.len() as u64;
    Ok(rep)
}

// ------------------------------------------------------------------ scenario

pub fn scenario(lab: &mut Lab, case: &Case) -> Result<(CaseReport, bool), Failure> {
    if !lab.worker.alive() {
        return Err(Failure::new("C03/worker-died", format!("the worker thread is gone: {:?}", lab.worker.join())));
    }
    let wires: Vec<Wire> = (0..case.streams.len()).map(|k| build_wire(case, k)).collect();
    let obs = match drive(lab, case, &wires) {
        Ok(o) => o,
        Err(e) => {
            if !lab.worker.alive() {
                return Err(Failure::new("C03/worker-died", format!("the worker thread died: {:?}", lab.worker.join())));
            }
            // the harness could not open its connection: never a verdict about sozu
            panic!("harness: HTTP/2 connection to the HTTPS listener failed: {e}");
        }
    };
    if !lab.worker.alive() {
        return Err(Failure::new("C03/worker-died", format!("the worker thread died during the scenario: {:?}; client: {}", lab.worker.join(), wires.iter().map(describe_wire).collect::<Vec<_>>().join(" ;; "))));
    }
    match judge(case, &wires, &obs) {
        Ok(r) => Ok((r, obs.dirty)),
        Err(f) if std::env::var("VP_C03H2_SURVEY").is_ok() => {
            eprintln!("SURVEY {} :: {}", f.signature, engine::truncate(&f.message, 2600));
            let mut r = CaseReport::default();
            r.class(format!("FAIL:{}", f.signature));
            Ok((r, true))
        }
        Err(f) => Err(f),
    }
}

pub const RULE: &str = "wire lab, HTTP/2 frontend -> HTTP/1.1 backends: one client connection (TLS, ALPN h2, own frame codec, HPACK literals without indexing so any byte survives) to a live worker whose HTTPS listener routes c0.lab to a cluster with one and c1.lab to a cluster with two recording keep-alive backends (every byte per connection is stored; 200 is answered to each request the STRICT RFC 9112 reader can read, tagged backend-connection-index). Scenario: 1..4 request streams, one after the other (the answer / reset of stream k is awaited before k+1) or all at once; the client's bytes in one write per stream or in generated pieces with pauses; optionally a 20 ms wait for a refusal between the initial HEADERS and the rest of a stream. Each stream = a valid request (GET/POST/PUT/DELETE/OPTIONS/HEAD, :path /n<nonce>/k<index>[/seg][?q], :authority = the routed host, marker field x-m, 0..3 harmless fields incl. te: trailers, cookie, x-forwarded-for; POST/PUT: 0..4 DATA frames of 0..16000 bytes (empty frames included, 20 kB at most, optional padding), with or without content-length, 0..3 trailer fields; body content letters, a complete HTTP/1.1 request, or `0 CRLF CRLF` + a request; header block optionally split into HEADERS + CONTINUATION) plus 0..2 mutations: content-length larger / smaller than the DATA total ended by DATA+END_STREAM, empty DATA+END_STREAM, trailers+END_STREAM or END_STREAM on HEADERS; second content-length (equal / different); 19 content-length spellings (+N, N SP, 0xN, N,N, N, M, empty, leading zeros, 20 digits, 2^64, HTAB, ;q=1 ...); transfer-encoding (chunked, Chunked, CHUNKED, `chunked, identity`, ` chunked`, identity, `gzip, chunked`, xchunked ..., alone or with content-length, upper-case name, body = chunk framing ending in a smuggled request); connection / keep-alive / proxy-connection / upgrade / te: gzip fields; CR, LF, CRLF, NUL, ':', SP, HTAB, '(', upper case, UTF-8, empty in field names (header block or trailers), incl. names that spell a whole header line or a second request; CR / LF / CRLF / NUL / CTL / DEL / obs-fold / leading and trailing whitespace in values, incl. `x CRLF transfer-encoding: chunked`, `x CRLF CRLF GET /smuggled HTTP/1.1 CRLF host: h`, `x CRLF content-length: 0 CRLF CRLF GET ...`; pseudo-header faults (missing :method / :path / :scheme / :authority, duplicate :path / :method / :authority / :scheme, pseudo-header after a regular field, :foo, :status, :protocol, pseudo-header in trailers); :path empty, without slash, with space / HTAB / NUL / DEL / CR / LF / CRLF + field / ` HTTP/1.1 CRLF field` / a whole second request, absolute-form, `*`, fragment, UTF-8; :method with space, `GET / HTTP/1.1 CRLF Host: evil CRLF CRLF GET`, empty, lower case, colon, HTAB, NUL, unknown token; :authority with space / CRLF + field / userinfo / port / upper case / path / HTAB, empty, unknown host, other cluster + Host own, Host only (own / other), both equal, both different, two Host fields, Host with CRLF; :scheme http / ftp / HTTP / empty / `https://evil` / CRLF + field; DATA on GET / HEAD / DELETE / OPTIONS; HEAD with content-length; CONNECT (3 forms); content-length: 0 with DATA; trailers carrying content-length / transfer-encoding / host / another stream's marker / connection / te / :path; trailers without END_STREAM, DATA after END_STREAM, a second HEADERS after END_STREAM. Oracle (black box): for every backend connection the recorded bytes O are accepted by the strict RFC 9112 reader and 14 permissive variant readers find the same message boundaries, nothing unreadable is left (an incomplete last message only for a refused stream); every message found carries exactly one Sozu-Id (sozu wrote it as one request head) and the marker of exactly one client stream (x-m field and / or :path), no stream appears twice, nothing without a marker appears; its method and target equal the stream's :method and :path, its host equals :authority (Host when there is no :authority) and is the host of the cluster it was routed to; every field line is one whose name the client sent as a field name in that stream or one sozu writes itself (Host, Content-Length, Transfer-Encoding, Connection, X-Forwarded-*, Forwarded, X-Request-Id, Sozu-Id, Cookie), every trailer line one the client sent as a trailer; at most one Content-Length / Transfer-Encoding / Host, Transfer-Encoding only as sozu's own `chunked`, none of the client's keep-alive / proxy-connection / upgrade / TE other than trailers / named Connection fields; the body the strict reader extracts equals the concatenation of the DATA payloads sent before END_STREAM (Content-Length n != DATA total: h2-content-length-disagrees-with-data-forwarded; admitted: the head declared n itself, exactly the first n bytes arrived and the excess reached no backend - sozu had forwarded the head before the DATA was in). A stream counts as refused on RST_STREAM, GOAWAY / close before an answer, a 4xx written by sozu, when the client cancelled it, or when the client never ended it (no END_STREAM: the request is unfinished whatever a timeout answers later); of a refused stream a backend may hold a head and a prefix of its DATA, otherwise it is judged like a forwarded one. The answer a client receives on a stream must be the backend's answer to that stream's own request (backend-connection-index tag). A stream without mutation must be forwarded once and answered 2xx by the backend, unless the connection was lost or put into draining (GOAWAY of any code) after a mutated stream sent earlier (or at the same time). Refusing a mutated stream is never a failure; mutated streams that RFC 9113 allows are admitted either way. A failure is re-run twice on a fresh worker and reported only when it reproduces (else flaky_unconfirmed); a worker that dies is a failure; a connection the harness cannot open ends the run as inconclusive. Non-trivial: at least one stream was forwarded and answered by a backend and (a mutation was applied or two streams shared a backend connection).";

pub fn child(args: &Args, total: u64) -> Stats {
    lab::init_ports(args.shard.map(|s| s.0).unwrap_or(0) + 3);
    let labcell: RefCell<Option<Lab>> = RefCell::new(None);
    let flaky = std::cell::Cell::new(0u64);
    let run_on = |fresh: bool, case: &Case| -> CheckResult {
        let mut lab = match (fresh, labcell.borrow_mut().take()) {
            (false, Some(l)) => l,
            (_, old) => {
                drop(old);
                Lab::new()
            }
        };
        match scenario(&mut lab, case) {
            Ok((rep, dirty)) => {
                *labcell.borrow_mut() = if dirty { None } else { Some(lab) };
                Ok(rep)
            }
            Err(f) => {
                *labcell.borrow_mut() = None;
                Err(f)
            }
        }
    };
    let check = |case: &Case| -> CheckResult {
        let first = run_on(false, case);
        let Err(f) = first else { return first };
        for _ in 0..2 {
            if let Err(f2) = run_on(true, case) {
                return Err(if f2.signature == f.signature { f2 } else { f });
            }
        }
        flaky.set(flaky.get() + 1);
        engine::note_flaky("C03", &f, &serde_json::to_string(case).unwrap_or_default());
        let mut rep = CaseReport::default();
        rep.class("flaky_unconfirmed");
        Ok(rep)
    };
    let mut st = engine::run_lab_shard(args, "C03", SUB, total, strategy(), check, 40);
    st.flaky_unconfirmed += flaky.get();
    st
}

pub fn describe(ev: &mut engine::Evidence) {
    ev.rule(SUB, RULE);
    ev.assume("h2smuggle: HTTP/2 frontend -> HTTP/1.1 backends only (h2c backends are C13 h2paths' subject); frame-level faults are limited to the END_STREAM / trailers sequence (other connection-level faults are C15's subject); flow-control windows are honoured by the client; `any RFC-conforming backend` is one strict and 14 permissive reference readers");
    ev.assume("h2smuggle: only a stream without any mutation is required to be forwarded; a mutated stream may be refused even where RFC 9113 allows it (leading zeros, identical duplicate content-length, GET with DATA, Host without :authority, extension methods, te: trailers in trailers ...): the property is about what reaches a backend, not about availability");
    ev.assume("h2smuggle: sozu forwards a head as soon as it has it: of a stream it later refuses (content-length exceeded / not reached at END_STREAM) a backend may hold the head and a prefix of the DATA on a connection sozu then closes; a request whose DATA exceeds its own content-length may already have been answered by the backend (exactly the declared bytes, the excess reaches no backend) when the excess arrives; a stream dropped while sozu drains the connection after GOAWAY NO_ERROR gets no RST_STREAM and counts as refused");
    ev.assume("h2smuggle: three shapes found by this sub-check (a second content-length field with the same number forwarded as two lines; a space in :path; bytes above 0x7f in :path) were repaired in sozu and are generated like any other; their reproducers are regressions/C03/h2smuggle-fixed-*.json");
    for (class, frac) in [
        ("forwarded", 0.4),
        ("refused", 0.5),
        ("forwarded_normalised", 0.08),
        ("streams_share_backend_connection", 0.1),
        ("all_at_once", 0.15),
        ("sequential_2+", 0.3),
        ("valid_stream_forwarded", 0.35),
        ("refused_after_forwarding_had_started", 0.03),
        ("mut:cl_larger_than_data", 0.07),
        ("mut:cl_smaller_than_data", 0.07),
        ("mut:cl_form", 0.06),
        ("mut:transfer_encoding", 0.08),
        ("mut:value_bytes", 0.09),
        ("mut:name_bytes", 0.07),
        ("mut:pseudo_header", 0.07),
        ("mut:path", 0.04),
        ("mut:authority_host", 0.07),
        ("mut:connection_specific", 0.04),
        ("mut:trailer_field", 0.04),
        ("mut:method", 0.04),
        ("mut:body_on_bodiless_method", 0.04),
        ("trailers", 0.25),
        ("segmented_writes", 0.25),
        ("waits_for_refusal_after_headers", 0.3),
    ] {
        ev.floor(SUB, class, frac);
    }
}
