//! Shared HTTP/2 wire-lab scenario for C14 (peer limits and flow control) and C01 (body integrity
//! over the HTTP/2 pairs): an HTTP/2 (TLS) client with generated SETTINGS and WINDOW_UPDATE schedule
//! sends 1..N concurrent POST streams through a live worker to an HTTP/1.1 or an h2c mock backend
//! (generated SETTINGS / schedule on that side too). Every frame sozu sends to either peer goes
//! through the ledger of `lab::h2`; bodies are keyed content compared byte for byte.

use std::{
    cell::RefCell,
    collections::BTreeMap,
    time::{Duration, Instant},
};

use proptest::prelude::*;
use serde::{Deserialize, Serialize};

use crate::{
    engine::{self, Args, CaseReport, CheckResult, Failure, Stats},
    lab::{
        self, LabConfig,
        h1::{BodyFraming, content, first_mismatch},
        h2::{self, Frame, H2Event, Settings},
        h2lab::{H2Action, H2Lab, H2Shared},
        httplab::BackendAction,
        script::ReadScript,
    },
};

#[derive(Clone, Debug, Serialize, Deserialize)]
pub struct StreamSpec {
    pub req_len: usize,
    pub resp_len: usize,
    /// DATA frame sizes the client uses for the request body (cycled)
    pub req_frames: Vec<usize>,
    pub req_pad: Option<u8>,
    /// h2c backend: DATA frame sizes / padding of the response; h1 backend: chunk sizes (empty = Content-Length)
    pub resp_frames: Vec<usize>,
    pub resp_pad: Option<u8>,
}

/// (delay in ms since the connection was set up, target: 0 = connection, 1.. = the n-th stream, increment)
pub type Grant = (u16, u8, u32);

#[derive(Clone, Debug, Serialize, Deserialize)]
pub struct PeerSpec {
    pub initial_window: u32,
    pub max_frame: u32,
    pub max_concurrent: Option<u32>,
    pub header_table: u32,
    /// replenish windows automatically from the start; otherwise follow `grants`, then turn automatic
    pub auto: bool,
    pub grants: Vec<Grant>,
    /// mid-connection SETTINGS change: (after ms, new INITIAL_WINDOW_SIZE, new MAX_FRAME_SIZE)
    pub resettle: Option<(u16, u32, u32)>,
}

#[derive(Clone, Debug, Serialize, Deserialize)]
pub struct Case {
    pub seed: u64,
    /// false: HTTP/1.1 backend (cluster c0); true: h2c backend (cluster c1)
    pub backend_h2: bool,
    pub client: PeerSpec,
    pub backend: PeerSpec,
    pub streams: Vec<StreamSpec>,
    /// replay of a known finding: do not cap the number of DATA frames (see `capped`)
    #[serde(default)]
    pub strict: bool,
    /// (h2c backend sends its SETTINGS after this many ms, the client opens stream n+1 this many ms after
    /// stream n): requests that reach a backend connection whose SETTINGS are still awaited
    #[serde(default)]
    pub slow_settings: Option<(u16, u16)>,
    /// (start ms, duration ms): the client does not read from its connection in that period (it keeps
    /// sending): with a response larger than the socket buffers sozu's write side blocks in the middle of a
    /// frame while DATA keeps arriving from the same peer
    #[serde(default)]
    pub client_read_pause: Option<(u16, u16)>,
    /// the h2c backend shuts down gracefully: GOAWAY(NO_ERROR) naming the last request's stream, sent before
    /// that request is answered; every request it names must still get its complete response
    #[serde(default)]
    pub backend_goaway: bool,
    /// every response carries this many header fields with names no other response uses (about 75 octets of
    /// HPACK table each): together more than the default 4096-octet dynamic table, so that a peer that
    /// advertised a larger SETTINGS_HEADER_TABLE_SIZE only keeps decoding if sozu signals the size it uses
    #[serde(default)]
    pub resp_unique_headers: u8,
}

/// Known finding (frame storm): sozu's session loop gives up after 10 000 iterations of one readiness
/// pass and closes the whole session without GOAWAY; several thousand tiny DATA frames queued in the
/// socket reach that. Generated cases stay below it (the frame sizes of a body are scaled up so that
/// all bodies of one direction need at most this many frames); the committed strict reproducer does not.
const MAX_DATA_FRAMES_PER_DIRECTION: usize = 3000;

/// (frame sizes to use, whether they had to be scaled)
pub fn capped(frames: &[usize], len: usize, streams: usize, strict: bool) -> (Vec<usize>, bool) {
    if frames.is_empty() || len == 0 {
        return (frames.to_vec(), false);
    }
    let cycle: usize = frames.iter().map(|f| (*f).max(1)).sum();
    let est = len.saturating_mul(frames.len()) / cycle.max(1) + 1;
    let budget = (MAX_DATA_FRAMES_PER_DIRECTION / streams.max(1)).max(1);
    if est <= budget {
        return (frames.to_vec(), false);
    }
    if strict {
        return (frames.to_vec(), true);
    }
    let k = est.div_ceil(budget);
    (frames.iter().map(|f| (*f).max(1) * k).collect(), true)
}

fn window() -> impl Strategy<Value = u32> {
    prop_oneof![
        2 => Just(65535u32),
        1 => Just(0u32),
        1 => Just(1u32),
        1 => Just(9u32),
        1 => Just(16383u32),
        1 => Just(16384u32),
        1 => 1u32..70_000,
        1 => 70_000u32..1_000_000,
        1 => Just(0x7fff_ffffu32),
    ]
}

fn max_frame() -> impl Strategy<Value = u32> {
    prop_oneof![4 => Just(16384u32), 1 => Just(16385u32), 1 => 16384u32..100_000, 1 => Just(0x00ff_ffffu32)]
}

fn grants() -> impl Strategy<Value = Vec<Grant>> {
    prop::collection::vec(
        (0u16..400, 0u8..5, prop_oneof![Just(1u32), Just(9u32), 1u32..200, 200u32..20_000, Just(16384u32), 20_000u32..200_000]),
        0..24,
    )
    .prop_map(|mut v| {
        v.sort();
        v
    })
}

fn peer(flow_focus: bool) -> BoxedStrategy<PeerSpec> {
    if flow_focus {
        (window(), max_frame(), proptest::option::weighted(0.5, 0u32..9), prop_oneof![Just(4096u32), Just(0u32), Just(65536u32)], prop::bool::weighted(0.3), grants(), proptest::option::weighted(0.3, (20u16..300, window(), max_frame())))
            .prop_map(|(initial_window, max_frame, max_concurrent, header_table, auto, grants, resettle)| PeerSpec {
                initial_window,
                max_frame,
                // 0 concurrent streams would make every request wait forever: the backend keeps at least 1
                max_concurrent: max_concurrent.map(|m| m.max(1)),
                header_table,
                auto,
                grants,
                resettle,
            })
            .boxed()
    } else {
        Just(PeerSpec { initial_window: 65535, max_frame: 16384, max_concurrent: None, header_table: 4096, auto: true, grants: vec![], resettle: None }).boxed()
    }
}

const BOUNDARIES: &[usize] = &[16393, 16384, 32768, 65535, 65536, 9, 4096];

fn size(max: usize) -> impl Strategy<Value = usize> {
    prop_oneof![
        2 => prop_oneof![Just(0usize), Just(1), Just(2)],
        4 => (0usize..BOUNDARIES.len(), prop_oneof![Just(-9i64), Just(-2), Just(-1), Just(0), Just(1), Just(2), Just(9)]).prop_map(|(b, d)| (BOUNDARIES[b] as i64 + d).max(0) as usize),
        3 => 3usize..4096,
        2 => 4096usize..70_000,
        1 => 70_000usize..max.max(70_001),
    ]
}

fn frames() -> impl Strategy<Value = Vec<usize>> {
    prop_oneof![
        2 => Just(vec![]),
        3 => prop::collection::vec(prop_oneof![Just(1usize), Just(9), 1usize..100, 100usize..16384, Just(16384), Just(16385)], 1..5),
        // with an empty DATA frame (padding only when the stream pads) between two frames of the body
        1 => prop::collection::vec(prop_oneof![2 => Just(0usize), 1 => Just(1usize), 3 => 1usize..3000, 1 => Just(16384usize)], 2..5),
    ]
}

fn stream_spec(max: usize) -> impl Strategy<Value = StreamSpec> {
    (size(max), size(max), frames(), proptest::option::weighted(0.2, any::<u8>()), frames(), proptest::option::weighted(0.2, any::<u8>()))
        .prop_map(|(req_len, resp_len, req_frames, req_pad, resp_frames, resp_pad)| StreamSpec { req_len, resp_len, req_frames, req_pad, resp_frames, resp_pad })
}

/// `flow_focus`: generated SETTINGS and WINDOW_UPDATE schedules on both peers (C14); otherwise default
/// settings and size / framing focus (C01).
pub fn strategy(flow_focus: bool, max: usize, max_streams: usize) -> impl Strategy<Value = Case> {
    // who withholds credit: 0 = the client only, 1 = the backend only, 2 = both (head-of-line finding: safety
    // oracles only when it stalls), 3 = nobody
    let mode = if flow_focus { prop_oneof![3 => Just(0u8), 3 => Just(1u8), 1 => Just(2u8), 1 => Just(3u8)].boxed() } else { prop_oneof![1 => Just(2u8), 3 => Just(3u8)].boxed() };
    (any::<u64>(), any::<bool>(), peer(flow_focus), peer(flow_focus), prop::collection::vec(stream_spec(max), 1..=max_streams), mode, proptest::option::weighted(0.25, (1u16..80, 0u16..40)), (if flow_focus { Just(None).boxed() } else { proptest::option::weighted(0.08, (0u16..200, 2000u16..2600, 10usize..13, 20_000usize..60_000)).boxed() }),
        // long-lived connection: 70..90 single-frame uploads (DATA carrying END_STREAM), together above the 1 MiB
        // connection window sozu advertises, so the transfer only completes if sozu keeps replenishing it
        (if flow_focus { proptest::option::weighted(0.06, (70usize..90, prop_oneof![Just(16384usize), 12_000usize..16384])).boxed() } else { Just(None).boxed() })).prop_map(
        move |(seed, backend_h2, mut client, mut backend, mut streams, mode, slow_settings, bulk, many)| {
            if flow_focus {
                // keep transfers short enough for drip schedules to finish: body sizes capped
                for s in streams.iter_mut() {
                    s.req_len = s.req_len.min(120_000);
                    s.resp_len = s.resp_len.min(120_000);
                }
            }
            // bulk scenario: one download far above the socket buffers while the client pauses reading and
            // uploads on a second stream
            let mut client_read_pause = None;
            if let Some((start, dur, mib, up)) = bulk {
                streams.truncate(2);
                while streams.len() < 2 {
                    streams.push(StreamSpec { req_len: 0, resp_len: 0, req_frames: vec![], req_pad: None, resp_frames: vec![], resp_pad: None });
                }
                streams[0].req_len = 3;
                streams[0].resp_len = mib << 20;
                streams[0].resp_frames = vec![];
                streams[1].req_len = up;
                streams[1].req_frames = vec![1000];
                streams[1].resp_len = 17;
                client_read_pause = Some((start, dur));
            }
            if let Some((count, len)) = many {
                backend.max_concurrent = None;
                client.max_concurrent = None;
                // 3-byte responses: the default window is plenty, no per-stream WINDOW_UPDATE is ever needed
                client.initial_window = client.initial_window.max(65535);
                streams = (0..count).map(|_| StreamSpec { req_len: len, resp_len: 3, req_frames: vec![16384], req_pad: None, resp_frames: vec![], resp_pad: None }).collect();
            }
            let make_generous = |p: &mut PeerSpec, biggest: usize| {
                p.auto = true;
                p.resettle = None;
                p.grants.clear();
                p.initial_window = p.initial_window.max(biggest as u32);
            };
            let biggest_req = streams.iter().map(|s| s.req_len).max().unwrap_or(0);
            let biggest_resp = streams.iter().map(|s| s.resp_len).max().unwrap_or(0);
            let mode = if mode == 1 && !backend_h2 { 0 } else { mode };
            // the bulk scenario needs a client window above the download, or flow control stops sozu long
            // before the socket does
            let mode = if client_read_pause.is_some() || many.is_some() { 3 } else { mode };
            if mode == 0 || mode == 3 {
                make_generous(&mut backend, biggest_req);
            }
            if mode == 1 || mode == 3 {
                make_generous(&mut client, biggest_resp);
            }
            // a client that advertised a header table above the default gets, in half of the cases, responses
            // whose new field names overflow a 4096-octet table (70+ names over the connection)
            let resp_unique_headers = if client.header_table > 4096 && many.is_none() && client_read_pause.is_none() && (seed >> 11) % 2 == 0 { (70 / streams.len().max(1) + 1) as u8 } else { 0 };
            Case { seed, backend_h2, client, backend, streams, strict: false, slow_settings: if backend_h2 && many.is_none() { slow_settings } else { None }, client_read_pause, backend_goaway: backend_h2 && seed % 7 == 0 && many.is_none(), resp_unique_headers }
        },
    )
}

fn settings_of(p: &PeerSpec) -> Settings {
    Settings { header_table_size: p.header_table, enable_push: 0, max_concurrent_streams: p.max_concurrent, initial_window_size: p.initial_window, max_frame_size: p.max_frame, max_header_list_size: None }
}

pub fn scenario(lab: &mut H2Lab, case: &Case, tag: &str) -> CheckResult {
    let n = case.streams.len();
    let storm = case.streams.iter().any(|s| capped(&s.req_frames, s.req_len, n, true).1 || (case.backend_h2 && capped(&s.resp_frames, s.resp_len, n, true).1));
    let hol = hol_shape(case);
    // The session loop's iteration budget (MAX_LOOP_ITERATIONS, the root of the frame-storm finding) also
    // ends sessions whose peers keep both sides busy for a whole readiness pass, e.g. a multi-megabyte
    // transfer at full speed: sozu counts every such kill in `http.infinite_loop.error`. A scenario that did
    // not finish while that counter moved ran into the known finding, whatever its shape.
    let loop_kills_before = lab.worker.counter("http.infinite_loop.error").unwrap_or(0);
    let outcome = scenario_inner(lab, case, tag);
    let outcome = match outcome {
        Err(f) if !f.signature.contains("limit-violated") && !f.signature.contains("differs") && !f.signature.contains("-body:") && lab.worker.alive() && lab.worker.counter("http.infinite_loop.error").unwrap_or(0) > loop_kills_before => {
            if case.strict {
                Err(Failure::new(format!("{tag}/frame-storm-session-closed"), format!("the session loop's iteration budget ended the session ({}: {})", f.signature, f.message)))
            } else {
                let mut rep = CaseReport::default();
                rep.excluded_known += 1;
                rep.class("session_ended_by_loop_iteration_budget(known)");
                rep.class("lab_dirty");
                Ok(rep)
            }
        }
        other => other,
    };
    match outcome {
        Ok(mut rep) => {
            if storm {
                rep.excluded_known += 1;
                rep.classes.push("frame_storm_capped".into());
            }
            rep.class_if(hol, "both_peers_withhold_credit_2+_streams");
            if stagger_shape(case) && !case.strict {
                rep.excluded_known += 1;
                rep.classes.push("backend_stream_limit_below_stream_count_staggered".into());
            }
            Ok(rep)
        }
        Err(f) if hol && LIVENESS.iter().any(|l| f.signature[tag.len() + 1..].starts_with(l)) => {
            // known finding (head-of-line blocking): see `hol_shape`
            if case.strict {
                Err(Failure::new(format!("{tag}/hol-blocking-stall"), format!("both peers withhold credit on different streams: {} ({})", f.message, f.signature)))
            } else {
                let mut rep = CaseReport::default();
                rep.excluded_known += 1;
                rep.class("both_peers_withhold_credit_2+_streams");
                rep.class("hol_stall_excluded");
                rep.class("lab_dirty");
                Ok(rep)
            }
        }
        Err(f) if case.strict && stagger_shape(case) && f.signature.ends_with("backend-limit-violated:max-concurrent-streams") => {
            Err(Failure::new(format!("{tag}/streams-attached-before-settings-exceed-limit"), f.message))
        }
        Err(f) if case.strict && storm && !f.signature.contains("limit-violated") && !f.signature.contains("differs") => {
            Err(Failure::new(format!("{tag}/frame-storm-session-closed"), format!("thousands of tiny DATA frames: {} ({})", f.message, f.signature)))
        }
        Err(f) => Err(f),
    }
}

/// Known finding (streams attached before the backend's SETTINGS): requests that arrive while the h2c
/// backend connection is still being set up are all attached to it, and their HEADERS go out after the
/// backend's SETTINGS_MAX_CONCURRENT_STREAMS is known, beyond that limit. Generated cases whose backend
/// advertises a limit below the number of streams open the next stream only once the backend has seen
/// the previous one (so every stream meets connections whose limits are known); the committed strict
/// reproducer opens them at once.
pub fn stagger_shape(case: &Case) -> bool {
    case.backend_h2 && case.backend.max_concurrent.is_some_and(|m| (m as usize) < case.streams.len())
}

fn limit_kind(what: &str) -> &'static str {
    if what.contains("concurrently open streams") {
        "max-concurrent-streams"
    } else if what.contains("MAX_FRAME_SIZE") {
        "max-frame-size"
    } else if what.contains("window") || what.contains("flow-control") || what.contains("credit") {
        "window"
    } else if what.contains("ids must") {
        "stream-id"
    } else if what.contains("HPACK") {
        "hpack-table-size"
    } else {
        "other"
    }
}

/// failure signatures that say "the transfer did not finish" (as opposed to "a limit was broken" or
/// "bytes differ")
const LIVENESS: &[&str] = &["transfer-stalled", "stream-reset:2", "response-incomplete", "no-response", "request-body-stalled", "unexpected-status"];

/// A peer is generous when the bodies sent toward it never need a WINDOW_UPDATE from it after the
/// connection set-up: automatic replenishment, stream windows at least as large as every body, all
/// bodies together within half the connection window it grants up front (64 MiB), no mid-connection shrink.
pub fn generous(p: &PeerSpec, bodies: &[usize]) -> bool {
    p.auto && p.resettle.is_none() && bodies.iter().all(|b| *b <= p.initial_window as usize) && bodies.iter().sum::<usize>() <= (h2::CONN_TARGET as usize) / 2
}

/// Known finding (head-of-line blocking): when a stream's buffer is full because the peer it is
/// forwarded to has no window left, sozu stops reading the *whole* connection the DATA came from, so
/// the WINDOW_UPDATE frames queued behind that DATA are never seen. With two or more streams and both
/// peers withholding credit this can close a cycle (client credit for stream B is queued behind stream
/// A's body, backend credit for stream A behind stream B's body) that only sozu's timeouts break.
/// In such cases the safety oracles (windows, frame sizes, stream counts, byte equality of what did
/// arrive) still apply, the liveness verdicts do not.
pub fn hol_shape(case: &Case) -> bool {
    let resp: Vec<usize> = case.streams.iter().map(|s| s.resp_len).collect();
    let req: Vec<usize> = case.streams.iter().map(|s| s.req_len).collect();
    case.streams.len() >= 2 && case.backend_h2 && !generous(&case.client, &resp) && !generous(&case.backend, &req)
}

fn scenario_inner(lab: &mut H2Lab, case: &Case, tag: &str) -> CheckResult {
    let mut rep = CaseReport::default();
    if !lab.worker.alive() {
        return Err(Failure::new(format!("{tag}/worker-died"), format!("the worker thread is gone: {:?}", lab.worker.join())));
    }
    // ---- backend plans
    let mut h1_actions = BTreeMap::new();
    let mut h2s = H2Shared::default();
    h2s.settings = settings_of(&case.backend);
    h2s.auto_window_update = case.backend.auto;
    h2s.settings_delay_ms = case.slow_settings.map(|(d, _)| d as u64).unwrap_or(0);
    h2s.goaway_before_req = if case.backend_goaway && case.backend_h2 { Some(case.streams.len() - 1) } else { None };
    h2s.grants = case.backend.grants.iter().map(|(d, t, inc)| (*d as u64, if *t == 0 { 0 } else { u32::MAX }, *inc)).collect();
    let resp_headers = |i: usize| -> Vec<(String, String)> {
        let mut v = vec![("x-lab-resp".to_string(), i.to_string())];
        for j in 0..case.resp_unique_headers {
            v.push((format!("x-u{i}-{j:02}"), format!("value-{i}-{j:02}-0123456789abcdefghijklmnop")));
        }
        v
    };
    for (i, s) in case.streams.iter().enumerate() {
        let body = content(case.seed ^ (0xA000 + i as u64), s.resp_len);
        if case.backend_h2 {
            h2s.actions.insert(i, H2Action { status: 200, headers: resp_headers(i), body, frame_sizes: capped(&s.resp_frames, s.resp_len, case.streams.len(), case.strict).0, pad: s.resp_pad, trailers: vec![], reset: None });
        } else {
            h1_actions.insert(
                i,
                BackendAction::Respond {
                    status: 200,
                    headers: resp_headers(i),
                    body_seed: case.seed ^ (0xA000 + i as u64),
                    body_len: s.resp_len,
                    framing: if s.resp_frames.is_empty() { BodyFraming::ContentLength } else { BodyFraming::Chunked(s.resp_frames.clone()) },
                    write: Default::default(),
                    close_after: false,
                    cut_at: None,
                    reset: false,
                },
            );
        }
    }
    lab.reset_plan(h1_actions, ReadScript::default(), h2s);

    // ---- client
    let host = if case.backend_h2 { "c1.lab" } else { "c0.lab" };
    let mut c = match lab.h2_client(host, settings_of(&case.client)) {
        Ok(c) => c,
        Err(e) => return Err(Failure::new(format!("{tag}/h2-connect"), format!("HTTP/2 connection to the HTTPS listener failed: {e}"))),
    };
    c.auto_window_update = case.client.auto;
    if case.client.auto {
        // a generous peer raises its connection window before any DATA flows
        c.replenish(0);
    }
    let started = Instant::now();
    let deadline = started + Duration::from_secs(12);
    let n = case.streams.len();
    let ids: Vec<u32> = (0..n).map(|i| 1 + 2 * i as u32).collect();
    // sozu's MAX_CONCURRENT_STREAMS: open at most that many at once
    let sozu_max = c.theirs.max_concurrent_streams.unwrap_or(u32::MAX) as usize;
    let mut grants: Vec<Grant> = case.client.grants.clone();
    grants.sort();
    let mut resettle = case.client.resettle;
    // with a backend GOAWAY the named stream must be the last one to reach that connection
    let staggered = (stagger_shape(case) && !case.strict) || case.backend_goaway;
    let mut next_to_open = 0usize;
    let mut last_open = Instant::now();
    let mut body_sent = vec![false; n];
    let mut headers_sent = vec![false; n];

    let finished = |c: &h2::H2Conn<_>, i: usize| -> bool { c.streams.get(&ids[i]).map(|s| s.end_stream || s.reset.is_some()).unwrap_or(false) };

    loop {
        // open streams as allowed
        while next_to_open < n {
            let open_now = (0..next_to_open).filter(|&i| !finished(&c, i)).count();
            if open_now >= sozu_max.max(1) {
                break;
            }
            if let Some((_, gap)) = case.slow_settings {
                if next_to_open > 0 && last_open.elapsed() < Duration::from_millis(gap as u64) {
                    break;
                }
            }
            if staggered && next_to_open > 0 && !finished(&c, next_to_open - 1) && !lab.h2_shared.lock().unwrap().seen_reqs.contains(&(next_to_open - 1)) {
                break;
            }
            let i = next_to_open;
            let s = &case.streams[i];
            let headers = vec![
                (":method".to_string(), "POST".to_string()),
                (":scheme".to_string(), "https".to_string()),
                (":authority".to_string(), host.to_string()),
                (":path".to_string(), format!("/r{i}")),
                ("x-lab-req".to_string(), i.to_string()),
            ];
            // half of the requests with a body declare it (content-length must then agree with the DATA octets:
            // sozu checks it per stream, RFC 9113 8.1.1)
            let mut headers = headers;
            if s.req_len > 0 && (case.seed >> (i % 48)) & 1 == 1 {
                headers.push(("content-length".to_string(), s.req_len.to_string()));
            }
            if let Err(e) = c.send_headers(ids[i], &headers, s.req_len == 0, None) {
                return Err(Failure::new(format!("{tag}/client-write"), format!("cannot send HEADERS of stream {}: {e}", ids[i])));
            }
            headers_sent[i] = true;
            last_open = Instant::now();
            if s.req_len == 0 {
                body_sent[i] = true;
            }
            next_to_open += 1;
        }
        // send request bodies (one after the other; incoming frames are processed while waiting for credit)
        for i in 0..next_to_open {
            // bulk scenario: the upload starts in the middle of the read pause, once sozu's write side is blocked
            if let (Some((start, dur)), true) = (case.client_read_pause, i >= 1) {
                if (started.elapsed().as_millis() as u64) < start as u64 + dur as u64 / 2 {
                    continue;
                }
            }
            if headers_sent[i] && !body_sent[i] {
                let s = &case.streams[i];
                let body = content(case.seed ^ (0xB000 + i as u64), s.req_len);
                body_sent[i] = true;
                if let Err(e) = c.send_body(ids[i], &body, &capped(&s.req_frames, s.req_len, n, case.strict).0, s.req_pad, true, deadline) {
                    if c.streams.get(&ids[i]).and_then(|s| s.reset).is_some() || c.goaway.is_some() {
                        break;
                    }
                    return Err(Failure::new(format!("{tag}/request-body-stalled"), format!("stream {}: {e}; sozu's windows: connection {}, stream {:?}", ids[i], c.send_conn_window, c.send_stream_window.get(&ids[i]))));
                }
            }
        }
        // scheduled credit
        let elapsed = started.elapsed().as_millis() as u64;
        while let Some(&(at, target, inc)) = grants.first() {
            if at as u64 > elapsed {
                break;
            }
            grants.remove(0);
            let sid = if target == 0 { 0 } else { ids[(target as usize - 1).min(n - 1)] };
            if sid == 0 || (c.streams.get(&sid).map(|s| !s.end_stream && s.reset.is_none()).unwrap_or(true) && headers_sent[(target as usize).saturating_sub(1).min(n - 1)]) {
                let _ = c.grant(sid, inc);
            }
        }
        if !c.auto_window_update && (grants.is_empty() || elapsed > 600) {
            // the schedule is over: from now on credit follows consumption (any legal schedule ends up
            // granting enough), and what was withheld so far is granted now
            grants.clear();
            c.go_auto();
        }
        c.replenish_open();
        if let Some((at, win, mf)) = resettle {
            if elapsed >= at as u64 {
                resettle = None;
                let mut s = c.mine.clone();
                s.initial_window_size = win;
                s.max_frame_size = mf.max(16384);
                let _ = c.update_settings(s);
            }
        }
        if (0..n).all(|i| next_to_open > i && finished(&c, i)) {
            break;
        }
        if let Some((start, dur)) = case.client_read_pause {
            let e = started.elapsed().as_millis() as u64;
            if e >= start as u64 && e < start as u64 + dur as u64 {
                std::thread::sleep(Duration::from_millis(5));
                continue;
            }
        }
        match c.next_frame(Instant::now() + Duration::from_millis(10)) {
            H2Event::Frame(_) => {}
            H2Event::Timeout => {
                if Instant::now() >= deadline {
                    let state: Vec<String> = (0..n)
                        .map(|i| {
                            let st = c.streams.get(&ids[i]);
                            format!("stream {}: {} of {} response bytes, end={}, credit {:?}", ids[i], st.map(|s| s.body.len()).unwrap_or(0), case.streams[i].resp_len, st.map(|s| s.end_stream).unwrap_or(false), c.stream_credit.get(&ids[i]))
                        })
                        .collect();
                    return Err(Failure::new(
                        format!("{tag}/transfer-stalled"),
                        format!("not all streams completed within 12 s although credit was available (connection credit {}): {}; GOAWAY {:?}", c.conn_credit, state.join("; "), c.goaway),
                    ));
                }
            }
            H2Event::Eof | H2Event::Reset => break,
        }
    }
    let _ = c.send(&Frame::goaway(0, h2::NO_ERROR));
    // ---- verdicts
    if let Some(v) = c.violations.first() {
        return Err(Failure::new(format!("{tag}/client-limit-violated:{}", limit_kind(&v.what)), format!("toward the HTTP/2 client: {} (client settings {:?})", v.what, case.client)));
    }
    std::thread::sleep(Duration::from_millis(30));
    let (h2rec, h2viol, h2errs) = {
        let g = lab.h2_shared.lock().unwrap();
        (g.recorded.clone(), g.violations.clone(), g.conn_errors.clone())
    };
    if let Some(v) = h2viol.first() {
        return Err(Failure::new(format!("{tag}/backend-limit-violated:{}", limit_kind(v)), format!("toward the h2c backend: {v} (backend settings {:?})", case.backend)));
    }
    for (i, s) in case.streams.iter().enumerate() {
        let Some(st) = c.streams.get(&ids[i]) else {
            return Err(Failure::new(format!("{tag}/no-response"), format!("stream {} got no response at all; GOAWAY {:?}", ids[i], c.goaway)));
        };
        if let Some(code) = st.reset {
            return Err(Failure::new(format!("{tag}/stream-reset:{code}"), format!("stream {} ({} request bytes, {} response bytes expected) was reset with code {code}; backend errors {:?}", ids[i], s.req_len, s.resp_len, h2errs)));
        }
        if !st.end_stream {
            return Err(Failure::new(format!("{tag}/response-incomplete"), format!("stream {}: {} of {} response bytes and no END_STREAM; GOAWAY {:?}; backend errors {:?}", ids[i], st.body.len(), s.resp_len, c.goaway, h2errs)));
        }
        let status = h2::hdr(&st.headers, ":status");
        if status.as_deref() != Some("200") {
            return Err(Failure::new(format!("{tag}/unexpected-status"), format!("stream {}: status {:?}, expected the backend's 200 ({} request bytes); backend errors {:?}", ids[i], status, s.req_len, h2errs)));
        }
        let want = content(case.seed ^ (0xA000 + i as u64), s.resp_len);
        if let Some(off) = first_mismatch(&st.body, &want) {
            return Err(Failure::new(
                format!("{tag}/response-body:{}", if case.backend_h2 { "h2c" } else { "h1" }),
                format!("stream {}: backend sent {} body bytes, the HTTP/2 client received {} (first difference at offset {off}; DATA frames {:?})", ids[i], want.len(), st.body.len(), &st.data_frames[..st.data_frames.len().min(12)]),
            ));
        }
        if h2::hdr(&st.headers, "x-lab-resp").as_deref() != Some(i.to_string().as_str()) {
            return Err(Failure::new(format!("{tag}/response-of-another-stream"), format!("stream {} carries the response of request {:?}", ids[i], h2::hdr(&st.headers, "x-lab-resp"))));
        }
        // request body at the backend
        let want_req = content(case.seed ^ (0xB000 + i as u64), s.req_len);
        if case.backend_h2 {
            let mine: Vec<_> = h2rec.iter().filter(|r| r.lab_req == Some(i)).collect();
            if mine.len() != 1 {
                return Err(Failure::new(format!("{tag}/request-count-at-backend"), format!("request {i} reached the h2c backend {} times", mine.len())));
            }
            if let Some(off) = first_mismatch(&mine[0].req.body, &want_req) {
                let got = &mine[0].req.body;
                // where do the bytes that arrived at `off` come from in what was sent? (a displacement tells a
                // duplicated or a skipped span from corruption)
                let probe = &got[off.min(got.len())..(off + 24).min(got.len())];
                let origin = if probe.len() >= 8 { want_req.windows(probe.len()).position(|w| w == probe) } else { None };
                return Err(Failure::new(format!("{tag}/request-body:h2c"), format!("stream {}: client sent {} body bytes, the h2c backend received {} (first difference at offset {off}; the 24 bytes received there are the ones sent at offset {origin:?})", ids[i], want_req.len(), got.len())));
            }
            if !mine[0].req.end_stream {
                return Err(Failure::new(format!("{tag}/request-not-ended"), format!("request {i}: the h2c backend saw no END_STREAM")));
            }
        } else {
            let rec = lab.h1_shared.lock().unwrap().recorded.clone();
            let mine: Vec<_> = rec.iter().filter(|r| r.lab_req == Some(i)).collect();
            if mine.len() != 1 {
                return Err(Failure::new(format!("{tag}/request-count-at-backend"), format!("request {i} reached the HTTP/1.1 backend {} times", mine.len())));
            }
            let Some(m) = &mine[0].msg else {
                return Err(Failure::new(format!("{tag}/request-unreadable-at-backend"), format!("request {i} as forwarded to the HTTP/1.1 backend is not well-formed: {:?}", mine[0].invalid)));
            };
            if let Some(off) = first_mismatch(&m.body, &want_req) {
                return Err(Failure::new(format!("{tag}/request-body:h1"), format!("stream {}: client sent {} body bytes, the HTTP/1.1 backend received {} (framing {:?}, end {:?}; first difference at offset {off})", ids[i], want_req.len(), m.body.len(), m.framing, m.end)));
            }
            if m.end != crate::lab::h1::End::Clean {
                return Err(Failure::new(format!("{tag}/request-not-ended"), format!("request {i}: forwarded to the HTTP/1.1 backend ending {:?}", m.end)));
            }
        }
    }
    let zero_wait = case.client.initial_window < 1000 || case.backend.initial_window < 1000 || !case.client.auto || !case.backend.auto;
    let big = case.streams.iter().any(|s| s.resp_len as u32 > case.client.initial_window || s.req_len as u32 > case.backend.initial_window);
    let boundary = case.streams.iter().any(|s| BOUNDARIES.iter().any(|b| (s.req_len as i64 - *b as i64).abs() <= 9 || (s.resp_len as i64 - *b as i64).abs() <= 9));
    rep.nontrivial = if tag == "C14" { zero_wait && big } else { case.streams.iter().any(|s| s.req_len + s.resp_len > 0) && (boundary || case.streams.len() >= 2) };
    rep.class(if case.backend_h2 { "h2->h2c" } else { "h2->h1" });
    rep.class_if(zero_wait && big, "zero_window_wait_and_body_over_initial_window");
    rep.class_if(case.streams.len() >= 2, "concurrent_streams_2+");
    rep.class_if(case.client_read_pause.is_some(), "bulk_download_with_client_read_pause_and_upload");
    rep.class_if(case.streams.len() >= 60, "60+_single_frame_uploads_above_the_connection_window");
    rep.class_if(case.backend_goaway && case.backend_h2, "backend_graceful_goaway_naming_an_open_stream");
    rep.class_if(case.slow_settings.is_some() && case.streams.len() >= 2, "stream_opened_while_backend_settings_awaited");
    rep.class_if(boundary, "size_within_9_of_a_boundary");
    rep.class_if(case.client.resettle.is_some() || case.backend.resettle.is_some(), "mid_connection_settings");
    rep.class_if(case.streams.iter().any(|s| s.req_pad.is_some() || s.resp_pad.is_some()), "padded_data");
    rep.class_if(case.resp_unique_headers > 0, "response_field_names_overflow_default_hpack_table");
    rep.class_if(case.streams.iter().any(|s| (s.req_len > 1 && s.req_frames.contains(&0)) || (case.backend_h2 && s.resp_len > 1 && s.resp_frames.contains(&0))), "empty_data_frame_inside_body");
    rep.class_if(case.streams.iter().any(|s| (s.req_len > 1 && s.req_frames.contains(&0) && s.req_pad.is_some()) || (case.backend_h2 && s.resp_len > 1 && s.resp_frames.contains(&0) && s.resp_pad.is_some())), "padding_only_data_frame_inside_body");
    rep.class_if(case.backend.max_concurrent.is_some() && case.backend_h2, "backend_max_concurrent_streams_set");
    rep.class_if(case.client.max_frame > 16384 || case.backend.max_frame > 16384, "max_frame_size_above_default");
    rep.inner_evaluations = case.streams.len() as u64;
    Ok(rep)
}

/// child-process loop shared by C14 and C01's HTTP/2 sub-check
pub fn child(args: &Args, id: &str, sub: &str, total: u64, flow_focus: bool) -> Stats {
    lab::init_ports(args.shard.map(|s| s.0).unwrap_or(0));
    let labcell: RefCell<Option<H2Lab>> = RefCell::new(None);
    let flaky = std::cell::Cell::new(0u64);
    let max = args.tier.pick(256 * 1024, 4 * 1024 * 1024);
    let tag = id.to_string();
    let run_on = |fresh: bool, case: &Case| -> CheckResult {
        let mut lab = match (fresh, labcell.borrow_mut().take()) {
            (false, Some(l)) => l,
            (_, old) => {
                drop(old);
                H2Lab::new("h2", LabConfig::default(), |_| {})
            }
        };
        let r = scenario(&mut lab, case, &tag);
        let keep = matches!(&r, Ok(rep) if !rep.classes.iter().any(|c| c == "lab_dirty"));
        *labcell.borrow_mut() = if keep { Some(lab) } else { None };
        r
    };
    let check = |case: &Case| -> CheckResult {
        let first = run_on(false, case);
        let Err(f) = first else { return first };
        for _ in 0..2 {
            if let Err(f2) = run_on(true, case) {
                return Err(if f2.signature == f.signature { f2 } else { f });
            }
        }
        flaky.set(flaky.get() + 1);
        engine::note_flaky(&tag, &f, &serde_json::to_string(case).unwrap_or_default());
        let mut rep = CaseReport::default();
        rep.class("flaky_unconfirmed");
        Ok(rep)
    };
    let mut st = engine::run_lab_shard(args, id, sub, total, strategy(flow_focus, max, if flow_focus { 4 } else { 8 }), check, 12);
    st.flaky_unconfirmed += flaky.get();
    st
}
